------------------------------ MODULE GrLlgr ------------------------------
(* C12 - graceful restart / long-lived graceful restart: how long the routes of a neighbour that
   lost its session may live, and what the speaker does while it is itself restarting.

   PROPERTY LAYER.  Everything here is a function of the INPUT history only (what the neighbours
   sent / did and when, what the operator did); nothing is taken from the code's mechanism.

   World: the speaker under test and four neighbours
     R   the neighbour that restarts; the capabilities of its OPEN are an input of every Up(R)
     O1  observer that sent the LLGR capability            O2  observer without GR / LLGR
     S   a second source announcing a competing, longer route for the same prefixes
   Two families: "v4" with the prefixes x1, x2 and "v6" with the prefixes y1, y2.  Time is an integer number of
   milliseconds of VIRTUAL time; every input carries its instant t.

   The life-cycle of R's routes is the record h (see HInit) advanced by the pure operators below;
   each rule quotes the sentence it transcribes:
     [P]    the property text C12 (properties.jsonl)
     [4724] RFC 4724 (4.2 = receiving speaker, 4.1 = restarting speaker)
     [8538] RFC 8538 (N bit, hard reset)          [9494] RFC 9494 (long-lived graceful restart)
   Where [P] and the RFCs leave two outcomes open, BOTH are accepted: a route whose presence is
   not determined carries opt = TRUE; an observation taken at the very instant of a deadline is
   not judged (edge); an input racing with a deadline, or a loss whose classification the texts do
   not settle, stops the judgement of the rest of that history (taint).

   The same operators take a set D of DEVIATIONS.  D = {} is the property.  A non-empty D replays
   confirmed defects of gobgp (known findings) so that `*_KF` invariants can tolerate exactly those:
     "pfx"      a prefix-limit overrun is classified as a graceful loss when GR is negotiated (the history
                after such a loss is not replayed any further)
     "stuck"    the GR/LLGR state negotiated by an EARLIER session (GR capability seen, families
                listed, N bit, LLGR times) is never cleared by a later OPEN without it
     "failconn" a connection attempt that fails while the neighbour is restarting is handled like
                the expiry of the restart timer
     "lldrop"   the expiry of a long-lived stale timer removes ALL routes of the family, including
                the ones re-announced in a re-established, not yet synchronised session
     "llstuck"  the restart bookkeeping (PeerRestarting, long-lived timers "running") is ended neither
                by a loss that is not graceful nor by the expiry of the last long-lived stale timer;
                at the next restart-timer expiry nothing happens (the history after either event is
                not replayed any further)          *)
EXTENDS Integers, Sequences, FiniteSets, TLC

CONSTANTS Prefixes        \* subset of {"x1","x2","y1","y2"}

Fams == {"v4", "v6"}
FamOf(x) == IF x \in {"x1", "x2"} THEN "v4" ELSE "v6"
Nbrs == {"R", "O1", "O2", "S"}

NoRoute == [src |-> "none"]
(* c: variant announced (0 plain, 1 carries NO_LLGR, 2 plain with another MED)
   stale: marked stale by the speaker      ls: LLGR_STALE attached by the speaker
   opt: presence not determined by the texts (if present it must look like this)          *)
Fresh(src, c) == [src |-> src, c |-> c, stale |-> FALSE, ls |-> FALSE, opt |-> FALSE]

NoCaps == [gr |-> FALSE, fams |-> [f \in Fams |-> FALSE], rt |-> 0, n |-> FALSE, r |-> FALSE,
           llgr |-> [f \in Fams |-> 0], hold |-> 0]

HInit == [rts |-> [x \in Prefixes |-> NoRoute], up |-> FALSE, caps |-> NoCaps, sticky |-> NoCaps,
          restarting |-> FALSE, rdl |-> -1, ldl |-> [f \in Fams |-> -1], eor |-> [f \in Fams |-> FALSE],
          second |-> FALSE, taint |-> FALSE, edge |-> FALSE, last |-> "none", over |-> FALSE,
          llever |-> FALSE, doom |-> FALSE]

---------------------------------------------------------------------------
(* capabilities in force.  [P] "a session with negotiated graceful restart": the local side has GR
   enabled for the neighbour and the neighbour's OPEN of THIS session carried the capability.
   Deviation "stuck": what any earlier session negotiated stays in force. *)
Eff(cfg, h, D) == IF "stuck" \in D THEN h.sticky ELSE h.caps
GrNeg(cfg, h, D)   == cfg.gr /\ Eff(cfg, h, D).gr
GrFams(cfg, h, D)  == IF GrNeg(cfg, h, D) THEN {f \in Fams : Eff(cfg, h, D).fams[f]} ELSE {}
NBit(cfg, h, D)    == GrNeg(cfg, h, D) /\ cfg.notif /\ Eff(cfg, h, D).n
LlTime(cfg, h, D, f) == IF GrNeg(cfg, h, D) /\ cfg.llgr THEN Eff(cfg, h, D).llgr[f] ELSE 0
LlgrNeg(cfg, h, D) == \E f \in Fams : LlTime(cfg, h, D, f) > 0

Merge(cfg, s, c) ==     \* what the code's per-neighbour state accumulates (deviation "stuck")
  IF cfg.gr /\ c.gr
  THEN [gr |-> TRUE, fams |-> [f \in Fams |-> s.fams[f] \/ c.fams[f]], rt |-> c.rt,
        n |-> s.n \/ (cfg.notif /\ c.n), r |-> c.r,
        llgr |-> [f \in Fams |-> IF cfg.llgr /\ c.llgr[f] > 0 THEN c.llgr[f] ELSE s.llgr[f]], hold |-> c.hold]
  ELSE s

---------------------------------------------------------------------------
(* expiry of the restart timer without re-establishment *)
PurgeAll(h) == [h EXCEPT !.rts = [x \in Prefixes |-> NoRoute], !.restarting = FALSE, !.rdl = -1,
                         !.ldl = [f \in Fams |-> -1], !.second = FALSE, !.over = FALSE]

RestartExpire(cfg, h, t0, D) ==
  IF LlgrNeg(cfg, h, D)
  THEN (* [P] "with long-lived GR they are instead kept carrying LLGR_STALE (NO_LLGR routes dropped)"
          [9494 4.2] "The helper router MUST attach the LLGR_STALE community to the stale routes being
          retained" / "routes ... marked with the NO_LLGR community ... MUST NOT be retained" / the timer
          for the long-lived stale time starts now; a timer that is already running (session not
          synchronised since) "MUST NOT be updated".  A family without long-lived stale time keeps nothing. *)
       [h EXCEPT !.rts = [x \in Prefixes |->
                            LET r == h.rts[x] IN
                              IF r = NoRoute \/ LlTime(cfg, h, D, FamOf(x)) = 0 \/ r.c = 1 THEN NoRoute
                              ELSE [r EXCEPT !.ls = TRUE]],
                 !.rdl = -1, !.llever = TRUE,
                 !.ldl = [f \in Fams |-> IF LlTime(cfg, h, D, f) > 0 /\ h.ldl[f] = -1
                                         THEN t0 + 1000 * LlTime(cfg, h, D, f) ELSE h.ldl[f]]]
  ELSE (* [P] "Stale routes disappear exactly when the restart timer expires without re-establishment"
          [4724 4.2] "If the session does not get re-established within the Restart Time that the peer
          advertised previously, the Receiving Speaker MUST delete all the stale routes" *)
       PurgeAll(h)

(* expiry of the long-lived stale timer of family f.
   [P] "until the per-family long-lived timer expires"  [9494 4.2] "If the timer for the Long-lived Stale
   Time expires before the session is re-established, the helper MUST delete all stale routes" *)
LlgrExpire(h, f, D) ==
  LET rts1 == [x \in Prefixes |->
                 IF FamOf(x) = f /\ h.rts[x] # NoRoute /\ (h.rts[x].stale \/ "lldrop" \in D) THEN NoRoute ELSE h.rts[x]]
      ldl1 == [h.ldl EXCEPT ![f] = -1]
      done == (\A g \in Fams : ldl1[g] = -1) /\ h.rdl = -1
  IN [h EXCEPT !.rts = rts1, !.ldl = ldl1,
               !.restarting = IF done THEN FALSE ELSE h.restarting,
               (* deviation "llstuck": the code never notices that the last long-lived timer has expired; the
                  neighbour keeps counting as restarting with long-lived timers "running": not replayed further *)
               !.doom = h.doom \/ (done /\ "llstuck" \in D),
               !.second = IF done THEN FALSE ELSE h.second,
               !.over = IF done THEN FALSE ELSE h.over]

(* time passes up to t: every deadline strictly before t has expired; a deadline equal to t is an edge *)
Adv(cfg, h, t, D) ==
  LET h1 == IF h.rdl >= 0 /\ h.rdl < t THEN RestartExpire(cfg, h, h.rdl, D) ELSE h
      h2 == IF h1.ldl["v4"] >= 0 /\ h1.ldl["v4"] < t THEN LlgrExpire(h1, "v4", D) ELSE h1
      h3 == IF h2.ldl["v6"] >= 0 /\ h2.ldl["v6"] < t THEN LlgrExpire(h2, "v6", D) ELSE h2
  IN [h3 EXCEPT !.edge = (h3.rdl = t \/ \E f \in Fams : h3.ldl[f] = t), !.taint = h3.taint \/ h3.doom]

(* an input other than the passage of time: racing with a deadline => not judged any further *)
AdvIn(cfg, h, t, D) == LET a == Adv(cfg, h, t, D) IN [a EXCEPT !.taint = a.taint \/ a.edge, !.edge = FALSE]

PurgeStale(h) == [h EXCEPT !.rts = [x \in Prefixes |-> IF h.rts[x] # NoRoute /\ h.rts[x].stale THEN NoRoute ELSE h.rts[x]],
                           !.restarting = FALSE, !.ldl = [f \in Fams |-> -1], !.second = FALSE, !.over = FALSE]

---------------------------------------------------------------------------
(* inputs concerning R *)

HTick(cfg, h, t, D) == [Adv(cfg, h, t, D) EXCEPT !.last = "tick"]

HAnn(cfg, h, t, D, x, c) == LET a == AdvIn(cfg, h, t, D) IN
  (* [P] "re-announced ones are fresh"  [4724 4.2] "replace the stale routes by the routing updates received" *)
  [a EXCEPT !.rts[x] = Fresh("R", c), !.last = "ann"]
HWd(cfg, h, t, D, x) == LET a == AdvIn(cfg, h, t, D) IN [a EXCEPT !.rts[x] = NoRoute, !.last = "wd"]

(* loss of the established session.  kinds:
     close      transport failure                 hold       hold-timer expiry (the neighbour fell silent)
     notif      NOTIFICATION received (not hard reset)       hardreset  NOTIFICATION Cease/Hard Reset received
     shutdown / reset / disable   administrative action on the LOCAL side
     pfxlimit   the neighbour exceeded its prefix limit (the speaker sends Cease/1 and closes)          *)
Qualifying(cfg, h, D, kind) ==
  (* [P] "lost in a qualifying way (transport failure, hold-timer expiry, or a NOTIFICATION when the N bit
     was negotiated)" with negotiated graceful restart;  "any other loss (hard reset, administrative
     shutdown, no GR) removes everything at once" *)
  /\ GrNeg(cfg, h, D)
  /\ \/ kind \in {"close", "hold"}
     \/ kind = "notif" /\ NBit(cfg, h, D)
     \/ kind = "pfxlimit" /\ "pfx" \in D
(* [8538 4.1] lets a locally generated non-hard-reset NOTIFICATION restart gracefully when the N bit was
   negotiated, [P] lists an administrative reset neither way: not judged *)
Unsettled(cfg, h, D, kind) == kind = "reset" /\ NBit(cfg, h, D)

HLoss(cfg, h, t, D, kind) ==
  LET a == AdvIn(cfg, h, t, D)
      q == Qualifying(cfg, a, D, kind)
      F == GrFams(cfg, a, D)
  IN IF q
     THEN [a EXCEPT
            (* [P] "routes of the families the peer listed in its GR capability stay usable but marked
               stale while all its other routes are removed at once".  A route that was ALREADY stale
               (second loss before the end of the restart): [4724 4.2] "a route (from the peer)
               previously marked as stale MUST be deleted", [8538 4.1] "consecutive restarts SHOULD NOT
               delete a route previously marked as stale": both accepted (opt). *)
            !.rts = [x \in Prefixes |-> LET r == a.rts[x] IN
                       IF r = NoRoute \/ FamOf(x) \notin F THEN NoRoute
                       ELSE IF r.stale THEN (IF D = {} THEN [r EXCEPT !.opt = TRUE] ELSE r)
                       ELSE [r EXCEPT !.stale = TRUE]],
            !.up = FALSE, !.restarting = TRUE, !.rdl = t + 1000 * Eff(cfg, a, D).rt,
            !.second = a.restarting, !.last = IF a.restarting THEN "qual2" ELSE "qual",
            (* deviation "pfx": the observation right after the mis-classified loss is replayed exactly (family
               split, the routes of the offending UPDATE installed: over); what follows is not replayed (the
               retained routes keep counting against the limit, the aborted UPDATE leaves the tables
               inconsistent): doom *)
            !.over = a.over \/ (kind = "pfxlimit"), !.doom = a.doom \/ (kind = "pfxlimit"),
            (* a second loss while long-lived stale timers of the first restart are still running: how the
               new restart timer and the running timers ([9494 4.2] "MUST NOT be updated") combine is not
               settled by [P]: not judged *)
            !.taint = a.taint \/ Unsettled(cfg, a, D, kind) \/ (a.restarting /\ \E f \in Fams : a.ldl[f] >= 0)]
     ELSE [PurgeAll(a) EXCEPT
            !.up = FALSE, !.taint = a.taint \/ Unsettled(cfg, a, D, kind),
            !.last = IF kind = "pfxlimit" THEN "nonq_pfx" ELSE IF ~(cfg.gr /\ a.caps.gr) THEN "nonq_nogr" ELSE "nonq",
            (* deviation "llstuck": the restart bookkeeping of an unfinished restart is not ended - the neighbour
               keeps counting as restarting, long-lived timers keep running: not replayed further *)
            !.doom = a.doom \/ ("llstuck" \in D /\ a.restarting)]

(* the session is (re-)established; c = capabilities of R's OPEN *)
HUp(cfg, h, t, D, c) ==
  LET a  == AdvIn(cfg, h, t, D)
      b  == [a EXCEPT !.up = TRUE, !.caps = c, !.sticky = Merge(cfg, a.sticky, c), !.rdl = -1,
                      !.eor = [f \in Fams |-> FALSE], !.last = "up"]
      F2 == GrFams(cfg, b, D)
  IN IF ~a.restarting THEN b
     ELSE IF D # {} THEN b      \* the code purges only when an End-of-RIB arrives
     ELSE IF F2 = {}
     THEN (* [P] "after re-establishment - when End-of-RIB has arrived for every GR family": there is none.
             [4724 4.2] "if the Graceful Restart Capability is not received in the re-established session
             at all ... the Receiving Speaker MUST immediately remove all the stale routes" *)
          PurgeStale(b)
     ELSE (* a family that is no longer listed ([4724 4.2]: remove immediately; [P]: at the latest when
             End-of-RIB has arrived for every GR family), or whose long-lived stale time is no longer
             advertised ([9494 4.2]): either *)
          [b EXCEPT !.rts = [x \in Prefixes |-> LET r == b.rts[x] IN
                               IF r # NoRoute /\ r.stale /\ (FamOf(x) \notin F2 \/ (r.ls /\ LlTime(cfg, b, D, FamOf(x)) = 0))
                               THEN [r EXCEPT !.opt = TRUE] ELSE r]]

HEor(cfg, h, t, D, f) ==
  LET a  == AdvIn(cfg, h, t, D)
      b  == [a EXCEPT !.eor[f] = TRUE, !.last = "eor"]
      F2 == GrFams(cfg, b, D)
  IN IF ~b.restarting THEN b
     ELSE IF \A g \in F2 : b.eor[g]
     THEN (* [P] "when End-of-RIB has arrived for every GR family, at which point routes not re-announced
             are withdrawn and re-announced ones are fresh" *)
          PurgeStale(b)
     ELSE IF D # {} THEN b
     ELSE (* [4724 4.2] purges per family on its End-of-RIB, [P] when all have arrived: either *)
          [b EXCEPT !.rts = [x \in Prefixes |-> LET r == b.rts[x] IN
                               IF r # NoRoute /\ r.stale /\ FamOf(x) = f THEN [r EXCEPT !.opt = TRUE] ELSE r]]

(* a connection attempt of R that does not reach Established: NOT a re-establishment, nothing changes
   ([P] "exactly when the restart timer expires without re-establishment") *)
HFailConn(cfg, h, t, D) ==
  LET a == AdvIn(cfg, h, t, D) IN
    IF "failconn" \in D /\ a.restarting /\ ~a.up
    THEN (IF LlgrNeg(cfg, a, D) /\ \E f \in Fams : a.ldl[f] >= 0
          THEN [a EXCEPT !.last = "failconn"]          \* long-lived timers already running: no effect
          ELSE [RestartExpire(cfg, a, t, D) EXCEPT !.last = "failconn"])
    ELSE [a EXCEPT !.last = "failconn"]

(* an input that does not concern R *)
HOther(cfg, h, t, D) == [AdvIn(cfg, h, t, D) EXCEPT !.last = "other"]

---------------------------------------------------------------------------
(* what the tables must hold and what the neighbours must have been told *)

Comm(r) == r.ls                                  \* carries LLGR_STALE
LlgrCapable(p) == p = "O1"                        \* sent the LLGR capability

(* candidates for prefix x, best first.  [P] "least preferred": a route carrying LLGR_STALE loses against
   any route that does not ([9494 4.3]); otherwise R's AS_PATH is shorter than S's. inclR: is R's route counted *)
Cands(h, srt, x, inclR) ==
  LET r == IF inclR THEN h.rts[x] ELSE NoRoute
      s == srt[x]
  IN IF r = NoRoute /\ s = NoRoute THEN <<>>
     ELSE IF r = NoRoute THEN <<s>>
     ELSE IF s = NoRoute THEN <<r>>
     ELSE IF Comm(r) THEN <<s, r>> ELSE <<r, s>>

RibRec(r, best) == [src |-> r.src, c |-> r.c, stale |-> r.stale, llgr |-> Comm(r), best |-> best]
ExpRib(h, srt, x, inclR) == LET l == Cands(h, srt, x, inclR) IN [i \in 1..Len(l) |-> RibRec(l[i], i = 1)]
ExpAdjIn(h, x, inclR) == IF inclR /\ h.rts[x] # NoRoute
                         THEN [src |-> "R", c |-> h.rts[x].c, stale |-> h.rts[x].stale, llgr |-> Comm(h.rts[x])]
                         ELSE NoRoute
(* [P] "stay usable": a stale route is advertised like any other; "only advertised to LLGR-capable peers" *)
ExpView(h, srt, p, x, inclR) ==
  LET l == Cands(h, srt, x, inclR) IN
    IF l = <<>> THEN NoRoute
    ELSE IF l[1].src = p \/ (Comm(l[1]) /\ ~LlgrCapable(p)) THEN NoRoute
    ELSE [src |-> l[1].src, c |-> l[1].c, llgr |-> Comm(l[1])]

---------------------------------------------------------------------------
(* the speaker itself is restarting ([P] last sentence, [4724 4.1]).
   eorFrom[q][f]: q sent End-of-RIB for f in its current session; caps of q as received.
   GR neighbours: established neighbours whose OPEN carried the GR capability without the restart-state
   bit ([4724 4.1] "excluding the ones with the Restart State bit set ... and ... the ones that do not
   advertise the graceful restart capability"); a configured GR neighbour that is not established has not
   sent End-of-RIB either.  The texts do not say whether the wait is per family or global, nor when the
   deferral timer starts: MustHold is the weakest, MustTell the strongest reading. *)
GrConfigured(cfg) == {"O1", "S"} \cup (IF cfg.gr THEN {"R"} ELSE {})
WeakDone(cfg, up, capsOf, eorFrom, f) ==
  \A q \in GrConfigured(cfg) : up[q] /\ (~capsOf[q].gr \/ capsOf[q].r \/ ~capsOf[q].fams[f] \/ eorFrom[q][f])
StrongDone(cfg, up, capsOf, eorFrom) ==
  \A q \in Nbrs : up[q] /\ (~capsOf[q].gr \/ capsOf[q].r \/ \A f \in Fams : eorFrom[q][f])
=============================================================================
