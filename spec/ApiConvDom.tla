----------------------------- MODULE ApiConvDom -----------------------------
(* Vocabulary of property C18 (API <-> native conversion), shared by the generator
   (ApiConvGen), the design-level check (MCApiConv), the property layer (ApiConv) and the Go
   harness (harness/c18).

   An abstract value IS the API value, written as a record in the shape of the protobuf JSON
   mapping of pkg/api (proto field names; oneof = a record with the one member that is set;
   repeated = sequence; every number is its DECIMAL STRING because TLC integers are 32-bit;
   bytes = base64 string; enum = its proto name; a message without fields = Empty).  The harness
   turns such a record into
     - an api.* message with the protobuf library alone (protojson), and
     - a NATIVE value with the constructors of pkg/packet/bgp alone (harness/c18/c18_build_test.go),
   so neither concretisation goes through a converter under test.

   Native-only distinctions that the API form cannot carry (2-octet / 4-octet AS kind of AS_PATH
   segments and AGGREGATOR, IPv4 next hop held in IPv4-mapped form) travel beside the value in
   the `hint` record of a behaviour.  *)
EXTENDS Naturals, Sequences, FiniteSets, TLC

Empty == [empty |-> TRUE]          \* a message without fields
NoHint == [none |-> TRUE]

(* ------------------------------- scalar pools -------------------------------------------- *)
(* absent / zero / one / boundary / max of each width.  Tokens, never computed with. *)
U8    == {"0", "1", "255"}
U16   == {"0", "1", "65535"}
U24   == {"0", "16", "1048575"}                       \* MPLS label values (20 bit)
U32   == {"0", "1", "65536", "4294967295"}
U64   == {"0", "1", "4294967296", "18446744073709551615"}
AS2   == {"1", "23456", "65000", "65535"}
AS4   == AS2 \cup {"65536", "4200000001", "4294967295"}
V4    == {"0.0.0.0", "10.0.0.1", "192.0.2.255", "255.255.255.255"}
V6    == {"::", "2001:db8::1", "fe80::1", "::ffff:10.0.0.1"}
V6G   == {"2001:db8::1", "2001:db8:ffff:ffff:ffff:ffff:ffff:ffff"}      \* global unicast
V6LL  == {"fe80::1", "fe80::ffff:ffff:ffff:ffff"}                        \* link local
Bools == BOOLEAN
(* base64 *)
B0 == ""
B1 == "AQ=="                                   \* 01
B3 == "AQID"                                   \* 01 02 03
B4 == "CgAAAQ=="                               \* 0a 00 00 01
B6 == "AAECAwQF"                               \* 00 01 02 03 04 05
B7 == "AQIDBAUGBw=="                           \* 01..07
B9 == "AQIDBAUGBwgJ"                           \* 01..09   (ESI value)
B9Z == "AAAAAAAAAAAA"                          \* 9 x 00
B16 == "IAENuAAAAAAAAAAAAAAAAQ=="              \* 2001:db8::1
BytesPool == {B0, B1, B3, B7}
Macs == {"00:00:00:00:00:00", "00:11:22:33:44:55", "ff:ff:ff:ff:ff:ff"}
Floats == {"0", "1.5", "125000"}               \* exactly representable IEEE-754 single values

(* ------------------------------- families ------------------------------------------------- *)
Fam(a, s) == [afi |-> a, safi |-> s]
F_V4UC == Fam("AFI_IP", "SAFI_UNICAST")
F_V6UC == Fam("AFI_IP6", "SAFI_UNICAST")
F_V4MC == Fam("AFI_IP", "SAFI_MULTICAST")
F_V6MC == Fam("AFI_IP6", "SAFI_MULTICAST")
F_V4LB == Fam("AFI_IP", "SAFI_MPLS_LABEL")
F_V6LB == Fam("AFI_IP6", "SAFI_MPLS_LABEL")
F_V4VPN == Fam("AFI_IP", "SAFI_MPLS_VPN")
F_V6VPN == Fam("AFI_IP6", "SAFI_MPLS_VPN")
F_V4ENC == Fam("AFI_IP", "SAFI_ENCAPSULATION")
F_V6ENC == Fam("AFI_IP6", "SAFI_ENCAPSULATION")
F_EVPN == Fam("AFI_L2VPN", "SAFI_EVPN")
F_VPLS == Fam("AFI_L2VPN", "SAFI_VPLS")
F_RTC  == Fam("AFI_IP", "SAFI_ROUTE_TARGET_CONSTRAINTS")
F_V4FS == Fam("AFI_IP", "SAFI_FLOW_SPEC_UNICAST")
F_V6FS == Fam("AFI_IP6", "SAFI_FLOW_SPEC_UNICAST")
F_V4FSVPN == Fam("AFI_IP", "SAFI_FLOW_SPEC_VPN")
F_V6FSVPN == Fam("AFI_IP6", "SAFI_FLOW_SPEC_VPN")
F_L2FSVPN == Fam("AFI_L2VPN", "SAFI_FLOW_SPEC_VPN")
F_OPAQUE == Fam("AFI_OPAQUE", "SAFI_KEY_VALUE")
F_V4SR == Fam("AFI_IP", "SAFI_SR_POLICY")
F_V6SR == Fam("AFI_IP6", "SAFI_SR_POLICY")
F_V4MUP == Fam("AFI_IP", "SAFI_MUP")
F_V6MUP == Fam("AFI_IP6", "SAFI_MUP")
F_LS == Fam("AFI_LS", "SAFI_LS")
CapFamilies == {F_V4UC, F_V6UC, F_V4VPN, F_EVPN, F_RTC, F_V4FS, F_LS, F_V6MUP}

(* ------------------------------- shared sub-values ----------------------------------------- *)
RD2(a, n) == [two_octet_asn |-> [admin |-> a, assigned |-> n]]
RDIP(a, n) == [ip_address |-> [admin |-> a, assigned |-> n]]
RD4(a, n) == [four_octet_asn |-> [admin |-> a, assigned |-> n]]
RDBase == RD2("65000", "100")
RDPool == {RD2(a, n) : a \in {"0", "65535"}, n \in {"0", "4294967295"}}
          \cup {RDIP(a, n) : a \in {"0.0.0.0", "10.0.0.1"}, n \in {"0", "65535"}}
          \cup {RD4(a, n) : a \in {"65536", "4294967295"}, n \in {"0", "65535"}}

EC2(tr, st, as, la) == [two_octet_as_specific |-> [is_transitive |-> tr, sub_type |-> st, asn |-> as, local_admin |-> la]]
ECIP(tr, st, ad, la) == [ipv4_address_specific |-> [is_transitive |-> tr, sub_type |-> st, address |-> ad, local_admin |-> la]]
EC4(tr, st, as, la) == [four_octet_as_specific |-> [is_transitive |-> tr, sub_type |-> st, asn |-> as, local_admin |-> la]]
RTBase == EC2(TRUE, "2", "65000", "100")
RTPool == {EC2(TRUE, "2", a, l) : a \in {"1", "65535"}, l \in {"0", "4294967295"}}
          \cup {ECIP(TRUE, "2", a, l) : a \in {"10.0.0.1", "255.255.255.255"}, l \in {"0", "65535"}}
          \cup {EC4(TRUE, "2", a, l) : a \in {"65536", "4294967295"}, l \in {"0", "65535"}}

ESI(t, v) == [type |-> t, value |-> v]
ESIBase == ESI("0", B9Z)
ESIPool == {ESI("0", B9Z), ESI("0", B9), ESI("1", B9), ESI("5", B9), ESI("255", B9)}

(* ------------------------------- NLRI ------------------------------------------------------- *)
N_Prefix(p, l) == [prefix |-> [prefix_len |-> l, prefix |-> p]]
N_Labeled(ls, p, l) == [labeled_prefix |-> [labels |-> ls, prefix_len |-> l, prefix |-> p]]
N_Encap(a) == [encapsulation |-> [address |-> a]]
N_Vpls(rd, id, off, sz, base) ==
  [vpls |-> [rd |-> rd, ve_id |-> id, ve_block_offset |-> off, ve_block_size |-> sz, label_block_base |-> base]]
N_EvpnAD(rd, esi, tag, lb) == [evpn_ethernet_ad |-> [rd |-> rd, esi |-> esi, ethernet_tag |-> tag, label |-> lb]]
N_EvpnMac(rd, esi, tag, mac, ip, ls) ==
  [evpn_macadv |-> [rd |-> rd, esi |-> esi, ethernet_tag |-> tag, mac_address |-> mac, ip_address |-> ip, labels |-> ls]]
N_EvpnMcast(rd, tag, ip) == [evpn_multicast |-> [rd |-> rd, ethernet_tag |-> tag, ip_address |-> ip]]
N_EvpnES(rd, esi, ip) == [evpn_ethernet_segment |-> [rd |-> rd, esi |-> esi, ip_address |-> ip]]
N_EvpnPfx(rd, esi, tag, p, l, gw, lb) ==
  [evpn_ip_prefix |-> [rd |-> rd, esi |-> esi, ethernet_tag |-> tag, ip_prefix |-> p, ip_prefix_len |-> l,
                       gw_address |-> gw, label |-> lb]]
N_EvpnIPmsi(rd, tag, rt) == [evpn_i_pmsi |-> [rd |-> rd, ethernet_tag |-> tag, rt |-> rt]]
N_Vpn(ls, rd, p, l) == [labeled_vpn_ip_prefix |-> [labels |-> ls, rd |-> rd, prefix_len |-> l, prefix |-> p]]
N_Rtc(as, rt) == [route_target_membership |-> [asn |-> as, rt |-> rt]]
N_RtcDefault(as) == [route_target_membership |-> [asn |-> as]]          \* no route target: the default RTC route
FS_Prefix(t, p, l, off) == [ip_prefix |-> [type |-> t, prefix_len |-> l, prefix |-> p, offset |-> off]]
FS_Mac(t, m) == [mac |-> [type |-> t, address |-> m]]
FS_Item(op, v) == [op |-> op, value |-> v]
FS_Comp(t, items) == [component |-> [type |-> t, items |-> items]]
(* a component item's operator octet (RFC 8955 4.2.1): end-of-list 0x80 | and 0x40 | operand length 0x30
   (1 << len octets) | comparison bits lt 0x04 gt 0x02 eq 0x01 (numeric) or not 0x02 match 0x01 (bitmask).
   The operand length is an INDEPENDENT dimension: a value may be carried in more octets than it needs
   (dst-port 80 in two octets, 0x91 0x00 0x50, is a valid encoding and another octet string than 0x81 0x50).
   FsVals pairs a value with the smallest length code that holds it. *)
FsOp(e, a, l, c) == ToString((IF e THEN 128 ELSE 0) + (IF a THEN 64 ELSE 0) + 16 * l + c)
FsVals == {<<"0", 0>>, <<"80", 0>>, <<"255", 0>>, <<"256", 1>>, <<"8080", 1>>, <<"65535", 1>>, <<"65536", 2>>,
           <<"4294967295", 2>>, <<"4294967296", 3>>}
FsLens(v) == {l \in 0..3 : l >= v[2]}                 \* every operand length that can hold the value
FS_ItemL(e, a, l, c, v) == FS_Item(FsOp(e, a, l, c), v[1])
N_Flow(rules) == [flow_spec |-> [rules |-> rules]]
N_FlowVpn(rd, rules) == [vpn_flow_spec |-> [rd |-> rd, rules |-> rules]]
N_Opaque(k, v) == [opaque |-> [key |-> k, value |-> v]]
N_SrPolicy(len, d, c, ep) == [sr_policy |-> [length |-> len, distinguisher |-> d, color |-> c, endpoint |-> ep]]
N_MupISD(rd, p) == [mup_interwork_segment_discovery |-> [rd |-> rd, prefix |-> p]]
N_MupDSD(rd, a) == [mup_direct_segment_discovery |-> [rd |-> rd, address |-> a]]
MT_Session(teid, qfi) == [session_parameters |-> [teid |-> teid, qfi |-> qfi]]
MT_Interwork(a) == [interwork_endpoint |-> [address |-> a]]
MT_Source(a) == [source_address |-> [address |-> a]]
MT_Unknown(t, v) == [unknown |-> [type |-> t, value |-> v]]
N_MupT1(rd, p, teid, qfi, eal, ea, sal, sa, tlvs) ==
  [mup_type_1_session_transformed |->
     [rd |-> rd, prefix_length |-> "0", prefix |-> p, teid |-> teid, qfi |-> qfi, endpoint_address_length |-> eal,
      endpoint_address |-> ea, source_address_length |-> sal, source_address |-> sa, tlvs |-> tlvs]]
N_MupT2(rd, eal, ea, teid, tlvs) ==
  [mup_type_2_session_transformed |->
     [rd |-> rd, endpoint_address_length |-> eal, endpoint_address |-> ea, teid |-> teid, tlvs |-> tlvs]]

NlriVal(f, n) == [family |-> f, nlri |-> n]

V4Prefixes == {<<"0.0.0.0", "0">>, <<"128.0.0.0", "1">>, <<"10.0.0.0", "8">>, <<"10.1.2.0", "24">>,
               <<"10.1.2.3", "32">>, <<"255.255.255.255", "32">>}
V6Prefixes == {<<"::", "0">>, <<"2001:db8::", "32">>, <<"2001:db8:1::", "64">>, <<"2001:db8::1", "128">>,
               <<"::ffff:10.0.0.1", "128">>}
LabelStacks == {<<"16">>, <<"0">>, <<"1048575">>, <<"524288">>, <<"16", "17">>, <<"3", "16", "1048575">>}   \* 524288 = withdraw label 0x800000

(* one NLRI of each family, used inside MP_REACH / MP_UNREACH and for paths *)
NlriOf(f) ==
  CASE f \in {F_V4UC, F_V4MC} -> N_Prefix("10.1.2.0", "24")
    [] f \in {F_V6UC, F_V6MC} -> N_Prefix("2001:db8:1::", "64")
    [] f = F_V4LB -> N_Labeled(<<"16">>, "10.1.2.0", "24")
    [] f = F_V6LB -> N_Labeled(<<"16">>, "2001:db8:1::", "64")
    [] f = F_V4VPN -> N_Vpn(<<"16">>, RDBase, "10.1.2.0", "24")
    [] f = F_V6VPN -> N_Vpn(<<"16">>, RDBase, "2001:db8:1::", "64")
    [] f = F_V4ENC -> N_Encap("10.0.0.1")
    [] f = F_V6ENC -> N_Encap("2001:db8::1")
    [] f = F_EVPN -> N_EvpnMcast(RDBase, "10", "10.0.0.1")
    [] f = F_VPLS -> N_Vpls(RDBase, "1", "2", "8", "1000")
    [] f = F_RTC -> N_Rtc("65000", RTBase)
    [] f = F_V4FS -> N_Flow(<<FS_Prefix("1", "10.1.2.0", "24", "0")>>)
    [] f = F_V6FS -> N_Flow(<<FS_Prefix("1", "2001:db8:1::", "64", "0")>>)
    [] f = F_V4FSVPN -> N_FlowVpn(RDBase, <<FS_Prefix("1", "10.1.2.0", "24", "0")>>)
    [] f = F_V6FSVPN -> N_FlowVpn(RDBase, <<FS_Prefix("1", "2001:db8:1::", "64", "0")>>)
    [] f = F_OPAQUE -> N_Opaque(B3, B1)
    [] f = F_V4SR -> N_SrPolicy("96", "1", "100", B4)
    [] f = F_V6SR -> N_SrPolicy("192", "1", "100", B16)
    [] f = F_V4MUP -> N_MupDSD(RDBase, "10.0.0.1")
    [] f = F_V6MUP -> N_MupDSD(RDBase, "2001:db8::1")

(* ------------------------------- path attributes ------------------------------------------- *)
Seg(t, ns) == [type |-> t, numbers |-> ns]
SegTypes == {"TYPE_AS_SET", "TYPE_AS_SEQUENCE", "TYPE_AS_CONFED_SEQUENCE", "TYPE_AS_CONFED_SET"}
A_Origin(o) == [origin |-> [origin |-> o]]
A_AsPath(segs) == [as_path |-> [segments |-> segs]]
A_NextHop(a) == [next_hop |-> [next_hop |-> a]]
A_Med(m) == [multi_exit_disc |-> [med |-> m]]
A_LocalPref(p) == [local_pref |-> [local_pref |-> p]]
A_Atomic == [atomic_aggregate |-> Empty]
A_Aggregator(as, a) == [aggregator |-> [asn |-> as, address |-> a]]
A_Communities(cs) == [communities |-> [communities |-> cs]]
A_Originator(id) == [originator_id |-> [id |-> id]]
A_ClusterList(ids) == [cluster_list |-> [ids |-> ids]]
A_MpReach(f, nhs, nl) == [mp_reach |-> [family |-> f, next_hops |-> nhs, nlris |-> nl]]
A_MpUnreach(f, nl) == [mp_unreach |-> [family |-> f, nlris |-> nl]]
A_ExtComm(cs) == [extended_communities |-> [communities |-> cs]]
A_As4Path(segs) == [as4_path |-> [segments |-> segs]]
A_As4Aggregator(as, a) == [as4_aggregator |-> [asn |-> as, address |-> a]]
A_Pmsi(fl, t, lb, id) == [pmsi_tunnel |-> [flags |-> fl, type |-> t, label |-> lb, id |-> id]]
A_TunnelEncap(tlvs) == [tunnel_encap |-> [tlvs |-> tlvs]]
TE_Tlv(t, subs) == [type |-> t, tlvs |-> subs]
A_Ip6ExtComm(cs) == [ip6_extended_communities |-> [communities |-> cs]]
A_Aigp(tlvs) == [aigp |-> [tlvs |-> tlvs]]
A_Large(cs) == [large_communities |-> [communities |-> cs]]
LC(g, a, b) == [global_admin |-> g, local_data1 |-> a, local_data2 |-> b]
A_Unknown(fl, t, v) == [unknown |-> [flags |-> fl, type |-> t, value |-> v]]

(* extended community sub-types: every member of the ExtendedCommunity oneof *)
EC_Validation(s) == [validation |-> [state |-> s]]
EC_LinkBw(as, bw) == [link_bandwidth |-> [asn |-> as, bandwidth |-> bw]]
EC_Color(c) == [color |-> [color |-> c]]
EC_Encap(t) == [encap |-> [tunnel_type |-> t]]
EC_DefaultGw == [default_gateway |-> Empty]
EC_Opaque(tr, v) == [opaque |-> [is_transitive |-> tr, value |-> v]]
EC_EsiLabel(sa, lb) == [esi_label |-> [is_single_active |-> sa, label |-> lb]]
EC_EsImport(m) == [es_import |-> [es_import |-> m]]
EC_MacMob(st, sq) == [mac_mobility |-> [is_sticky |-> st, sequence_num |-> sq]]
EC_RouterMac(m) == [router_mac |-> [mac |-> m]]
EC_TrafficRate(as, r) == [traffic_rate |-> [asn |-> as, rate |-> r]]
EC_TrafficAction(t, s) == [traffic_action |-> [terminal |-> t, sample |-> s]]
EC_Redirect2(as, la) == [redirect_two_octet_as_specific |-> [asn |-> as, local_admin |-> la]]
EC_RedirectIP(a, la) == [redirect_ipv4_address_specific |-> [address |-> a, local_admin |-> la]]
EC_Redirect4(as, la) == [redirect_four_octet_as_specific |-> [asn |-> as, local_admin |-> la]]
EC_Remark(d) == [traffic_remark |-> [dscp |-> d]]
EC_Mup2(st, as, la) == [mup_two_octet_as_specific |-> [sub_type |-> st, asn |-> as, local_admin |-> la]]
EC_MupIP(st, a, la) == [mup_ipv4_address_specific |-> [sub_type |-> st, address |-> a, local_admin |-> la]]
EC_Mup4(st, as, la) == [mup_four_octet_as_specific |-> [sub_type |-> st, asn |-> as, local_admin |-> la]]
EC_Vpls(fl, mtu) == [vpls |-> [control_flags |-> fl, mtu |-> mtu]]
EC_Etree(lf, lb) == [etree |-> [is_leaf |-> lf, label |-> lb]]
EC_McastFlags(i, m) == [multicast_flags |-> [is_igmp_proxy |-> i, is_mld_proxy |-> m]]
EC_Unknown(t, v) == [unknown |-> [type |-> t, value |-> v]]
EC6(tr, st, a, la) == [ipv6_address_specific |-> [is_transitive |-> tr, sub_type |-> st, address |-> a, local_admin |-> la]]
EC6Redirect(a, la) == [redirect_ipv6_address_specific |-> [address |-> a, local_admin |-> la]]

(* one field at a time around the base value of each extended community kind *)
ExtCommPool ==
  {EC2(tr, st, "65000", "100") : tr \in Bools, st \in {"2", "3", "255"}}          \* route target, origin, other
  \cup {EC2(TRUE, "2", as, la) : as \in {"0", "65535"}, la \in {"0", "4294967295"}}
  \cup {ECIP(tr, st, "10.0.0.1", "100") : tr \in Bools, st \in {"2", "3"}}
  \cup {ECIP(TRUE, "2", a, la) : a \in {"0.0.0.0", "255.255.255.255"}, la \in {"0", "65535"}}
  \cup {EC4(tr, st, "65536", "100") : tr \in Bools, st \in {"2", "3"}}
  \cup {EC4(TRUE, "2", as, la) : as \in {"0", "4294967295"}, la \in {"0", "65535"}}
  \cup {EC_Validation(s) : s \in {"0", "1", "2", "255"}}
  \cup {EC_LinkBw(as, bw) : as \in {"0", "65535"}, bw \in Floats}
  \cup {EC_Color(c) : c \in U32}
  \cup {EC_Encap(t) : t \in {"0", "8", "15", "65535"}}
  \cup {EC_DefaultGw}
  \cup {EC_Opaque(tr, v) : tr \in Bools, v \in {B7}}
  \cup {EC_EsiLabel(sa, lb) : sa \in Bools, lb \in {"0", "16", "16777215"}}
  \cup {EC_EsImport(m) : m \in Macs}
  \cup {EC_MacMob(st, sq) : st \in Bools, sq \in U32}
  \cup {EC_RouterMac(m) : m \in Macs}
  \cup {EC_TrafficRate(as, r) : as \in {"0", "65535"}, r \in Floats}
  \cup {EC_TrafficAction(t, s) : t \in Bools, s \in Bools}
  \cup {EC_Redirect2(as, la) : as \in {"0", "65535"}, la \in {"0", "4294967295"}}
  \cup {EC_RedirectIP(a, la) : a \in {"10.0.0.1"}, la \in {"0", "65535"}}
  \cup {EC_Redirect4(as, la) : as \in {"65536", "4294967295"}, la \in {"0", "65535"}}
  \cup {EC_Remark(d) : d \in {"0", "1", "63"}}
  \cup {EC_Mup2(st, "65000", "100") : st \in {"0", "3"}}                           \* direct / interwork segment
  \cup {EC_MupIP(st, "10.0.0.1", "100") : st \in {"1", "4"}}
  \cup {EC_Mup4(st, "65536", "100") : st \in {"2", "5"}}
  \cup {EC_Vpls(fl, mtu) : fl \in U8, mtu \in U16}
  \cup {EC_Etree(lf, lb) : lf \in Bools, lb \in {"0", "16", "1048575"}}
  \cup {EC_McastFlags(i, m) : i \in Bools, m \in Bools}
  \cup {EC_Unknown(t, B7) : t \in {"4", "99", "255"}}
Ip6ExtCommPool ==
  {EC6(tr, st, a, la) : tr \in Bools, st \in {"2", "3"}, a \in {"2001:db8::1", "::"}, la \in {"0", "65535"}}
  \cup {EC6Redirect(a, la) : a \in {"2001:db8::1"}, la \in {"0", "65535"}}

(* tunnel encapsulation sub-TLVs that have a constructor *)
TS_Encap(k, c) == [encapsulation |-> [key |-> k, cookie |-> c]]
TS_Protocol(p) == [protocol |-> [protocol |-> p]]
TS_Color(c) == [color |-> [color |-> c]]
TS_Egress(a) == [egress_endpoint |-> [address |-> a]]
TS_UdpPort(p) == [udp_dest_port |-> [port |-> p]]
TS_SrPref(fl, p) == [sr_preference |-> [flags |-> fl, preference |-> p]]
TS_SrPrio(p) == [sr_priority |-> [priority |-> p]]
TS_SrName(n) == [sr_candidate_path_name |-> [candidate_path_name |-> n]]
TS_SrEnlp(fl, e) == [sr_enlp |-> [flags |-> fl, enlp |-> e]]
TS_Unknown(t, v) == [unknown |-> [type |-> t, value |-> v]]
EncapSubPool ==
  {TS_Encap(k, c) : k \in U32, c \in {B0, B3}}
  \cup {TS_Protocol(p) : p \in U16}
  \cup {TS_Color(c) : c \in U32}
  \cup {TS_Egress(a) : a \in {"10.0.0.1", "2001:db8::1"}}
  \cup {TS_UdpPort(p) : p \in U16}
  \cup {TS_SrPref(fl, p) : fl \in {"0", "255"}, p \in {"0", "4294967295"}}
  \cup {TS_SrPrio(p) : p \in U8}
  \cup {TS_SrName(n) : n \in {"", "cp1"}}
  \cup {TS_SrEnlp(fl, e) : fl \in {"0", "255"}, e \in {"ENLP_TYPE_TYPE1", "ENLP_TYPE_TYPE4"}}
  \cup {TS_Unknown(t, v) : t \in {"0", "99", "127", "128", "255"}, v \in {B0, B3}}

(* AIGP TLVs *)
AG_Metric(m) == [igp_metric |-> [metric |-> m]]
AG_Unknown(t, v) == [unknown |-> [type |-> t, value |-> v]]

(* prefix-SID: SRv6 service TLVs; the API keys sub-TLVs by type (map), the vocabulary uses key 1 *)
PS_Struct(lb, ln, f, a, tl, to) ==
  [structure |-> [locator_block_length |-> lb, locator_node_length |-> ln, function_length |-> f,
                  argument_length |-> a, transposition_length |-> tl, transposition_offset |-> to]]
PS_Info(sid, beh, subsub) ==
  [information |-> [sid |-> sid, flags |-> [flag_1 |-> FALSE], endpoint_behavior |-> beh, sub_sub_tlvs |-> subsub]]
PS_NoSubSub == Empty                                   \* an empty map is an empty object
PS_SubSub(ss) == ("1" :> [tlvs |-> ss])
PS_Sub(ss) == ("1" :> [tlvs |-> ss])
PS_L3(sub) == [l3_service |-> [sub_tlvs |-> sub]]
PS_L2(sub) == [l2_service |-> [sub_tlvs |-> sub]]
A_PrefixSid(tlvs) == [prefix_sid |-> [tlvs |-> tlvs]]

(* ------------------------------- capabilities ---------------------------------------------- *)
C_MultiProtocol(f) == [multi_protocol |-> [family |-> f]]
C_RouteRefresh == [route_refresh |-> Empty]
C_CarryingLabel == [carrying_label_info |-> Empty]
C_ExtNexthop(ts) == [extended_nexthop |-> [tuples |-> ts]]
ENH(nf, hf) == [nlri_family |-> nf, nexthop_family |-> hf]
C_GR(fl, t, ts) == [graceful_restart |-> [flags |-> fl, time |-> t, tuples |-> ts]]
GRT(f, fl) == [family |-> f, flags |-> fl]
C_As4(as) == [four_octet_asn |-> [asn |-> as]]
C_AddPath(ts) == [add_path |-> [tuples |-> ts]]
APT(f, m) == [family |-> f, mode |-> m]
C_ERR == [enhanced_route_refresh |-> Empty]
C_LLGR(ts) == [long_lived_graceful_restart |-> [tuples |-> ts]]
LLT(f, fl, t) == [family |-> f, flags |-> fl, time |-> t]
C_RRCisco == [route_refresh_cisco |-> Empty]
C_Fqdn(h, d) == [fqdn |-> [host_name |-> h, domain_name |-> d]]
C_SoftVer(v) == [software_version |-> [software_version |-> v]]
C_ExtMsg == [extended_message |-> Empty]
C_Unknown(c, v) == [unknown |-> [code |-> c, value |-> v]]

(* ------------------------------- behaviours -------------------------------------------------- *)
Beh(k, v, h, sw) == [k |-> k, name |-> "", val |-> v, hint |-> h, sw |-> sw]
Ex(n) == [k |-> "ex", name |-> n, val |-> [none |-> TRUE], hint |-> NoHint, sw |-> "ex"]

(* the kind of a value = the member of the top-level oneof that is set *)
KindOf(v) == CHOOSE k \in DOMAIN v : TRUE
=============================================================================
