---------------------------- MODULE GrLlgrGen ----------------------------
(* Behaviour generator for C12 (TLC -simulate): random schedules over the input alphabet of GrLlgr.tla.
   The generator carries the property layer's own life-cycle record h in NOMINAL time (inputs take no
   time, a lost neighbour can reconnect 5 s after the loss) only to keep the walk meaningful (losses when
   the session is up, re-establishment when it is down, ticks aimed at the pending deadlines).  Verdicts
   never use it: the harness stamps every executed step with the real virtual instant.
     Mode "helper":  O1, O2, S and R are brought up first; then announcements, losses of R of every
                     kind, failed and successful reconnections with new capabilities, End-of-RIBs, ticks
                     to one second before / exactly at / one second after each pending deadline.
     Mode "restart": the speaker under test is the restarting speaker: neighbours come up in any
                     order, announce, send End-of-RIB per family; ticks around the deferral time. *)
EXTENDS GrLlgr, GrLlgrDom, Json

CONSTANTS MaxSteps, Mode

VARIABLES cfg, h, srt, oup, now, downAt, force, hist
gvars == <<cfg, h, srt, oup, now, downAt, force, hist>>

Pick(S) == RandomElement(S)
PickW(q) == q[RandomElement(1..Len(q))]          \* weighted choice: repeat an element to make it likelier
RandCaps(allowR) == MkCaps(PickW(<<"none", "empty", "v4", "both", "both", "both", "both">>), Pick({30, 60}), Pick(BOOLEAN),
                           PickW(<<"none", "none", "v4", "both", "both">>), PickW(<<0, 0, 0, 0, 9>>), allowR /\ Pick(BOOLEAN))

Others == {"O1", "O2", "S"}
HelperWarm == <<SUp("O1"), SUp("O2"), SUp("S")>>

GInit ==
  /\ srt = [x \in Prefixes |-> NoRoute] /\ now = 0 /\ downAt = -100000 /\ force = FALSE
  /\ IF Mode = "helper"
     THEN /\ cfg \in CfgPool
          /\ h = HInit /\ hist = HelperWarm
          /\ oup = [p \in Others |-> TRUE]
     ELSE /\ cfg \in {[MkCfg(TRUE, b, TRUE) EXCEPT !.restart = TRUE] : b \in BOOLEAN}
          /\ h = HInit /\ hist = <<>> /\ oup = [p \in Others |-> FALSE]

Log(e) == hist' = Append(hist, e)
Keep == UNCHANGED <<cfg, oup>>

GAnnR == /\ h.up /\ ~force
         /\ LET x == Pick(Prefixes)  c == PickW(<<0, 0, 0, 1, 2>>) IN
              h' = HAnn(cfg, h, now, {}, x, c) /\ Log(SAnn("R", x, c))
         /\ Keep /\ UNCHANGED <<srt, now, downAt, force>>
GWdR  == /\ h.up /\ ~force
         /\ LET x == Pick(Prefixes) IN h' = HWd(cfg, h, now, {}, x) /\ Log(SWd("R", x))
         /\ Keep /\ UNCHANGED <<srt, now, downAt, force>>
GAnnS == /\ oup["S"] /\ ~force
         /\ LET x == Pick(Prefixes) IN srt' = [srt EXCEPT ![x] = Fresh("S", 0)] /\ Log(SAnn("S", x, 0))
         /\ Keep /\ UNCHANGED <<h, now, downAt, force>>
GWdS  == /\ oup["S"] /\ ~force
         /\ LET x == Pick(Prefixes) IN srt' = [srt EXCEPT ![x] = NoRoute] /\ Log(SWd("S", x))
         /\ Keep /\ UNCHANGED <<h, now, downAt, force>>
GLoss == /\ Mode = "helper" /\ h.up /\ ~force
         /\ LET kind == PickW(<<"close", "close", "close", "hold", "hold", "notif", "notif", "hardreset", "shutdown", "reset", "disable", "pfxlimit">>) IN
              /\ (kind = "hold" => h.caps.hold > 0)
              /\ h' = HLoss(cfg, h, now, {}, kind) /\ Log(SLoss(kind))
         /\ downAt' = now /\ Keep /\ UNCHANGED <<srt, now, force>>
GUpR  == /\ ~h.up /\ ~force
         /\ LET c == RandCaps(Mode = "restart")
                t == IF now < downAt + 5000 THEN downAt + 5000 ELSE now IN
              /\ h' = HUp(cfg, h, t, {}, c) /\ now' = t /\ Log(SUpR(c))
         /\ Keep /\ UNCHANGED <<srt, downAt, force>>
GUpO  == /\ Mode = "restart" /\ ~force
         /\ \E p \in Others : ~oup[p] /\ oup' = [oup EXCEPT ![p] = TRUE] /\ Log(SUp(p))
         /\ UNCHANGED <<cfg, h, srt, now, downAt, force>>
GEorR == /\ h.up /\ ~force
         /\ LET f == Pick(Fams) IN h' = HEor(cfg, h, now, {}, f) /\ Log(SEor("R", f))
         /\ Keep /\ UNCHANGED <<srt, now, downAt, force>>
GEorO == /\ Mode = "restart" /\ ~force
         /\ \E p \in {"O1", "S"} : oup[p] /\ Log(SEor(p, Pick(Fams)))
         /\ UNCHANGED <<cfg, h, srt, oup, now, downAt, force>>
GFail == /\ Mode = "helper" /\ ~h.up /\ h.restarting /\ ~force
         /\ LET t == IF now < downAt + 5000 THEN downAt + 5000 ELSE now IN
              h' = HFailConn(cfg, h, t, {}) /\ now' = t /\ downAt' = t /\ Log(SFail(Pick({"tcp", "open"})))
         /\ Keep /\ UNCHANGED <<srt, force>>
GTick == LET d == IF force THEN 1 ELSE PickW(<<1, 5, 5, 20, 40>>) IN
           /\ now' = now + 1000 * d /\ h' = HTick(cfg, h, now', {}) /\ Log(STick(d)) /\ force' = FALSE
           /\ Keep /\ UNCHANGED <<srt, downAt>>
(* aim at a pending deadline: one second before, exactly at (then one more second is forced before any
   other input, so that no input races with the deadline), one second after *)
Pending == (IF h.rdl >= 0 THEN {<<"restart", h.rdl>>} ELSE {})
           \cup (IF h.ldl["v4"] >= 0 THEN {<<"llgr4", h.ldl["v4"]>>} ELSE {})
           \cup (IF h.ldl["v6"] >= 0 THEN {<<"llgr6", h.ldl["v6"]>>} ELSE {})
           \cup (IF h.rdl >= 0 /\ LlgrNeg(cfg, h, {}) /\ LlTime(cfg, h, {}, "v4") > 0 /\ h.ldl["v4"] < 0
                 THEN {<<"llgr4", h.rdl + 1000 * LlTime(cfg, h, {}, "v4")>>} ELSE {})
GTickTo == /\ ~force /\ Pending # {}
           /\ LET d == Pick(Pending)  o == Pick({-1, 0, 1})  t == d[2] + 1000 * o IN
                /\ t > now
                /\ now' = t /\ h' = HTick(cfg, h, t, {}) /\ Log(STickTo(d[1], o)) /\ force' = (o = 0)
           /\ Keep /\ UNCHANGED <<srt, downAt>>
GTickDefer == /\ Mode = "restart" /\ ~force
              /\ LET to == Pick({"deferO1", "deferO2", "deferR", "deferS"})  o == Pick({-1, 0, 1}) IN
                   Log(STickTo(to, o)) /\ force' = (o = 0)
              /\ now' = now + 1000 /\ h' = HTick(cfg, h, now', {})
              /\ Keep /\ UNCHANGED <<srt, downAt>>

GNext == /\ Len(hist) < MaxSteps
         /\ \/ GAnnR \/ GAnnR \/ GAnnR \/ GAnnR \/ GWdR \/ GAnnS \/ GWdS \/ GLoss \/ GLoss \/ GUpR \/ GUpR \/ GUpO \/ GUpO
            \/ GEorR \/ GEorR \/ GEorO \/ GEorO \/ GFail \/ GTick \/ GTickTo \/ GTickTo \/ GTickTo \/ GTickDefer
         /\ (Mode = "helper" /\ Len(hist) = 3) => h'.up        \* the first step of a helper walk brings R up

GSpec == GInit /\ [][GNext]_gvars

Emit == Len(hist) = MaxSteps => PrintT("VPOUT " \o ToJson([cfg |-> cfg, steps |-> hist]))
=============================================================================
