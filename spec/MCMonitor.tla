---------------------------- MODULE MCMonitor ----------------------------
(* C19 (A), mechanism layer + exhaustive small-scope pool: the DOCUMENTED emitter.  For every input event
   of the speaker model a conforming daemon writes these BMP records (RFC 7854 4.6, 4.9, 4.10; RFC 9069 5):
     station configured   Initiation; Loc-RIB Peer Up (when monitored); for every established neighbour its
                          Peer Up and its tables; the Loc-RIB
     session established  Peer Up                      session ended / neighbour de-configured   Peer Down
     route received       pre-policy route monitoring; post-policy announcement or withdrawal according to
                          the outcome of inbound processing; Loc-RIB withdrawal of the path that stops being
                          selected and announcement of the new one (ADD-PATH: one identifier per source)
     station removed      Loc-RIB Peer Down; Termination
     connection lost      nothing until the next record is due; then, instead of it, a whole new monitoring
                          session for the state after the event (Initiation, Peer Ups, tables, Loc-RIB).
   Design-level result: folding these records with the station of Monitor.tla yields no note and tables
   equal to the speaker model's (the D_ invariants), in every interleaving of up to MaxEvents events. *)
EXTENDS Monitor

CONSTANTS MaxEvents, Pol

MC_Peers == {"A", "B"}
MC_Prefixes == {"x1"}
MC_PInfo == [p \in MC_Peers |-> IF p = "A" THEN [kind |-> "ebgp", as |-> 65001, idx |-> 0, sendmax |-> 0]
                                 ELSE [kind |-> "ibgp", as |-> 65000, idx |-> 1, sendmax |-> 0]]
MkR(p, c) == LET i == PInfo[p].idx IN
  [src |-> p, v |-> 16 * (i + 1) + c, len |-> (IF c = 1 THEN 4 ELSE 1) + 2 * i, lp |-> IF c = 1 THEN 200 ELSE -1,
   med |-> -1, loop |-> c = 2, via |-> 0, pp |-> 0]
MkL == [src |-> "local", v |-> 1, len |-> 0, lp |-> -1, med |-> -1, loop |-> FALSE, via |-> 0, pp |-> 0]

VARIABLES st, n, must
mvars == <<up, inr, loc, impPol, expPol, inrPol, expEff, st, n, must>>

(* ---- the records ---- *)
Base(t) == [t |-> t, perr |-> "", ptype |-> -1, post |-> FALSE, peer |-> "none", as |-> 0, rid |-> "none"]
Open(as, id) == [as |-> as, as4 |-> as, id |-> id]
MInit == Base("init")
MTerm == Base("term")
PeerHdr(m, p) == [m EXCEPT !.ptype = 0, !.peer = p, !.as = PInfo[p].as, !.rid = p]
LocHdr(m) == [m EXCEPT !.ptype = 3, !.peer = "zero", !.as = LocalAS, !.rid = "self"]
WithOpens(m, s, r) == [t |-> m.t, perr |-> m.perr, ptype |-> m.ptype, post |-> m.post, peer |-> m.peer, as |-> m.as,
                       rid |-> m.rid, sent |-> s, recv |-> r, laddr |-> "self"]
MUp(p) == WithOpens(PeerHdr(Base("up"), p), Open(LocalAS, "self"), Open(PInfo[p].as, p))
MLocUp == WithOpens(LocHdr(Base("up")), Open(LocalAS, "self"), Open(LocalAS, "self"))
MDown(p) == PeerHdr(Base("down"), p)
MLocDown == LocHdr(Base("down"))
Rm(h, post, ann, wd) == [t |-> "rm", perr |-> "", ptype |-> h.ptype, post |-> post, peer |-> h.peer, as |-> h.as,
                         rid |-> h.rid, isupd |-> TRUE, eor |-> FALSE, ann |-> ann, wd |-> wd]
Ann1(x, id, r) == <<[x |-> x, id |-> id, r |-> RecvRec(r)]>>
Wd1(x, id) == <<[x |-> x, id |-> id]>>
PathId(r) == IF r.src = LOCSRC THEN 1 ELSE PInfo[r.src].idx + 2

(* ---- what is emitted for a change of the tables from (inr0, loc0) to the current primed ones ---- *)
Best0(i, lo, x) ==     \* selected route of x for given tables, or NoRoute
  LET S == {i[q][x] : q \in {q \in Peers : Usable(i[q][x])}} \cup (IF lo[x] # NoRoute THEN {lo[x]} ELSE {})
  IN IF S = {} THEN NoRoute ELSE BestOf(S)
LocDelta(i0, lo0, i1, lo1, x) ==
  LET b0 == Best0(i0, lo0, x)
      b1 == Best0(i1, lo1, x)
  IN IF b0 = b1 THEN <<>>
     ELSE (IF b0 # NoRoute THEN <<Rm(LocHdr(Base("rm")), FALSE, <<>>, Wd1(x, PathId(b0)))>> ELSE <<>>)
          \o (IF b1 # NoRoute THEN <<Rm(LocHdr(Base("rm")), FALSE, Ann1(x, PathId(b1), b1), <<>>)>> ELSE <<>>)
SetToSeq(S) == LET RECURSIVE F(_)
                   F(T) == IF T = {} THEN <<>> ELSE LET m == CHOOSE a \in T : TRUE IN <<m>> \o F(T \ {m})
               IN F(S)
RECURSIVE FlatFrom(_, _, _)
FlatFrom(ss, k, m) == IF k > m THEN <<>> ELSE ss[k] \o FlatFrom(ss, k + 1, m)
Flat(ss) == FlatFrom(ss, 1, Len(ss))
AllLocDelta(pol, i0, lo0, i1, lo1) ==
  IF WantsLoc(pol) THEN Flat([k \in 1..Cardinality(Prefixes) |-> LocDelta(i0, lo0, i1, lo1, SetToSeq(Prefixes)[k])]) ELSE <<>>

EmitRoute(pol, p, x, old, new) ==   \* p's route for x changes from old to new (NoRoute = none)
  (IF WantsPre(pol) THEN <<Rm(PeerHdr(Base("rm"), p), FALSE,
                                 IF new # NoRoute THEN Ann1(x, 0, new) ELSE <<>>,
                                 IF new = NoRoute THEN Wd1(x, 0) ELSE <<>>)>> ELSE <<>>)
  \o (IF WantsPost(pol)
      THEN IF Usable(new) THEN <<Rm(PeerHdr(Base("rm"), p), TRUE, Ann1(x, 0, new), <<>>)>>
           ELSE IF Usable(old) THEN <<Rm(PeerHdr(Base("rm"), p), TRUE, <<>>, Wd1(x, 0))>> ELSE <<>>
      ELSE <<>>)

PeerTables(pol, p, i) ==
  Flat([k \in 1..Cardinality(Prefixes) |->
          LET x == SetToSeq(Prefixes)[k] IN
            IF i[p][x] = NoRoute THEN <<>> ELSE EmitRoute(pol, p, x, NoRoute, i[p][x])])
EmitOn(pol, u) ==
  <<MInit>> \o (IF WantsLoc(pol) THEN <<MLocUp>> ELSE <<>>)
  \o Flat([k \in 1..Cardinality(Peers) |-> LET p == SetToSeq(Peers)[k] IN IF u[p] THEN <<MUp(p)>> ELSE <<>>])
(* a whole monitoring session for the tables (u, i, lo): opening records, the tables of every established
   neighbour after its Peer Up, the Loc-RIB *)
InitialSeq(pol, u, i, lo) ==
  EmitOn(pol, u)
  \o Flat([k \in 1..Cardinality(Peers) |-> LET p == SetToSeq(Peers)[k] IN IF u[p] THEN PeerTables(pol, p, i) ELSE <<>>])
  \o AllLocDelta(pol, NoTbl, [x \in Prefixes |-> NoRoute], i, lo)

(* what reaches the station: nothing while it is not configured; after the connection was lost, the first
   record that is due is replaced by a new session describing the state AFTER the event *)
Send(s, ms) == IF ~s.on THEN s
               ELSE IF s.dropped THEN (IF ms = <<>> THEN s ELSE StFold(s, InitialSeq(s.pol, up', inr', loc'), 1))
               ELSE StFold(s, ms, 1)

(* ---- the events ---- *)
Tick == n' = n + 1
EUp(p)   == PUp(p) /\ st' = Send(st, <<MUp(p)>>) /\ Tick /\ must' = st.on
EDown(p) == PDown(p) /\ st' = Send(st, AllLocDelta(st.pol, inr, loc, inr', loc') \o <<MDown(p)>>) /\ Tick /\ must' = st.on
EAnn(p, x, c) == LET r == MkR(p, c) IN
                   /\ PAnn(p, x, r)
                   /\ st' = Send(st, EmitRoute(st.pol, p, x, inr[p][x], r) \o AllLocDelta(st.pol, inr, loc, inr', loc'))
                   /\ Tick /\ must' = FALSE
EWd(p, x) == /\ inr[p][x] # NoRoute /\ PWd(p, x)
             /\ st' = Send(st, EmitRoute(st.pol, p, x, inr[p][x], NoRoute) \o AllLocDelta(st.pol, inr, loc, inr', loc'))
             /\ Tick /\ must' = FALSE
EApiAdd(x) == loc[x] = NoRoute /\ PApiAdd(x, MkL) /\ st' = Send(st, AllLocDelta(st.pol, inr, loc, inr', loc')) /\ Tick /\ must' = FALSE
EApiDel(x) == loc[x] # NoRoute /\ PApiDel(x) /\ st' = Send(st, AllLocDelta(st.pol, inr, loc, inr', loc')) /\ Tick /\ must' = FALSE
EOn  == /\ ~st.on /\ UNCHANGED pvars /\ Tick /\ must' = TRUE
        /\ st' = StFold([StOn(st, Pol) EXCEPT !.initial = FALSE], InitialSeq(Pol, up, inr, loc), 1)
EOff == /\ st.on /\ UNCHANGED pvars /\ Tick /\ must' = FALSE
        /\ LET s0 == IF st.dropped THEN StFold(st, InitialSeq(st.pol, up, inr, loc), 1) ELSE st
           IN st' = StOff(StFold(s0, (IF WantsLoc(st.pol) THEN <<MLocDown>> ELSE <<>>) \o <<MTerm>>, 1))
EDrop == st.on /\ ~st.dropped /\ st' = StDrop(st) /\ UNCHANGED pvars /\ Tick /\ must' = FALSE

MInitial == PInit /\ st = StInit /\ n = 0 /\ must = FALSE
MNext == /\ n < MaxEvents
         /\ \/ \E p \in Peers : EUp(p) \/ EDown(p) \/ \E x \in Prefixes : EWd(p, x) \/ \E c \in {0, 1, 2} : EAnn(p, x, c)
            \/ \E x \in Prefixes : EApiAdd(x) \/ EApiDel(x)
            \/ EOn \/ EOff \/ EDrop
MSpec == MInitial /\ [][MNext]_mvars

Live == st.on /\ st.started
D_NoNote   == st.viol = {}
D_Brackets == /\ (st.on /\ ~st.dropped) => st.started
              /\ Live => (st.up = {p \in Peers : up[p]} /\ st.locup = WantsLoc(st.pol))
D_Reconnect == must => st.started
D_AdjIn    == (Live /\ WantsPre(st.pol)) => \A p \in Peers : \A x \in Prefixes : PreOk(st.pre[p][x], p, x)
D_Post     == (Live /\ WantsPost(st.pol)) => \A p \in Peers : \A x \in Prefixes : PostOk(st.post[p][x], p, x)
D_LocRib   == (Live /\ WantsLoc(st.pol)) => \A x \in Prefixes : LocOk(st.loc, x) /\ LocpOk(st.locp, x)
=============================================================================
