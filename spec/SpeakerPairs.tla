---------------------------- MODULE SpeakerPairs ----------------------------
(* Systematic schedules for C15's quantifier "for all pairs (old policy, new policy)": TLC enumerates
   (exhaustively, one behaviour each) every ordered pair of the closed policy family x direction
   {import, export} x reset flavour, and builds for each the same skeleton:

     every neighbour up; routes for x1 from two neighbours and a control route for x2;
     configure OLD, soft reset (so that OLD really is in force);
     route changes that are evaluated under OLD;
     configure NEW, soft reset;            <- the step C15 is about
     the same soft reset once more         <- "repeating the reset changes nothing further"
     a route change evaluated under NEW, a reset of one neighbour in both directions.

   Only the schedule is built here (hist); what must hold after every step is decided by
   SpeakerTrace from the rows the real code produced.  The attribute variants of the routes are
   drawn with RandomElement, so different seeds give different route sets for the same pairs. *)
EXTENDS Speaker, SpeakerDom, Json

VARIABLES hist, pair
qvars == <<hist, pair, up, inr, loc, impPol, expPol, inrPol, expEff>>

CONSTANT Resets                    \* subset of {"dir", "both", "refresh"}: reset only the changed direction, or both;
                                   \* "refresh" (export direction only): NEW is brought into force by a ROUTE-REFRESH
                                   \* of every neighbour instead of an operator reset, then OLD comes back by a soft
                                   \* reset out and a further refresh - what a refresh advertised must be withdrawn
                                   \* by the reset that follows, and the other way round
Dirs   == {"imp", "exp"}
Pairs  == {q \in {[d |-> d, a |-> a, b |-> b, rs |-> rs] : d \in Dirs, a \in Pols, b \in Pols, rs \in Resets} :
             q.rs = "refresh" => q.d = "exp"}

Codes(p)  == IF PInfo[p].kind = "rs" THEN RsVarCodes ELSE VarCodes
R(p)      == MkRoute(PInfo, p, RandomElement(Codes(p)))
SetEv(q, pol)  == [ev |-> IF q.d = "imp" THEN "SetImp" ELSE "SetExp", pol |-> pol]
ResetEv(q, t)  == [ev |-> IF q.rs = "both" THEN "ResetBoth" ELSE IF q.d = "imp" THEN "ResetIn" ELSE "ResetOut", p |-> t]

RefreshAll == <<[ev |-> "Refresh", p |-> "A"], [ev |-> "Refresh", p |-> "B"], [ev |-> "Refresh", p |-> "C"]>>
NewInForce(q) == IF q.rs = "refresh" THEN RefreshAll ELSE <<ResetEv(q, "all")>>
BackToOld(q) == IF q.rs = "refresh"
                THEN <<SetEv(q, q.a), [ev |-> "ResetOut", p |-> "all"], [ev |-> "Refresh", p |-> "B"],
                       SetEv(q, q.b), [ev |-> "ResetOut", p |-> "C"], [ev |-> "Refresh", p |-> "A"]>>
                ELSE <<>>
Skeleton(q) ==
  << [ev |-> "Up", p |-> "A"], [ev |-> "Up", p |-> "B"], [ev |-> "Up", p |-> "C"],
     [ev |-> "Ann", p |-> "A", x |-> "x1", r |-> R("A")],
     [ev |-> "Ann", p |-> "B", x |-> "x1", r |-> R("B")],
     [ev |-> "Ann", p |-> "A", x |-> "x2", r |-> R("A")],
     SetEv(q, q.a), ResetEv(q, "all"),
     [ev |-> "Ann", p |-> "B", x |-> "x1", r |-> R("B")],
     [ev |-> "Ann", p |-> "C", x |-> "x1", r |-> R("C")],
     SetEv(q, q.b) >> \o NewInForce(q) \o NewInForce(q) \o BackToOld(q) \o
  << [ev |-> "Ann", p |-> "A", x |-> "x1", r |-> R("A")],
     [ev |-> "Wd", p |-> "C", x |-> "x1"],
     [ev |-> "ResetBoth", p |-> "B"] >>

QInit == pair \in Pairs /\ hist = <<>> /\ PInit
QNext == hist = <<>> /\ hist' = Skeleton(pair) /\ UNCHANGED <<pair, pvars>>
QSpec == QInit /\ [][QNext]_qvars

Emit == hist # <<>> =>
          PrintT("VPOUT " \o ToJson([peers |-> PInfo, localas |-> LocalAS, steps |-> hist]))
=============================================================================
