----------------------------- MODULE MCFsmGen -----------------------------
EXTENDS FsmGen
Cfg(passive, hold, peer) == [passive |-> passive, hold |-> hold, peer |-> peer, maxpfx |-> 1, nbit |-> FALSE, retry |-> 3]
CfgsPassive == {Cfg(TRUE, 9, "lo"), Cfg(TRUE, 3, "lo")}
CfgsActive == {Cfg(FALSE, 9, "lo"), Cfg(FALSE, 9, "hi"), Cfg(FALSE, 9, "eqlo"), Cfg(FALSE, 9, "eqhi"), Cfg(FALSE, 3, "hi")}
=============================================================================
