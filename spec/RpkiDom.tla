---------------------------- MODULE RpkiDom ----------------------------
(* Concrete vocabulary of C16 shared by the exhaustive pools, the behaviour generators, the trace
   specs and (through the generated behaviours, which carry RouteTable) the Go harnesses.
   Prefixes are named by their CIDR string; PfxTable gives family and leading bits, so that
   containment is decided in the spec (Rpki!Covers) and not taken from the code. *)
EXTENDS Integers, Sequences, FiniteSets

Bits8(n)  == [i \in 1..8  |-> (n \div (2 ^ (8 - i))) % 2]
Bits16(n) == [i \in 1..16 |-> (n \div (2 ^ (16 - i))) % 2]
V4(a, b, c, d, l) == [fam |-> "v4", bits |-> SubSeq(Bits8(a) \o Bits8(b) \o Bits8(c) \o Bits8(d), 1, l)]
V6(h1, h2, h3, h4, l) ==   \* first four hextets are enough: no pool prefix is longer than /64
  [fam |-> "v6", bits |-> SubSeq(Bits16(h1) \o Bits16(h2) \o Bits16(h3) \o Bits16(h4), 1, l)]

PfxNames == {"10.0.0.0/8", "10.1.0.0/16", "10.1.1.0/24", "10.1.1.128/25", "10.2.0.0/16",
             "10.2.3.0/24", "11.0.0.0/8",
             "2001:db8::/32", "2001:db8:1::/48", "2001:db8:1:1::/64", "2001:db8:2::/48",
             "2001:db9::/32"}

PfxTable ==
  [n \in PfxNames |->
     CASE n = "10.0.0.0/8"        -> V4(10, 0, 0, 0, 8)
       [] n = "10.1.0.0/16"       -> V4(10, 1, 0, 0, 16)
       [] n = "10.1.1.0/24"       -> V4(10, 1, 1, 0, 24)
       [] n = "10.1.1.128/25"     -> V4(10, 1, 1, 128, 25)
       [] n = "10.2.0.0/16"       -> V4(10, 2, 0, 0, 16)
       [] n = "10.2.3.0/24"       -> V4(10, 2, 3, 0, 24)
       [] n = "11.0.0.0/8"        -> V4(11, 0, 0, 0, 8)
       [] n = "2001:db8::/32"     -> V6(8193, 3512, 0, 0, 32)
       [] n = "2001:db8:1::/48"   -> V6(8193, 3512, 1, 0, 48)
       [] n = "2001:db8:1:1::/64" -> V6(8193, 3512, 1, 1, 64)
       [] n = "2001:db8:2::/48"   -> V6(8193, 3512, 2, 0, 48)
       [] n = "2001:db9::/32"     -> V6(8193, 3513, 0, 0, 32)]

(* ROA records [p, m, a]: nested and sibling prefixes, three max-lengths per prefix (equal to the
   prefix length, an intermediate one that is exactly the length of a route of the pool, the
   maximum), AS 0 / the local AS / a neighbour AS *)
LocalAS == 65000
RoaPfx4 == {"10.0.0.0/8", "10.1.0.0/16", "10.1.1.0/24", "10.2.0.0/16"}
RoaPfx6 == {"2001:db8::/32", "2001:db8:1::/48", "2001:db8:1:1::/64"}
MaxLens(p) ==
  CASE p = "10.0.0.0/8"        -> {8, 16, 24}
    [] p = "10.1.0.0/16"       -> {16, 24, 32}
    [] p = "10.1.1.0/24"       -> {24, 25, 32}
    [] p = "10.2.0.0/16"       -> {16, 23, 24}
    [] p = "2001:db8::/32"     -> {32, 48, 64}
    [] p = "2001:db8:1::/48"   -> {48, 63, 128}
    [] p = "2001:db8:1:1::/64" -> {64, 128}
RoaASes == {0, LocalAS, 65001}
Rec(p, m, a) == [p |-> p, m |-> m, a |-> a]
RecordsOf(P) == UNION {{Rec(p, m, a) : m \in MaxLens(p), a \in RoaASes} : p \in P}
Records4 == RecordsOf(RoaPfx4)
Records6 == RecordsOf(RoaPfx6)
AllRecords == Records4 \cup Records6

(* AS_PATH shapes of the route pool *)
Seg(t, as) == [t |-> t, as |-> as]
PathShape(n) ==
  CASE n = 1  -> <<Seg("SEQ", <<65001>>)>>                                   \* origin 65001
    [] n = 2  -> <<Seg("SEQ", <<65001, 65002>>)>>                            \* origin 65002 (no ROA)
    [] n = 3  -> <<Seg("SEQ", <<65002>>), Seg("SET", <<65001, 65003>>)>>     \* ends in AS_SET
    [] n = 4  -> <<Seg("SET", <<65001>>)>>                                   \* AS_SET only
    [] n = 5  -> <<>>                                                        \* empty: local AS
    [] n = 6  -> <<Seg("CSEQ", <<65100>>)>>                                  \* confederation only
    [] n = 7  -> <<Seg("CSEQ", <<65100>>), Seg("CSET", <<65101, 65102>>)>>   \* confederation only
    [] n = 8  -> <<Seg("CSEQ", <<65100>>), Seg("SEQ", <<65002, 65001>>)>>    \* origin 65001
    [] n = 9  -> <<Seg("SEQ", <<65003, 65000>>)>>                            \* origin = local AS, by SEQ
    [] n = 10 -> <<Seg("SEQ", <<65001, 0>>)>>                                \* origin AS 0
ShapesAll   == 1..10
ShapesLocal == {5, 6, 7}          \* origin AS by the "local AS" rule

RoutePfx4 == {"10.0.0.0/8", "10.1.0.0/16", "10.1.1.0/24", "10.1.1.128/25", "10.2.3.0/24", "11.0.0.0/8"}
RoutePfx6 == {"2001:db8::/32", "2001:db8:1::/48", "2001:db8:1:1::/64", "2001:db8:2::/48", "2001:db9::/32"}

Route(p, n) == [pfx |-> p, path |-> PathShape(n), las |-> LocalAS]

(* ---- white-box pools: explicit order, so that an observation is a tuple of verdicts in this
   order; the generator sends the routes to the harness, the harness echoes only the key ---- *)
PfxSeq4 == <<"10.0.0.0/8", "10.1.0.0/16", "10.1.1.0/24", "10.1.1.128/25", "10.2.3.0/24", "11.0.0.0/8">>
PfxSeq6 == <<"2001:db8::/32", "2001:db8:1::/48", "2001:db8:1:1::/64", "2001:db8:2::/48", "2001:db9::/32">>
Grid(P, Sh) == [i \in 1..(Len(P) * Len(Sh)) |-> Route(P[((i - 1) \div Len(Sh)) + 1], Sh[((i - 1) % Len(Sh)) + 1])]
SetShapes == <<1, 2, 3, 5, 9, 10>>          \* one shape per origin class
AllShapeSeq == <<1, 2, 3, 4, 5, 6, 7, 8, 9, 10>>
(* one foreign-family route at the end: the two trees are independent *)
RoutePool(k) ==
  CASE k = "set-v4" -> Grid(PfxSeq4, SetShapes) \o <<Route("2001:db8:1::/48", 1)>>
    [] k = "set-v6" -> Grid(PfxSeq6, SetShapes) \o <<Route("10.1.1.0/24", 1)>>
    [] k = "walk"   -> Grid(PfxSeq4 \o PfxSeq6, AllShapeSeq)
    [] k = "dup"    -> <<Route("10.1.1.0/24", 1), Route("10.1.0.0/16", 5), Route("10.1.1.128/25", 1),
                         Route("10.1.1.0/24", 2), Route("11.0.0.0/8", 1)>>
(* the two records of the duplicate-announcement sequences: one bucket (same prefix), same max
   length, DupB sorts before DupA *)
DupA == Rec("10.1.0.0/16", 24, 65001)
DupB == Rec("10.1.0.0/16", 24, LocalAS)
VerdictCode(v) == CASE v = "notfound" -> 0 [] v = "valid" -> 1 [] v = "invalid" -> 2

(* ---- end-to-end pool: named routes injected through the API; sh = shape index ---- *)
E2ERouteNames == {"r1", "r2", "r3", "r4", "r5", "r6", "r7", "r8", "r9", "r10", "r11", "r12"}
E2EDef(n) ==
  CASE n = "r1"  -> <<"10.1.1.0/24", 1>>
    [] n = "r2"  -> <<"10.1.1.0/24", 2>>
    [] n = "r3"  -> <<"10.1.0.0/16", 1>>
    [] n = "r4"  -> <<"10.1.1.128/25", 1>>
    [] n = "r5"  -> <<"10.2.3.0/24", 3>>
    [] n = "r6"  -> <<"10.2.3.0/24", 9>>
    [] n = "r7"  -> <<"11.0.0.0/8", 1>>
    [] n = "r8"  -> <<"2001:db8:1:1::/64", 1>>
    [] n = "r9"  -> <<"2001:db8:1::/48", 8>>
    [] n = "r10" -> <<"2001:db8:2::/48", 2>>
    [] n = "r11" -> <<"10.1.0.0/16", 5>>          \* local-AS rule (empty path)
    [] n = "r12" -> <<"2001:db8:1::/48", 6>>      \* local-AS rule (confederation only)
RouteTable == [n \in E2ERouteNames |-> Route(E2EDef(n)[1], E2EDef(n)[2])]
E2ELocalRule == {"r11", "r12"}

CacheNames == {"c1", "c2"}
NoFix  == [a |-> FALSE, b |-> FALSE, c |-> FALSE]
AllFix == [a |-> TRUE,  b |-> TRUE,  c |-> TRUE]
FixA   == [a |-> TRUE,  b |-> FALSE, c |-> FALSE]
FixC   == [a |-> FALSE, b |-> FALSE, c |-> TRUE]
=============================================================================
