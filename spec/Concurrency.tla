---------------------------- MODULE Concurrency ----------------------------
(* C20, design level: the lock protocol of the speaker.

   Locks (anchors of C20): `shared` (RW: every FSM callback holds it shared, the management loop
   exclusively), `bucket[b]` (mutex per propagation bucket = prefix hash), `refresh[p]` (RW per
   neighbour: initial table transfer / soft reset out / route refresh hold it exclusively, every
   propagation towards p holds it shared), `fsm[p]` (mutex around the neighbour's configuration).
   Go's RWMutex semantics are modelled: a WAITING writer blocks new readers.

   Processes: one receive callback and one FSM-loop callback per neighbour, and the management loop.
   Each runs a fixed program of Acquire/Release steps transcribed from server.go:
     recv  : shared.R ; fsm[p] ; -fsm[p] ; bucket[b] ; { refresh[q].R ; -refresh[q] }_q ; -bucket ; -shared
     down  : shared.R ; fsm[p] ; -fsm[p] ; refresh[p].W ; -refresh[p] ;
             bucket[b] ; { refresh[q].R ; -refresh[q] }_q ; -bucket ; -shared
     up    : shared.R ; fsm[p] ; -fsm[p] ; refresh[p].W ; -refresh[p] ; -shared
     mgmt  : shared.W ; bucket[b] ; { refresh[q].R ; -refresh[q] }_q ; -bucket ;
             { refresh[q].W ; -refresh[q] }_q (soft reset out) ; -shared
   TLC checks: no deadlock (every program can always finish), mutual exclusion, and the lock order
   shared < fsm < bucket < refresh (a lock is only requested while holding lower ones). *)
EXTENDS Integers, Sequences, FiniteSets, TLC

CONSTANTS Nbrs, Buckets

Procs == {<<"recv", p>> : p \in Nbrs} \cup {<<"fsm", p>> : p \in Nbrs} \cup {<<"mgmt", "-">>}

(* an operation: [op |-> "R"|"W"|"rel", lock |-> <<kind, id>>] *)
Op(o, k, i) == [op |-> o, lock |-> <<k, i>>]

SeqOfSet(S) == LET RECURSIVE F(_)
                   F(T) == IF T = {} THEN <<>> ELSE LET m == CHOOSE a \in T : TRUE IN <<m>> \o F(T \ {m})
               IN F(S)
FanOut == LET q == SeqOfSet(Nbrs)
              RECURSIVE F(_)
              F(i) == IF i > Len(q) THEN <<>>
                      ELSE <<Op("R", "refresh", q[i]), Op("rel", "refresh", q[i])>> \o F(i + 1)
          IN F(1)
ResetAll == LET q == SeqOfSet(Nbrs)
                RECURSIVE F(_)
                F(i) == IF i > Len(q) THEN <<>>
                        ELSE <<Op("W", "refresh", q[i]), Op("rel", "refresh", q[i])>> \o F(i + 1)
            IN F(1)

Program(pr, kind, b) ==
  CASE kind = "recv" ->
         <<Op("R", "shared", "-"), Op("W", "fsm", pr[2]), Op("rel", "fsm", pr[2]), Op("W", "bucket", b)>>
         \o FanOut \o <<Op("rel", "bucket", b), Op("rel", "shared", "-")>>
    [] kind = "down" ->
         <<Op("R", "shared", "-"), Op("W", "fsm", pr[2]), Op("rel", "fsm", pr[2]),
           Op("W", "refresh", pr[2]), Op("rel", "refresh", pr[2]), Op("W", "bucket", b)>>
         \o FanOut \o <<Op("rel", "bucket", b), Op("rel", "shared", "-")>>
    [] kind = "up" ->
         <<Op("R", "shared", "-"), Op("W", "fsm", pr[2]), Op("rel", "fsm", pr[2]),
           Op("W", "refresh", pr[2]), Op("rel", "refresh", pr[2]), Op("rel", "shared", "-")>>
    [] kind = "mgmt" ->
         <<Op("W", "shared", "-"), Op("W", "bucket", b)>> \o FanOut \o <<Op("rel", "bucket", b)>>
         \o ResetAll \o <<Op("rel", "shared", "-")>>

NoOne == <<"none", "-">>

VARIABLES prog,      \* remaining operations of each process (<<>> = idle)
          holdR,     \* lock -> set of processes holding it shared
          holdW,     \* lock -> process holding it exclusively, or NoOne (nobody)
          waitW,     \* lock -> set of processes waiting for it exclusively
          rounds     \* how many programs have been started (bound)
vars == <<prog, holdR, holdW, waitW, rounds>>

Locks == {<<"shared", "-">>} \cup {<<"fsm", p>> : p \in Nbrs} \cup {<<"refresh", p>> : p \in Nbrs}
         \cup {<<"bucket", b>> : b \in Buckets}

Init == /\ prog = [pr \in Procs |-> <<>>]
        /\ holdR = [k \in Locks |-> {}]
        /\ holdW = [k \in Locks |-> NoOne]
        /\ waitW = [k \in Locks |-> {}]
        /\ rounds = 0

MaxRounds == 4

Start(pr) == /\ prog[pr] = <<>> /\ rounds < MaxRounds
             /\ \E b \in Buckets :
                  \E kind \in (IF pr[1] = "recv" THEN {"recv"} ELSE IF pr[1] = "fsm" THEN {"up", "down"} ELSE {"mgmt"}) :
                     prog' = [prog EXCEPT ![pr] = Program(pr, kind, b)]
             /\ rounds' = rounds + 1
             /\ UNCHANGED <<holdR, holdW, waitW>>

Step(pr) ==
  /\ prog[pr] # <<>>
  /\ LET o == Head(prog[pr])
         k == o.lock
     IN CASE o.op = "R" ->
               \* RLock: granted unless a writer holds it or a writer is waiting
               /\ holdW[k] = NoOne /\ waitW[k] = {}
               /\ holdR' = [holdR EXCEPT ![k] = @ \cup {pr}]
               /\ prog' = [prog EXCEPT ![pr] = Tail(@)]
               /\ UNCHANGED <<holdW, waitW>>
          [] o.op = "W" ->
               IF holdW[k] = NoOne /\ holdR[k] = {}
               THEN /\ holdW' = [holdW EXCEPT ![k] = pr]
                    /\ waitW' = [waitW EXCEPT ![k] = @ \ {pr}]
                    /\ prog' = [prog EXCEPT ![pr] = Tail(@)]
                    /\ UNCHANGED holdR
               ELSE /\ pr \notin waitW[k]          \* announce the waiting writer (blocks new readers)
                    /\ waitW' = [waitW EXCEPT ![k] = @ \cup {pr}]
                    /\ UNCHANGED <<prog, holdR, holdW>>
          [] o.op = "rel" ->
               /\ holdR' = [holdR EXCEPT ![k] = @ \ {pr}]
               /\ holdW' = [holdW EXCEPT ![k] = IF @ = pr THEN NoOne ELSE @]
               /\ prog' = [prog EXCEPT ![pr] = Tail(@)]
               /\ UNCHANGED waitW
  /\ UNCHANGED rounds

Next == \E pr \in Procs : Start(pr) \/ Step(pr)
Spec == Init /\ [][Next]_vars

---------------------------------------------------------------------------
Busy == \E pr \in Procs : prog[pr] # <<>>

(* deadlock freedom: whenever some program is unfinished, some process can take a step that is
   not merely registering as a waiter *)
Progress(pr) == prog[pr] # <<>> /\
                LET o == Head(prog[pr]) k == o.lock
                IN \/ o.op = "rel"
                   \/ o.op = "R" /\ holdW[k] = NoOne /\ waitW[k] = {}
                   \/ o.op = "W" /\ holdW[k] = NoOne /\ holdR[k] = {}
C20_NoLockDeadlock == Busy => \E pr \in Procs : Progress(pr)

C20_MutualExclusion == \A k \in Locks : holdW[k] # NoOne => holdR[k] = {}

(* management sections exclude every callback section *)
C20_MgmtExcludesCallbacks ==
  holdW[<<"shared", "-">>] # NoOne => \A pr \in Procs : pr[1] # "mgmt" =>
      \A k \in Locks : pr \notin holdR[k] /\ holdW[k] # pr

Rank(k) == CASE k[1] = "shared" -> 1 [] k[1] = "fsm" -> 2 [] k[1] = "bucket" -> 3 [] k[1] = "refresh" -> 4
Held(pr) == {k \in Locks : pr \in holdR[k] \/ holdW[k] = pr}
C20_LockOrder == \A pr \in Procs : prog[pr] # <<>> =>
                   LET o == Head(prog[pr]) IN
                     o.op \in {"R", "W"} => \A h \in Held(pr) : Rank(h) < Rank(o.lock) \/ h = o.lock
=============================================================================
