---------------------------- MODULE FramingMutGen ----------------------------
(* Mutation generator for C05.  Input: msgs.ndjson, one {bytes, opts} per line - REAL octets that
   the library emitted for a TLC-enumerated shape (recorded by the C04 replayer).  TLC reads each
   message with the independent reader, enumerates (length field x mutation) and prints one
   behaviour per pair: which octets to overwrite with which value (or where to cut), and the
   slices of the sub-elements containing the field that are to be fed to the per-attribute /
   per-NLRI / per-capability decoders.  Only well-formed originals are mutated. *)
EXTENDS Framing, Json

CONSTANTS Tier        \* "quick" | "thorough"

Msgs == ndJsonDeserialize("msgs.ndjson")

VARIABLES i
gvars == <<i>>

MutKinds == {"dec", "inc", "zero", "max", "flipext", "trunc"}

(* thorough tier: further values for single-octet length fields (label-stack / RD / address
   size boundaries, FlowSpec 2-octet marker, the BGP-AD VPLS length) *)
ExtraValues == IF Tier = "thorough"
               THEN {1, 2, 3, 4, 7, 8, 12, 15, 16, 17, 24, 25, 31, 32, 33, 64, 65, 88, 96, 120, 127, 128, 129,
                     136, 192, 239, 240, 241, 254}
               ELSE {12, 240}

(* two-octet length fields: the BGP-AD VPLS length, and the first value that needs the second octet *)
ExtraValues2 == {12, 256}

ClipSubs(sub, cut) ==
  LET keep == SelectSeq(sub, LAMBDA s : s.from < cut)
  IN [k \in 1..Len(keep) |-> [keep[k] EXCEPT !.to = Min(@, cut)]]

MutRec(fld, m, v) == [f |-> fld.f, o |-> fld.o, w |-> fld.w, m |-> m, v |-> v]

Out(idx, fld, m, v) ==
  PrintT("VPOUT " \o ToJson([i |-> idx, mut |-> MutRec(fld, m, v),
                             subs |-> IF m = "trunc" THEN ClipSubs(fld.sub, fld.o + fld.w) ELSE fld.sub]))

Emit ==
  LET msg == Msgs[i]
  IN IF ~WellFormed(msg.bytes, msg.opts) THEN TRUE
     ELSE LET fs == Fields(msg.bytes, msg.opts) IN
          /\ PrintT("VPOUT " \o ToJson([i |-> i, mut |-> [f |-> "none", o |-> 0, w |-> 0, m |-> "none", v |-> 0],
                                        subs |-> <<>>]))
          /\ \A k \in 1..Len(fs) :
               /\ \A m \in MutKinds : MutApplicable(fs[k], m) => Out(i, fs[k], m, MutValue(fs[k], m))
               /\ \A x \in ExtraValues :
                    (fs[k].w = 1 /\ fs[k].f \notin {"attrflags"} /\ x # fs[k].cur
                     /\ x \notin {0, 255, fs[k].cur - 1, fs[k].cur + 1}) => Out(i, fs[k], "set", x)
               /\ (fs[k].f = "capinner" =>
                     \* inner length of a capability value: relative to what is left of the value behind it
                     LET rem == fs[k].sub[1].to - (fs[k].o + 1) IN
                     \A x \in {rem - 1, rem, rem + 1, 254} :
                        (x \in 0..255 /\ x \notin {fs[k].cur, fs[k].cur - 1, fs[k].cur + 1, 0, 255}
                         /\ x \notin ExtraValues) => Out(i, fs[k], "set", x))
               /\ \A x \in ExtraValues2 :
                    (fs[k].w = 2 /\ fs[k].f # "hdrlen" /\ x \notin {fs[k].cur, fs[k].cur - 1, fs[k].cur + 1})
                       => Out(i, fs[k], "set", x)

Init == i \in 1..Len(Msgs)
Next == UNCHANGED i
GenSpec == Init /\ [][Next]_gvars
=============================================================================
