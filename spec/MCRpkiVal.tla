---------------------------- MODULE MCRpkiVal ----------------------------
(* Design level for the validation function: the classification walk of ROATable.Validate
   (matched / unmatched-AS / unmatched-length over the covering buckets) equals the RFC 6811
   definition of the property layer, for every ROA set of at most K records of one family and
   every route of the pool. *)
EXTENDS Rpki, RpkiDom, FiniteSetsExt

CONSTANTS Fam, K
VARIABLE roas

Pool == IF Fam = "v4" THEN Records4 ELSE Records6
Routes == {Route(p, n) : p \in (IF Fam = "v4" THEN RoutePfx4 ELSE RoutePfx6), n \in ShapesAll}

ValInit == /\ Init
           /\ roas \in UNION {kSubset(k, Pool) : k \in 0..K}
ValNext == UNCHANGED <<vars, roas>>
ValSpec == ValInit /\ [][ValNext]_<<vars, roas>>

D_C16_ValidateMech == \A r \in Routes : ValidateMech(roas, r) = Validate(roas, r)
(* the three verdicts partition, and Valid/Invalid need a covering record *)
D_C16_ValidateShape == \A r \in Routes :
   /\ Validate(roas, r) \in {"valid", "invalid", "notfound"}
   /\ (Validate(roas, r) # "notfound") => (Covering(roas, r) # {} /\ HasOrigin(r))
=============================================================================
