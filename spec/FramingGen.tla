------------------------------ MODULE FramingGen ------------------------------
(* Behaviour generator for C04 (and the shape half of C05): TLC ENUMERATES abstract message
   shapes x session options.  Deterministic sweeps are enumerated exhaustively (one initial
   state per behaviour, printed by the invariant Emit); the "random" sweep draws combinations
   with RandomElement under -simulate.  One JSON object {shape, opts} per behaviour. *)
EXTENDS FramingDom, Json

CONSTANTS Sweep,      \* which sweep to enumerate
          Tier        \* "quick" | "thorough"

VARIABLES beh
gvars == <<beh>>

Base   == <<Simple("origin"), PathA("aspath", <<2>>), Simple("nexthop")>>
One(a) == Update(<<>>, Base \o <<a>>, <<NL(24, 0)>>)
Beh(s, o) == [shape |-> s, opts |-> o, raw |-> <<>>]
(* "received octets": the writer model's image of the shape is handed to the real parser instead of
   building the message with the library's constructors *)
RawBeh(s, o) == [shape |-> s, opts |-> o, raw |-> Encode(s, o)]

Thorough == Tier = "thorough"

(* ---- sweep "attr": one attribute at a time, value length around 0/1/255/256/4095 ---- *)
(* RFC 7606 7.8 / 7.10 / 7.14 (and RFC 8092 for LARGE_COMMUNITY): a COMMUNITIES, CLUSTER_LIST, EXTENDED
   COMMUNITIES or LARGE_COMMUNITY attribute of length 0 is malformed, so n = 0 is NOT a structurally valid
   message and is not in the C04 domain (the decoder rejects it since 558dfcd).  A zero length still
   reaches the parsers as a C05 mutation (attrlen := 0), where only safe handling is demanded. *)
CountClasses(t) ==
  CASE t = "communities" -> {1, 63, 64, 1000}             \* 4n   : 252 | 256
    [] t = "clusterlist" -> {1, 63, 64}
    [] t = "extcomm"     -> {1, 31, 32, 500}               \* 8n   : 248 | 256
    [] t = "large"       -> {1, 21, 22, 330}               \* 12n  : 252 | 264
    [] t = "ip6extcomm"  -> {1, 12, 13}                    \* 20n  : 240 | 260
    [] t = "unknown"     -> {0, 1, 255, 256, 4000}
SegClasses(asz) ==
  {<<>>, <<1>>, <<255>>, <<1, 1>>, <<255, 255, 255>>}
  \cup (IF asz = 2 THEN {<<126>>, <<127>>} ELSE {<<63>>, <<64>>})    \* 2+asz*n : 254 | 256 / 254 | 258
AttrVariants(as2) ==
  {Simple(t) : t \in {"med", "localpref", "atomic", "aggregator", "originator", "as4aggr", "aigp"}}
  \cup UNION {{Counted(t, n) : n \in CountClasses(t)} :
                t \in {"communities", "clusterlist", "extcomm", "large", "ip6extcomm", "unknown"}}
  \cup {PathA("aspath", sg) : sg \in SegClasses(IF as2 THEN 2 ELSE 4)}
  \cup {PathA("as4path", sg) : sg \in SegClasses(4)}
SweepAttr ==
  UNION {{Beh(One(a), Opt(e, as2, p, p)) : a \in AttrVariants(as2), e \in BOOLEAN,
                                           p \in (IF Thorough THEN BOOLEAN ELSE {FALSE})} : as2 \in BOOLEAN}
  \cup {Beh(Update(<<>>, <<a>>, <<>>), Opt(FALSE, as2, FALSE, FALSE)) :
           a \in AttrVariants(FALSE), as2 \in {FALSE}}

(* ---- sweep "nlri": every core family, prefix-length classes, label stacks, ADD-PATH ---- *)
ElemPool(f) ==
  LET mx == FamMaxBits(f) IN
  CASE FamClass(f) = "ip"   -> {NL(p, 0) : p \in {0, 1, 8, 9, 24, mx - 1, mx}}
    [] FamClass(f) = "mpls" -> {NL(p, l) : p \in {0, 9, mx}, l \in {1, 2, 3}}
    [] OTHER                -> {NL(p, l) : p \in {0, 17, mx}, l \in {1, 2}}
NlVariants(f) ==
  {<<e>> : e \in ElemPool(f)}
  \cup {<<NL(8, IF FamClass(f) = "ip" THEN 0 ELSE 1), NL(FamMaxBits(f), IF FamClass(f) = "ip" THEN 0 ELSE 2),
          NL(0, IF FamClass(f) = "ip" THEN 0 ELSE 1)>>}
  \cup {Rep(70, NL(17, IF FamClass(f) = "ip" THEN 0 ELSE 1))}      \* value length > 255
ApPairs == {<<p, q>> : p \in BOOLEAN, q \in BOOLEAN}
BodyVariants == {<<>>, <<NL(0, 0)>>, <<NL(1, 0), NL(9, 0), NL(32, 0)>>, Rep(90, NL(24, 0))}
SweepNlri ==
  UNION {{Beh(Update(<<>>, Base \o <<MpA(t, f, nl)>>, <<>>), Opt(FALSE, FALSE, ap[1], ap[2])) :
             t \in MpKinds, nl \in NlVariants(f), ap \in ApPairs} : f \in CoreFamilies}
  \cup UNION {{Beh(Update(<<>>, Base \o <<MpN(f, <<NL(FamMaxBits(f), IF FamClass(f) = "ip" THEN 0 ELSE 1),
                                                     NL(9, IF FamClass(f) = "ip" THEN 0 ELSE 2)>>, nh)>>, <<>>),
                   Opt(FALSE, FALSE, p, p)) : p \in BOOLEAN, nh \in NhKindsOf(f)} : f \in CoreFamilies}
  \cup {Beh(Update(w, Base, n), Opt(FALSE, FALSE, ap[1], ap[2])) :
           w \in BodyVariants, n \in BodyVariants, ap \in ApPairs}
  \cup {Beh(Update(w, <<>>, <<>>), Opt(FALSE, FALSE, p, FALSE)) : w \in BodyVariants, p \in BOOLEAN}
  \cup {Beh(Update(<<NL(8, 0)>>, Base \o <<MpA("mpunreach", "ipv6-unicast", <<NL(64, 0)>>),
                                           MpA("mpreach", "l3vpn-ipv4-unicast", <<NL(24, 1), NL(32, 2)>>)>>,
                   <<NL(24, 0)>>), Opt(FALSE, a, ap[1], ap[2])) : a \in BOOLEAN, ap \in ApPairs}

(* ---- sweep "cap": total size exactly at / one over the cap, with and without RFC 8654 ---- *)
FillUnknown(total, o) ==      \* an UPDATE of exactly `total` octets: Base + one unknown attribute + 1 NLRI
  LET fixed == HDR + BodyLo(One(Counted("unknown", 0)), o) - 3      \* without the filler's header
      n1    == total - fixed - 3
      n     == IF n1 > 255 THEN n1 - 1 ELSE n1
  IN One(Counted("unknown", n))
FillNlri(total, o) ==         \* an UPDATE of about `total` octets made of /24 NLRI (4 octets each)
  LET fixed == HDR + BodyLo(Update(<<>>, Base, <<>>), o)
      per   == ExpNlriLen("ipv4-unicast", NL(24, 0), o.ap4)
  IN Update(<<>>, Base, Rep((total - fixed) \div per, NL(24, 0)))
SweepCap ==
  {Beh(FillUnknown(t, Opt(e, FALSE, FALSE, FALSE)), Opt(e, FALSE, FALSE, FALSE)) :
      t \in {4095, 4096, 4097}, e \in BOOLEAN}
  \cup {Beh(FillNlri(t, Opt(e, FALSE, p, FALSE)), Opt(e, FALSE, p, FALSE)) :
      t \in {4096, 4100}, e \in BOOLEAN, p \in BOOLEAN}
  \cup {Beh(Notification(t - 21), Opt(e, FALSE, FALSE, FALSE)) : t \in {21, 22, 4096, 4097}, e \in BOOLEAN}
  \cup {Beh(FillUnknown(t, Opt(TRUE, FALSE, FALSE, FALSE)), Opt(TRUE, FALSE, FALSE, FALSE)) : t \in {65535, 65536}}
  \cup {Beh(Notification(t - 21), Opt(TRUE, FALSE, FALSE, FALSE)) : t \in {65535, 65536}}
  \cup (IF Thorough THEN {Beh(FillNlri(t, Opt(TRUE, FALSE, p, FALSE)), Opt(TRUE, FALSE, p, FALSE)) :
                             t \in {65535}, p \in BOOLEAN} ELSE {})
  \cup {Beh(Refresh, Opt(e, FALSE, FALSE, FALSE)) : e \in BOOLEAN}
  \cup {Beh(Keepalive, Opt(e, FALSE, FALSE, FALSE)) : e \in BOOLEAN}
  \cup {Beh(One(Counted("unknown", 65535)), Opt(TRUE, FALSE, FALSE, FALSE)),
        Beh(One(Counted("unknown", 65536)), Opt(TRUE, FALSE, FALSE, FALSE)),
        Beh(One(Counted("communities", 16384)), Opt(TRUE, FALSE, FALSE, FALSE))}

(* ---- sweep "open": capability multisets, one parameter per capability or all in one ---- *)
CapVariants ==
  {Cap(c, 0) : c \in {"rr", "err", "rrcisco", "extmsg", "label", "as4"}}
  \cup {Cap("mp", n) : n \in {0, 1, 11}}
  \cup {Cap("extnh", n) : n \in {1, 3}}
  \cup {Cap("gr", n) : n \in {0, 1, 26}}
  \cup {Cap("llgr", n) : n \in {1, 26}}
  \cup {Cap("addpath", n) : n \in {1, 26}}
  \cup {Cap("fqdn", n) : n \in {2, 30, 130}}
  \cup {Cap("softver", n) : n \in {2, 65}}
  \cup {Cap("unknown", n) : n \in {0, 1, 251, 253}}
FamCaps(k) ==       \* what a speaker configured with k families announces
  [i \in 1..k |-> Cap("mp", i - 1)] \o
  <<Cap("rr", 0), Cap("as4", 0), Cap("extmsg", 0), Cap("gr", k), Cap("addpath", k), Cap("llgr", k),
    Cap("fqdn", 20), Cap("softver", 12)>>
SweepOpen ==
  {Beh(Open(<<<<c>>>>), Opt(FALSE, FALSE, FALSE, FALSE)) : c \in CapVariants}
  \cup {Beh(Open(<<>>), Opt(FALSE, FALSE, FALSE, FALSE))}
  \cup {Beh(Open(<<<<c, d>>>>), Opt(FALSE, FALSE, FALSE, FALSE)) :
           c \in {Cap("mp", 0), Cap("gr", 2), Cap("unknown", 120)}, d \in CapVariants}
  \cup {Beh(Open([i \in 1..Len(FamCaps(k)) |-> <<FamCaps(k)[i]>>]), Opt(FALSE, FALSE, FALSE, FALSE)) : k \in {1, 2, 4, 8}}
  \cup {Beh(Open(<<FamCaps(k)>>), Opt(FALSE, FALSE, FALSE, FALSE)) : k \in {1, 2, 4, 8}}
  \cup {Beh(Open(<<<<Cap("unknown", 120)>>, <<Cap("unknown", n)>>>>), Opt(FALSE, FALSE, FALSE, FALSE)) : n \in {126, 127, 128, 129}}

(* ---- sweep "ex": the example catalogue (harness/c04/fr_examples_test.go) ---- *)
ExampleNames ==
  {"msg:helper-update", "msg:helper-open", "msg:eor-ipv4", "msg:eor-evpn",
   "attr:tunnelencap", "attr:tunnelencap-srpolicy", "attr:pmsi", "attr:pmsi-default", "attr:aigp",
   "attr:ls-node", "attr:prefixsid", "attr:extcomm-all", "attr:ip6extcomm", "attr:aggregator-mismatch",
   "nlri:l2vpn-evpn", "nlri:l2vpn-evpn-ipmsi", "nlri:l2vpn-vpls", "nlri:rtc", "nlri:ipv4-encap", "nlri:ipv4-encap-two",
   "nlri:ipv6-encap", "nlri:ipv4-flowspec", "nlri:ipv4-flowspec-long", "nlri:ipv6-flowspec",
   "nlri:l3vpn-ipv4-flowspec", "nlri:l3vpn-ipv6-flowspec", "nlri:l2vpn-flowspec", "nlri:opaque",
   "nlri:ls-node", "nlri:ls-link", "nlri:ls-prefix4", "nlri:ls-prefix6", "nlri:ls-srv6sid",
   "nlri:ipv4-srpolicy", "nlri:ipv6-srpolicy", "nlri:ipv4-mup", "nlri:ipv6-mup"}
(* the package's helper builds a 4-octet AS_PATH whatever the session: not a 2-octet-AS message *)
FourOctetOnly == {"msg:helper-update"}
ExAp == IF Thorough THEN {<<p, q>> : p \in BOOLEAN, q \in BOOLEAN} ELSE {<<FALSE, FALSE>>, <<TRUE, TRUE>>}
SweepEx == {Beh(Example(n), Opt(FALSE, a, ap[1], ap[2])) : n \in ExampleNames, a \in BOOLEAN, ap \in ExAp}
           \ {Beh(Example(n), Opt(FALSE, TRUE, ap[1], ap[2])) : n \in FourOctetOnly, ap \in ExAp}

(* ---- sweep "ext": the Extended Length bit as a dimension of its own (value of 0..255 octets in the
   two-octet length form), first / middle / last in the UPDATE, constructed and received ---- *)
ExtVariants(as2) ==
  {Simple("med"), Simple("atomic"), Simple("aigp"), Counted("communities", 2), Counted("extcomm", 1),
   Counted("unknown", 0), Counted("unknown", 1), Counted("unknown", 255),
   MpA("mpunreach", "ipv4-multicast", <<NL(24, 0), NL(9, 0)>>), MpA("mpunreach", "ipv6-unicast", <<>>),
   MpN("ipv6-unicast", <<NL(64, 0), NL(0, 0)>>, 0), MpN("ipv4-unicast", <<NL(24, 0)>>, 1),
   MpN("ipv6-multicast", <<NL(128, 0)>>, 0)}
Placed(a) ==
  {Update(<<>>, <<ExtForm(a)>> \o Base, <<NL(24, 0)>>),
   Update(<<>>, <<Simple("origin"), ExtForm(a), PathA("aspath", <<2>>), Simple("nexthop")>>, <<NL(24, 0)>>),
   Update(<<>>, Base \o <<ExtForm(a)>>, <<NL(24, 0)>>),
   Update(<<NL(8, 0)>>, Base \o <<ExtForm(a)>>, <<>>)}
BaseExt == {Update(<<>>, <<ExtForm(Simple("origin")), PathA("aspath", <<2>>), Simple("nexthop")>>, <<NL(24, 0)>>),
            Update(<<>>, <<Simple("origin"), ExtForm(PathA("aspath", <<2, 1>>)), Simple("nexthop")>>, <<NL(24, 0)>>),
            Update(<<>>, <<Simple("origin"), PathA("aspath", <<>>), ExtForm(Simple("nexthop"))>>, <<NL(24, 0)>>),
            Update(<<>>, <<ExtForm(Simple("origin")), ExtForm(PathA("aspath", <<2>>)), ExtForm(Simple("nexthop")),
                           ExtForm(Simple("localpref"))>>, <<NL(24, 0)>>)}
ExtShapes(as2) == UNION {Placed(a) : a \in ExtVariants(as2)} \cup BaseExt
SweepExt ==
  UNION {{Beh(s, Opt(FALSE, as2, p, p)) : s \in ExtShapes(as2), p \in BOOLEAN} : as2 \in BOOLEAN}
  \cup UNION {{RawBeh(s, Opt(FALSE, as2, p, p)) : s \in ExtShapes(as2), p \in BOOLEAN} : as2 \in BOOLEAN}
  \cup {RawBeh(One(a), Opt(FALSE, FALSE, FALSE, FALSE)) : a \in AttrVariants(FALSE) \ {Counted("unknown", 4000)}}

(* ---- sweep "openinner": capabilities whose value has inner length fields (FQDN, software version) and the
   tuple capabilities, each last in the OPEN, followed by another capability, and followed by another
   parameter; FQDN also with names as long as the TLV allows (received octets: NewCapFQDN truncates) ---- *)
InnerCaps == {Cap("fqdn", 2), Cap("fqdn", 20), Cap("fqdn", 130), Cap("softver", 2), Cap("softver", 13),
              Cap("addpath", 2), Cap("gr", 2), Cap("llgr", 2), Cap("extnh", 2), Cap("mp", 1)}
SweepOpenInner ==
  {Beh(Open(ps), Opt(FALSE, FALSE, FALSE, FALSE)) :
      ps \in UNION {{<<<<c>>>>, <<<<c, Cap("as4", 0)>>>>, <<<<c>>, <<Cap("rr", 0), Cap("mp", 0)>>>>,
                     <<<<Cap("mp", 0), c>>>>} : c \in InnerCaps}}
  \cup {RawBeh(Open(ps), Opt(FALSE, FALSE, FALSE, FALSE)) :
      ps \in {<<<<Cap("fqdn", 251)>>>>, <<<<Cap("fqdn", 200), Cap("as4", 0)>>>>,
              <<<<Cap("fqdn", 200)>>, <<Cap("softver", 40)>>>>}}

Behaviours ==
  CASE Sweep = "attr" -> SweepAttr
    [] Sweep = "openinner" -> SweepOpenInner
    [] Sweep = "ext"  -> SweepExt
    [] Sweep = "nlri" -> SweepNlri
    [] Sweep = "cap"  -> SweepCap
    [] Sweep = "open" -> SweepOpen
    [] Sweep = "ex"   -> SweepEx
    [] OTHER          -> {}

(* ---- sweep "random": combinations (TLC -simulate; RandomElement keeps the branching at 1) ---- *)
(* every operator below takes a parameter: TLC evaluates zero-arity definitions once and caches them *)
RandAttr(as2) ==
  LET t == RandomElement(AttrKinds \ {"origin", "nexthop"}) IN
  CASE t \in {"communities", "clusterlist", "extcomm", "large", "ip6extcomm", "unknown"} ->
         Counted(t, RandomElement(CountClasses(t) \cup {2, 5}))
    [] t = "aspath"  -> PathA(t, RandomElement(SegClasses(IF as2 THEN 2 ELSE 4)))
    [] t = "as4path" -> PathA(t, RandomElement(SegClasses(4)))
    [] t = "mpunreach" -> LET f == RandomElement(CoreFamilies) IN MpA(t, f, RandomElement(NlVariants(f)))
    [] t = "mpreach"   -> LET f == RandomElement(CoreFamilies)
                          IN MpN(f, RandomElement(NlVariants(f)), RandomElement(NhKindsOf(f)))
    [] OTHER         -> Simple(t)
RECURSIVE RandAttrs(_, _)
RandAttrs(k, as2) == IF k = 0 THEN <<>> ELSE <<RandAttr(as2)>> \o RandAttrs(k - 1, as2)
RandShape(as2) ==
  Update(RandomElement(BodyVariants \ {Rep(90, NL(24, 0))}),
         <<Simple("origin")>> \o RandAttrs(RandomElement(0..5), as2),
         RandomElement(BodyVariants))
RandBeh(step) ==
  LET as2 == RandomElement(BOOLEAN) IN
  Beh(RandShape(as2), Opt(RandomElement(BOOLEAN), as2, RandomElement(BOOLEAN), RandomElement(BOOLEAN)))

VARIABLE step
gv == <<beh, step>>
Init == step = 0 /\ (IF Sweep = "random" THEN beh = RandBeh(0) ELSE beh \in Behaviours)
Next == IF Sweep = "random" THEN step' = step + 1 /\ beh' = RandBeh(step') ELSE UNCHANGED gv
GenSpec == Init /\ [][Next]_gv

Emit == PrintT("VPOUT " \o ToJson(beh))
=============================================================================
