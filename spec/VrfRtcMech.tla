---------------------------- MODULE VrfRtcMech ----------------------------
(* MECHANISM layer of C17, shaped like the code (pkg/server/server.go):

     wN1, wN2, wCE   what each neighbour holds = the fold of everything the speaker sent it

   Every input changes the relations of VrfRtc (property layer) AND sends incremental updates:
     route change (o -> n per VPN NLRI)  propagateUpdateToNeighbors / filterpath:
        N2 (no RTC)   announce n, else withdraw
        N1 (RTC)      interestedIn(n) -> announce n; else interestedIn(o) -> withdraw; else nothing
        CE (VRF peer) CanImportToVrf(n) -> announce ToLocal(n); n not importable -> (see D3)
     membership announce / withdraw      processRTCMembership / rtcVPNCandidates: only when the
                                         target's "known" status flips; candidates by RT index
     session up of N1                    full transfer, or RTC only + rtcEORWait when a deferral
                                         time is configured; End-of-RIB / deferral timer: transfer
     session up of N2 / CE               full transfer
   A route is never sent to the neighbour it was learned from.

   Defects (CONSTANT, a subset of {"D1","D2","D3","D4"}) switches in the code's known deviations, each
   a named branch below (see findings_proposed/C17-*.md):
     D1  a membership withdraw that leaves no membership for that target withdraws EVERY route
         carrying the target, also those another membership of the neighbour still matches
     D2  withdrawing the default membership sends the routes the neighbour is NOT interested in
         (as announcements) instead of withdrawing them
     D3  a VPN route replaced by one that the CE's VRF no longer imports is not withdrawn from
         the CE
     D4  there is no per-VRF route selection: VPN routes are forwarded to the CE one VPN NLRI at
         a time, so when two imported VPN routes (different RD) have the same IP prefix the
         withdrawal of one removes the prefix from the CE although the other is still imported
         (without D4 the mechanism re-announces a remaining imported route for the prefix)
   With Defects = {} TLC checks (MCVrfRtc) that the mechanism implements the property layer. *)
EXTENDS VrfRtc

CONSTANT Defects

VARIABLES wN1, wN2, wN3, wCE
mvars == <<cfg, up, ceOn, nin, cein, loc, vrfs, mem, wait, eor, deadline, now, wN1, wN2, wN3, wCE>>

MInit(c) == PInit(c) /\ wN1 = {} /\ wN2 = {} /\ wN3 = {} /\ wCE = {}

EKey(e) == <<e.rd, e.x>>
(* apply announcements A (wire entries) and withdrawals of the keys WK to a view *)
Apply(W, A, WK) == {e \in W : EKey(e) \notin WK /\ \A a \in A : EKey(a) # EKey(e)} \cup A
ApplyCe(W, A, WX) == {e \in W : e.x \notin WX /\ \A a \in A : a.x # e.x} \cup A

SameKey(S, r) == {q \in S : Key(q) = Key(r)}

(* ---- route changes: O = VPN routes before, N = after; memberships / VRFs as given ---- *)
(* O, N are sets of BEST paths (one per VPN NLRI).  A new best that may not be sent to p (its own
   route, or internal to internal) makes filterpath withdraw the old best that was sent *)
FanPE(p, O, N, W) ==
  LET A  == {n \in N \ O : MayAdv(p, n)}
      WK == {Key(o) : o \in {q \in O \ N : MayAdv(p, q) /\ \A n \in SameKey(N, q) : ~MayAdv(p, n)}}
  IN Apply(W, {Wire(a) : a \in A}, WK)

FanN1(O, N, M, W) ==
  LET Ok(r) == MayAdv("N1", r) /\ InterestedIn(M, r)
      A  == {n \in N \ O : Ok(n)}
      WK == {Key(o) : o \in {q \in O \ N : Ok(q) /\ \A n \in SameKey(N, q) : ~Ok(n)}}
  IN Apply(W, {Wire(a) : a \in A}, WK)

FanCE(O, N, w, W) ==
  LET A  == {n \in N \ O : n.src # "CE" /\ Imports(w, n)}
      WX == {o.x : o \in {q \in O \ N : /\ q.src # "CE" /\ Imports(w, q)
                                        /\ \/ SameKey(N, q) = {}
                                           \/ /\ "D3" \notin Defects        \* prePolicyFilterpath returns early
                                              /\ \A n \in SameKey(N, q) : ~Imports(w, n)}}
      Wc   == ApplyCe(W, {[x |-> a.x, v |-> a.v] : a \in A}, WX)
      Cand == {[x |-> r.x, v |-> r.v] : r \in {q \in N : q.src # "CE" /\ Imports(w, q)}}
      Miss == {c.x : c \in Cand} \ {e.x : e \in Wc}
  IN IF "D4" \in Defects THEN Wc
     ELSE Wc \cup {CHOOSE c \in Cand : c.x = x : x \in Miss}

(* fan-out of the change of the relations made by the current step (VpnRoutes' is the new set) *)
Fan ==
  /\ wN2' = IF up["N2"] /\ up'["N2"] THEN FanPE("N2", VpnRoutes, VpnRoutes', wN2) ELSE wN2
  /\ wN3' = IF up["N3"] /\ up'["N3"] THEN FanPE("N3", VpnRoutes, VpnRoutes', wN3) ELSE wN3
  /\ wN1' = IF up["N1"] /\ up'["N1"] THEN FanN1(VpnRoutes, VpnRoutes', mem, wN1) ELSE wN1
  /\ wCE' = IF up["CE"] /\ up'["CE"] THEN FanCE(VpnRoutes, VpnRoutes', V(CeVrf), wCE) ELSE wCE

(* full table transfer to N1 under the current memberships (announcements only) *)
DumpN1(M, W) == Apply(W, {Wire(r) : r \in {q \in VpnRoutes : MayAdv("N1", q) /\ InterestedIn(M, q)}}, {})

---------------------------------------------------------------------------
MUp(p) ==
  /\ PUp(p)
  /\ CASE p = "N1" -> wN1' = {} /\ UNCHANGED <<wN2, wN3, wCE>>     \* no membership yet: nothing passes the filter
       [] p = "N2" -> wN2' = AllExport("N2") /\ UNCHANGED <<wN1, wN3, wCE>>
       [] p = "N3" -> wN3' = AllExport("N3") /\ UNCHANGED <<wN1, wN2, wCE>>
MDown(p) ==
  /\ PDown(p)
  /\ IF p = "N1" THEN UNCHANGED <<wN1, wN2, wN3, wCE>> ELSE Fan

(* full transfer to the CE: when two imported routes share a prefix the later one in the table
   walk (unordered) wins - any one-per-prefix selection d is possible *)
CeDumps  == {d \in SUBSET CeExport : CeOk(d)}
MCeUp(d) == PCeUp /\ d \in CeDumps /\ wCE' = d /\ UNCHANGED <<wN1, wN2, wN3>>
MCeDown == PCeDown /\ Fan

MVAnn(r) == PVAnn(r) /\ Fan
MVWd(r)  == PVWd(r) /\ Fan
MCeAnn(x, v) == PCeAnn(x, v) /\ Fan
MCeWd(x)     == PCeWd(x) /\ Fan
MApiAdd(n, x, v) == PApiAdd(n, x, v) /\ Fan
MApiDel(n, x)    == PApiDel(n, x) /\ Fan
MAddVrf(w)  == PAddVrf(w) /\ UNCHANGED <<wN1, wN2, wN3, wCE>>
MDelVrf(n)  == PDelVrf(n) /\ Fan

(* processRTCMembership: act only when the target becomes known / unknown *)
Known(M, rt) == \E e \in M : e.rt = rt
Carries(rt, r) == rt = "def" \/ rt \in r.rts
MMAnn(m) ==
  /\ PMAnn(m)
  /\ wN1' = IF Known(mem, m.rt) \/ wait THEN wN1
            ELSE Apply(wN1, {Wire(r) : r \in {q \in VpnRoutes : MayAdv("N1", q) /\ Carries(m.rt, q)}}, {})
  /\ UNCHANGED <<wN2, wN3, wCE>>
MMWd(m) ==
  /\ PMWd(m)
  /\ wN1' = IF Known(mem \ {m}, m.rt) THEN wN1
            ELSE IF m.rt = "def"
                 THEN IF "D2" \in Defects
                      THEN Apply(wN1, {Wire(r) : r \in {q \in VpnRoutes : ~(MayAdv("N1", q) /\ InterestedIn(mem \ {m}, q))}}, {})
                      ELSE Apply(wN1, {}, {Key(r) : r \in {q \in VpnRoutes : ~InterestedIn(mem \ {m}, q)}})
                 ELSE IF "D1" \in Defects
                      THEN Apply(wN1, {}, {Key(r) : r \in {q \in VpnRoutes : m.rt \in q.rts}})
                      ELSE Apply(wN1, {}, {Key(r) : r \in {q \in VpnRoutes : m.rt \in q.rts /\ ~InterestedIn(mem \ {m}, q)}})
  /\ UNCHANGED <<wN2, wN3, wCE>>
MMEor ==
  /\ PMEor
  /\ wN1' = IF wait THEN DumpN1(mem, wN1) ELSE wN1
  /\ UNCHANGED <<wN2, wN3, wCE>>
MTick(d) ==
  /\ PTick(d)
  /\ wN1' = IF Expires(d) THEN DumpN1(mem, wN1) ELSE wN1
  /\ UNCHANGED <<wN2, wN3, wCE>>

---------------------------------------------------------------------------
(* design level: the mechanism implements the property layer *)
D_RtcExact == up["N1"] => IF wait THEN wN1 \subseteq RtcExport("N1") ELSE wN1 = RtcExport("N1")
D_AllExact == (up["N2"] => wN2 = AllExport("N2")) /\ (up["N3"] => wN3 = AllExport("N3"))
D_CeExact  == up["CE"] => CeOk(wCE)
=============================================================================
