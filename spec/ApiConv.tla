------------------------------- MODULE ApiConv -------------------------------
(* C18 - API and native representations convert losslessly in both directions.

   PROPERTY LAYER.  The values are those of ApiConvDom / ApiConvCfgDom (API-shaped records).  A
   conversion observation `r` is what the harness records for ONE value (harness/c18):

     r.val, r.hint      the value of the schedule (and the native-only distinctions beside it)
     r.a                chain A:  n0 --ToApi--> a1 --ToNative--> n2 --ToApi--> a3
                          n0   = the native value built with the constructors of pkg/packet/bgp
                          nat1, nat2        renderings of n0, n2      wire1, wire2   their octets
                          api1, api3        API-shaped records of a1, a3;  hex1, hex3 protobuf octets
                          merr, uerr, merr2 conversion errors ("" = none), ser1, ser2 serialisation errors
     r.b                chain B:  a0 --ToNative--> nb --ToApi--> ab, a0 built from r.val by protojson
     r.twin, r.twinwire rendering / octets of the native value built WITHOUT the hint

   The laws (statement of C18 in /verif/properties.jsonl):
     L0  ApiFaithful      every native value converts, and to the API value that denotes it
     L1  NativeRoundTrip  native -> api -> native is the identity (on the rendering; modulo the
                          native-only distinctions, which the API form cannot carry: there the result
                          must be the canonical twin)
     L2  ApiRoundTrip     api -> native -> api is the identity on API values of the image
     L3  WireEqual        native -> api -> native serialises to the same octets as the native value
     L4  ListedAsAdded    a route added through the API is listed back with the same prefix, path
                          identifier and attributes; once deleted it is listed no more
   and for policy objects / neighbour configuration (source = the API value):
     L5  CfgRoundTrip     api -> native -> api gives the value back, and is a fixpoint from there on.

   Nothing here looks at how the converters work: every definition is a comparison of recorded
   renderings with each other and with the value of the schedule. *)
EXTENDS ApiConvDom

Has(rec, f) == f \in DOMAIN rec
HintOf(r, h) == IF Has(r.hint, h) THEN r.hint[h] ELSE ""
IsEx(r) == r.k = "ex"

(* the API value that denotes the schedule's value: the value itself (the vocabulary is written
   in the canonical form of the API: next hops unmapped, enum names, ...) *)
ExpApi(r) == IF r.k = "nlri" THEN r.val.nlri ELSE r.val

(* native-only distinctions.  askind = "2": AS numbers held in 2-octet form (AsPathParam,
   Aggregator.Askind) - the API has no field for the kind and ToNative always builds the 4-octet
   form, whose octets differ BY DESIGN (RFC 6793 4.1: the form on the wire is a property of the
   session, not of the route).  nhform = "mapped": an IPv4 next hop held as ::ffff:a.b.c.d - the
   API prints the IPv4 form; the octets are still demanded equal (L3). *)
HasNativeOnly(r) == HintOf(r, "askind") # "" \/ HintOf(r, "nhform") # ""
(* what n2 may be: the value itself, or - where the API form does not carry the distinction - its
   canonical twin.  Whether the API prints an IPv4-mapped next hop in the mapped or in the IPv4 form
   is not determined by the property: both are allowed (if it keeps the form, n2 = n0; if it prints
   the IPv4 form, n2 = twin). *)
NatRefs(r) == IF HintOf(r, "askind") # "" THEN {r.twin}
              ELSE IF HintOf(r, "nhform") # "" THEN {r.a.nat1, r.twin} ELSE {r.a.nat1}
WireRef(r) == IF HintOf(r, "askind") = "2" THEN r.twinwire ELSE r.a.wire1
Mapped(v)  == [v EXCEPT !.mp_reach.next_hops[1] = "::ffff:" \o @]
ExpApis(r) == IF HintOf(r, "nhform") = "mapped" THEN {ExpApi(r), Mapped(ExpApi(r))} ELSE {ExpApi(r)}

Built(r)     == r.builderr = ""
Converted(r) == Built(r) /\ r.panic = "" /\ r.a.merr = ""
Back(r)      == Converted(r) /\ r.a.uerr = ""

L_NoPanic(r)         == r.panic = ""
L_Convertible(r)     == (Built(r) /\ r.panic = "") => r.a.merr = ""
L_ApiFaithful(r)     == (Converted(r) /\ ~IsEx(r)) => r.a.api1 \in ExpApis(r)
L_ImageAccepted(r)   == Converted(r) => r.a.uerr = ""
L_NativeRoundTrip(r) == Back(r) => r.a.nat2 \in NatRefs(r)
L_WireEqual(r)       == (Back(r) /\ r.a.ser1 = "") => (r.a.ser2 = "" /\ r.a.wire2 = WireRef(r))
L_ApiRoundTrip(r)    == Back(r) => (r.a.merr2 = "" /\ r.a.hex3 = r.a.hex1 /\ r.a.api3 = r.a.api1)

(* chain B: an API value built by the protobuf library alone.  A value the API layer REJECTS is
   outside the property; an accepted one must denote what the constructors build. *)
BAccepted(r) == ~IsEx(r) /\ Built(r) /\ r.panic = "" /\ r.b.perr = "" /\ r.b.rej = ""
BWireRef(r)  == IF HasNativeOnly(r) THEN r.twinwire ELSE r.a.wire1
L_ApiValueRoundTrip(r) == BAccepted(r) => (r.b.merr = "" /\ r.b.api = ExpApi(r))
(* the API value written in the vocabulary's (un-hinted) form denotes the canonical twin *)
BNatRef(r) == IF HasNativeOnly(r) THEN r.twin ELSE r.a.nat1
L_ApiValueDenotes(r)   == BAccepted(r) => (r.b.nat = BNatRef(r) /\ (r.a.ser1 = "" => r.b.wire = BWireRef(r)))

(* ------------------------------- L4 ---------------------------------------------------------- *)
IsNhAttr(a) == Has(a, "next_hop") \/ Has(a, "mp_reach")
NhOf(a)     == IF Has(a, "next_hop") THEN <<a.next_hop.next_hop>> ELSE a.mp_reach.next_hops
SeqSet(s)   == {s[i] : i \in DOMAIN s}
Others(attrs) == {attrs[i] : i \in {j \in DOMAIN attrs : ~IsNhAttr(attrs[j])}}
NextHops(attrs) == {NhOf(attrs[i]) : i \in {j \in DOMAIN attrs : IsNhAttr(attrs[j])}}
(* the next hop travels in NEXT_HOP or in MP_REACH_NLRI, whichever the family asks for: only its
   value is compared; the other attributes are compared as a set (the RIB keeps them in type order) *)
SamePath(l, v) ==
  /\ l.family = v.family /\ l.nlri = v.nlri /\ l.identifier = v.identifier
  /\ Len(l.pattrs) = Len(v.pattrs)
  /\ Others(l.pattrs) = Others(v.pattrs)
  /\ NextHops(l.pattrs) = NextHops(v.pattrs)
PathAccepted(p) == p.perr = "" /\ p.panic = "" /\ p.adderr = ""
L_ListedAsAdded(p) == PathAccepted(p) => (p.listerr = "" /\ Len(p.listed) = 1 /\ SamePath(p.listed[1], p.val))
L_DeletedGone(p)   == (PathAccepted(p) /\ p.del # "none") => (p.delerr = "" /\ p.after = <<>>)

(* ------------------------------- L5 ---------------------------------------------------------- *)
(* a defined set is a set: the order of its elements is not part of the value *)
SameSet(a, v) ==
  /\ Has(a, "defined_type") /\ a.defined_type = v.defined_type /\ a.name = v.name
  /\ Len(a.list) = Len(v.list) /\ SeqSet(a.list) = SeqSet(v.list)
  /\ Len(a.prefixes) = Len(v.prefixes) /\ SeqSet(a.prefixes) = SeqSet(v.prefixes)
CfgExp(c) == IF c.k = "stmt" THEN c.val.statement ELSE c.val
(* a 4-octet AS may be written asplain ("65536") or asdot ("1.0"): one value, two spellings *)
AsDot(s) == IF s = "rt:65536:1" THEN "rt:1.0:1" ELSE s
AsDotForm(st) ==
  IF Has(st.actions, "ext_community")
  THEN [st EXCEPT !.actions.ext_community.communities = [i \in DOMAIN @ |-> AsDot(@[i])]]
  ELSE st
CfgAccepted(c) == c.perr = "" /\ c.preerr = "" /\ c.panic = "" /\ c.rej = ""
L_CfgRoundTrip(c) ==
  CfgAccepted(c) => /\ c.n = 1
                    /\ CASE c.k = "dset" -> SameSet(c.api1, c.val)
                         [] c.k = "stmt" -> c.api1 \in {CfgExp(c), AsDotForm(CfgExp(c))}
                         [] OTHER -> c.api1 = CfgExp(c)
L_CfgFixpoint(c) == (CfgAccepted(c) /\ c.n = 1) => (c.rej2 = "" /\ c.api3 = c.api1)
=============================================================================
