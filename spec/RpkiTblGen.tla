---------------------------- MODULE RpkiTblGen ----------------------------
(* Behaviours for the white-box replayer of C16 (harness/c16): operations on the real ROATable.
   Mode "sets"  (TLC exhaustive): one behaviour per ROA set of 1..K records of family Fam - the
                records are added one by one, then one is deleted, then one source is flushed;
                validations are recorded for every route of the family (x 6 origin classes).
   Mode "walk"  (TLC -simulate): random Add / Delete / DeleteAll sequences over a small pool of
                records from two sources (duplicates, deletions of unknown records), validations of
                the whole route pool (both families, all ten AS_PATH shapes) after every step.
   Mode "dup"   (TLC exhaustive): EVERY sequence of MaxSteps operations (the first one an Add) over
                one record held by two sources - Add / Delete of the record by either source, a
                second record in the same bucket, DeleteAll of either source: the same record from
                several caches, repeated announcements from each bucket position, withdrawals by
                each, flushes of one source in between. *)
EXTENDS Rpki, RpkiDom, Json, SequencesExt, FiniteSetsExt

CONSTANTS Mode, Fam, K, MaxSteps

VARIABLES S, pat, ops, pool
gvars == <<ps, ms, tbl, S, pat, ops, pool>>

PoolOf(f) == IF f = "v4" THEN Records4 ELSE Records6
Tag(r, c) == [c |-> c, p |-> r.p, m |-> r.m, a |-> r.a]

SetKey == IF Fam = "v4" THEN "set-v4" ELSE "set-v6"

(* sets mode: the records are added one by one, the last one is deleted and added again, the first
   one is deleted, one source is flushed.  Sources: two records -> both patterns (same source /
   different sources), three records -> c1, c2, c1. *)
SrcOf(i, n) == IF n = 2 THEN (IF i = 2 /\ pat = 2 THEN "c2" ELSE "c1")
               ELSE IF i = 2 THEN "c2" ELSE "c1"
SetOps(T) == LET q == SetToSeq(T)
                 n == Len(q)
                 tagged == [i \in 1..n |-> Tag(q[i], SrcOf(i, n))]
             IN [i \in 1..n |-> [op |-> "Add", r |-> tagged[i], v |-> (i = n)]]
                \o (IF n >= 2 THEN <<[op |-> "Del", r |-> tagged[n], v |-> TRUE],
                                     [op |-> "Add", r |-> tagged[n], v |-> FALSE]>> ELSE <<>>)
                \o <<[op |-> "Del", r |-> tagged[1], v |-> TRUE]>>
                \o (IF n >= 2 THEN <<[op |-> "DelAll", c |-> "c1", v |-> TRUE]>> ELSE <<>>)

GenInit == /\ Init
           /\ ops = <<>>
           /\ IF Mode = "sets"
              THEN /\ S \in UNION {kSubset(k, PoolOf(Fam)) : k \in 1..K} /\ pool = {}
                   /\ pat \in (IF Cardinality(S) = 2 THEN {1, 2} ELSE {1})
              ELSE /\ S = {} /\ pat = 1
                   /\ pool = LET a == RandomElement(AllRecords)
                             IN {a, RandomElement({x \in AllRecords : x.p = a.p}), RandomElement(Records4),
                                 RandomElement(Records4), RandomElement(Records6), RandomElement(AllRecords)}

DupAdds == {[op |-> "Add", r |-> Tag(DupA, "c1"), v |-> TRUE], [op |-> "Add", r |-> Tag(DupA, "c2"), v |-> TRUE],
            [op |-> "Add", r |-> Tag(DupB, "c2"), v |-> TRUE]}
DupOps == DupAdds \cup
          {[op |-> "Del", r |-> Tag(DupA, "c1"), v |-> TRUE], [op |-> "Del", r |-> Tag(DupA, "c2"), v |-> TRUE],
           [op |-> "DelAll", c |-> "c1", v |-> TRUE], [op |-> "DelAll", c |-> "c2", v |-> TRUE]}
DupNext == /\ Mode = "dup" /\ Len(ops) < MaxSteps
           /\ \E o \in (IF ops = <<>> THEN DupAdds ELSE DupOps) : ops' = Append(ops, o)
           /\ UNCHANGED <<vars, S, pat, pool>>

WalkNext == /\ Mode = "walk" /\ Len(ops) < MaxSteps
           /\ \/ ops' = Append(ops, [op |-> "Add", r |-> Tag(RandomElement(pool), RandomElement({"c1", "c2"})), v |-> TRUE])
              \/ ops' = Append(ops, [op |-> "Add", r |-> Tag(RandomElement(pool), RandomElement({"c1", "c2"})), v |-> TRUE])
              \/ ops' = Append(ops, [op |-> "Del", r |-> Tag(RandomElement(pool), RandomElement({"c1", "c2"})), v |-> TRUE])
              \/ (RandomElement(1..10) <= 3 /\ ops' = Append(ops, [op |-> "DelAll", c |-> RandomElement({"c1", "c2"}), v |-> TRUE]))
           /\ UNCHANGED <<vars, S, pat, pool>>

GenNext == WalkNext \/ DupNext
GenSpec == GenInit /\ [][GenNext]_gvars

EmitSets == Mode = "sets" =>
              PrintT("VPOUT " \o ToJson([kind |-> "sets", rk |-> SetKey, routes |-> RoutePool(SetKey), ops |-> SetOps(S)]))
EmitWalk == (Mode = "walk" /\ Len(ops) = MaxSteps) =>
              PrintT("VPOUT " \o ToJson([kind |-> "walk", rk |-> "walk", routes |-> RoutePool("walk"), ops |-> ops]))
EmitDup == (Mode = "dup" /\ Len(ops) = MaxSteps) =>
              PrintT("VPOUT " \o ToJson([kind |-> "dup", rk |-> "dup", routes |-> RoutePool("dup"), ops |-> ops]))
=============================================================================
