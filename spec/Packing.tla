---------------------------- MODULE Packing ----------------------------
(* C11 - turning a list of route changes into UPDATE messages.

   A session is a record  s == [ap |-> [Families -> BOOLEAN], limit |-> 4096 | 65535]
   (ADD-PATH send negotiated per family; RFC 4271 4096 octets or RFC 8654 65535 octets).

   A change is a record
     [fam, pfx, plen, lid, kind, attrs, nh, attrBytes, nlriBytes, nhBytes, single, dig, nhs]
     fam   "v4" | "v6" | "vpn4"          pfx/plen  prefix (pool index, bit length)
     lid   LOCAL path id of the table (destination-local id)
     kind  "ann" | "wd" | "eor"
     dig   identity of the attribute set (everything except NEXT_HOP / MP_REACH_NLRI)
     nhs   next hop(s);  (dig, nhs) together are "the route's attributes and next hop(s)"
     attrBytes  octets of the attribute block without MP_REACH_NLRI
     nlriBytes  octets of the NLRI on this session (incl. the 4-octet path id under ADD-PATH)
     nhBytes    next-hop octets inside MP_REACH_NLRI; 0 = classic IPv4 NEXT_HOP attribute
     single     octets of an UPDATE that carries this route alone (0 for wd / eor)

   A message (what a receiver parsed, or what the mechanism layer emits) is a record
     [sent, len, wd, ann, dig, eor, err]
     sent  the sender put it on the wire (FALSE: Serialize refused it = dropped and reported)
     len   octets
     wd    sequence of withdrawn keys
     ann   sequence of groups [nhs, keys]: the keys announced with next hop(s) nhs
     dig   identity of the message's attribute set
     eor   "" or the family of an End-of-RIB marker

   PROPERTY LAYER  : Key / Expected (last action per wire key wins) / receiver model Fold,
                     and the predicates the C11_* invariants are made of.
   MECHANISM LAYER : Pack, shaped like table.CreateUpdateMsgFromPaths + packerV4 + packerMP
                     (internal/pkg/table/message.go), with the two deviations of the code as
                     options so that the repaired shape can be model-checked too.
*)
EXTENDS Integers, Sequences, FiniteSets, TLC, SequencesExt, FiniteSetsExt

Families == {"v4", "v6", "vpn4"}

SeqSet(q) == {q[i] : i \in 1..Len(q)}
Idx(q)    == [i \in 1..Len(q) |-> i]

---------------------------------------------------------------------------
(* PROPERTY LAYER *)

IsRoute(c) == c.kind # "eor"

(* RFC 7911 section 3: a path identifier is on the wire only when ADD-PATH was negotiated for
   the family; otherwise a receiver identifies a route by (family, prefix) alone. *)
WireId(s, c)  == IF s.ap[c.fam] THEN c.lid ELSE 0
Key(s, c)     == <<c.fam, c.pfx, c.plen, WireId(s, c)>>
LocalKey(c)   == <<c.fam, c.pfx, c.plen, c.lid>>
KeyFam(k)     == k[1]

KeySet(s, ch) == {Key(s, ch[i]) : i \in {j \in 1..Len(ch) : IsRoute(ch[j])}}

(* one pass over the list: for every key the index of its LAST change ("the last action per
   (family, prefix, path-id) wins") and every (attribute set, next hop, single-route size) it was
   announced with *)
KeyFacts(s, ch) ==
  FoldLeftDomain(LAMBDA acc, i :
                   LET c == ch[i] IN
                   IF ~IsRoute(c) THEN acc
                   ELSE [acc EXCEPT ![Key(s, c)] =
                           [w |-> i, own |-> IF c.kind = "ann" THEN @.own \cup {<<c.dig, c.nhs, c.single>>}
                                                               ELSE @.own]],
                 [k \in KeySet(s, ch) |-> [w |-> 0, own |-> {}]], ch)

ExpOf(c, i) == [st     |-> IF c.kind = "ann" THEN "route" ELSE "absent",
                dig    |-> IF c.kind = "ann" THEN c.dig ELSE "",
                nhs    |-> IF c.kind = "ann" THEN c.nhs ELSE "",
                idx    |-> i,
                single |-> IF c.kind = "ann" THEN c.single ELSE 0]

(* the effect of applying the changes one at a time *)
ExpectedF(ch, kf) == [k \in DOMAIN kf |-> ExpOf(ch[kf[k].w], kf[k].w)]
OwnF(kf)          == [k \in DOMAIN kf |-> kf[k].own]
Expected(s, ch)   == ExpectedF(ch, KeyFacts(s, ch))
Own(s, ch)        == OwnF(KeyFacts(s, ch))

(* the same thing said declaratively (checked equal at design level; quadratic) *)
ExpectedDecl(s, ch) ==
  [k \in KeySet(s, ch) |->
     LET I == {i \in 1..Len(ch) : IsRoute(ch[i]) /\ Key(s, ch[i]) = k}
         m == CHOOSE i \in I : \A j \in I : j <= i
     IN ExpOf(ch[m], m)]

(* index of the first End-of-RIB of every family in the input (0 = none) *)
EorIn(ch) == [f \in Families |->
                LET I == {i \in 1..Len(ch) : ch[i].kind = "eor" /\ ch[i].fam = f}
                IN IF I = {} THEN 0 ELSE CHOOSE i \in I : \A j \in I : i <= j]

(* ---- receiver model: applies the messages it is sent, in order ---- *)
(* the receiver's table before the batch is unknown: every key starts as "prior" (some older
   state), so a withdrawal that is required but missing is visible *)
PriorV        == [st |-> "prior", dig |-> "", nhs |-> "", at |-> 0]
AbsentV(at)   == [st |-> "absent", dig |-> "", nhs |-> "", at |-> at]
RouteV(d, n, at) == [st |-> "route", dig |-> d, nhs |-> n, at |-> at]
InitView(K)   == [k \in K |-> PriorV]

MsgKeys(m) == SeqSet(m.wd) \cup UNION {SeqSet(g.keys) : g \in SeqSet(m.ann)}

(* RFC 4271 section 3.1 / 9: withdrawn routes are removed, then the NLRI are installed with the
   message's attributes (RFC 4760: the same for MP_UNREACH_NLRI / MP_REACH_NLRI). A message that
   was not sent changes nothing. `at` = position of the message in the stream. *)
ApplyGroup(v, g, d, at) ==
  LET ks == SeqSet(g.keys)
  IN [k \in DOMAIN v |-> IF k \in ks THEN RouteV(d, g.nhs, at) ELSE v[k]]

ApplyMsg(v, m, at) ==
  IF ~m.sent THEN v
  ELSE LET w  == SeqSet(m.wd)
           v1 == IF w = {} THEN v ELSE [k \in DOMAIN v |-> IF k \in w THEN AbsentV(at) ELSE v[k]]
       IN FoldLeft(LAMBDA acc, g : ApplyGroup(acc, g, m.dig, at), v1, m.ann)

Fold(K, msgs) == FoldLeftDomain(LAMBDA acc, i : ApplyMsg(acc, msgs[i], i), InitView(K), msgs)

(* keys touched by sent messages that no change mentions *)
Strays(K, msgs) == UNION {IF msgs[i].sent THEN MsgKeys(msgs[i]) \ K ELSE {} : i \in 1..Len(msgs)}

(* ---- predicates the invariants are made of ---- *)
Same(vk, ek)  == vk.st = ek.st /\ vk.dig = ek.dig /\ vk.nhs = ek.nhs

Oversize(s, e)  == e.st = "route" /\ e.single > s.limit
(* a route that fits, but by less than one worst-case NLRI (5 octets + 4 of a path id) *)
NearLimit(s, e) == e.st = "route" /\ e.single <= s.limit /\ e.single > s.limit - 9
Roomy(s, e)     == ~Oversize(s, e) /\ ~NearLimit(s, e)

(* "each message fits the session's maximum size": a message on the wire fits; one that does
   not fit (refused by Serialize, i.e. dropped and reported) is excusable only when it is made
   solely of routes that cannot fit any message *)
FitsMsg(s, own, m) ==
  /\ m.sent => m.len <= s.limit
  /\ ~m.sent =>
       /\ m.len > s.limit
       /\ m.wd = <<>> /\ m.eor = ""
       /\ \A g \in SeqSet(m.ann) : \A k \in SeqSet(g.keys) :
            k \in DOMAIN own /\ \E t \in own[k] : t[1] = m.dig /\ t[2] = g.nhs /\ t[3] > s.limit

(* "routes share a message only when their attribute sets and next hops are identical": a parsed
   message has ONE attribute set, so every key announced in it must own that very attribute set
   and the next hop(s) it is announced with (it is one of the routes the input announced for it) *)
HomogeneousMsg(own, m) ==
  \A g \in SeqSet(m.ann) : \A k \in SeqSet(g.keys) :
     k \in DOMAIN own /\ \E t \in own[k] : t[1] = m.dig /\ t[2] = g.nhs

(* End-of-RIB kept: a family's marker is in the output iff it is in the input, and it does not
   overtake a route of its family that preceded it in the input *)
EorOutAt(msgs, f) == LET I == {i \in 1..Len(msgs) : msgs[i].sent /\ msgs[i].eor = f}
                     IN IF I = {} THEN 0 ELSE CHOOSE i \in I : \A j \in I : i <= j
EorKeptP(ei, e, v, eo) ==          \* ei = EorIn(changes)
  /\ \A f \in Families : (ei[f] > 0) <=> (eo[f] > 0)
  /\ \A k \in DOMAIN e :
       LET f == KeyFam(k) IN
         (f \in Families /\ ei[f] > 0 /\ e[k].idx < ei[f]) => v[k].at < eo[f]

---------------------------------------------------------------------------
(* History shapes in which the two deviations of the mechanism layer matter *)

(* dedup = "local" (the code before repo commit f403483, kept as mutant C11-localid-dedup): the
   last action is kept per LOCAL path id.  On a family without ADD-PATH all local ids of a prefix
   share ONE wire key, withdrawals are emitted before announcements and attribute groups in map
   order, so the receiver ends with a route that is not the last action exactly when some OTHER
   local id's last action is an announcement that (a) survives although the key's last action is
   a withdrawal, or (b) differs from the key's last announcement (then the order of two messages
   decides).  E.g. [announce P id1, announce P id2, withdraw P id2] => WITHDRAW P, ANNOUNCE P(id1). *)
LastOfLid(s, ch, k, lid) ==
  LET I == {i \in 1..Len(ch) : IsRoute(ch[i]) /\ Key(s, ch[i]) = k /\ ch[i].lid = lid}
  IN CHOOSE i \in I : \A j \in I : j <= i
LocalIdShape(s, ch, k, w) ==          \* w = index of the key's last change
  /\ KeyFam(k) \in Families /\ ~s.ap[KeyFam(k)]
  /\ \E lid \in {ch[i].lid : i \in {j \in 1..Len(ch) : IsRoute(ch[j]) /\ Key(s, ch[j]) = k}} :
       /\ lid # ch[w].lid
       /\ LET o == ch[LastOfLid(s, ch, k, lid)]
          IN /\ o.kind = "ann"
             /\ \/ ch[w].kind = "wd"
                \/ /\ <<o.dig, o.nhs>> # <<ch[w].dig, ch[w].nhs>>
                   \* packerV4 emits its RFC 8950 paths after every classic group and in list
                   \* order: a last announcement of that kind is always applied last
                   /\ ~(KeyFam(k) = "v4" /\ ch[w].nhBytes > 0)

(* clamp = FALSE (the code before repo commit 9eb707a, findings_proposed/C11-v4-noroom.md; kept as
   the model of mutant C11-v4-noroom-revert).  packerV4.pack sized a classic IPv4 group by
   maxNLRIs = (limit - 23 - attrBytes) / (5 [+4]), a worst-case NLRI.  Quotient 0: the group is
   dropped without any message or report, although a shorter prefix may fit; quotient < 0
   (Go truncates towards zero): make() panics with a negative capacity. *)
TDiv(a, b) == IF a >= 0 THEN a \div b ELSE -((-a) \div b)       \* Go integer division, b > 0
V4Classic(c)    == c.fam = "v4" /\ c.kind = "ann" /\ c.nhBytes = 0
V4MaxNlris(s, c) == TDiv(s.limit - 23 - c.attrBytes, 5 + (IF s.ap["v4"] THEN 4 ELSE 0))
V4NoRoom(s, c)   == V4Classic(c) /\ V4MaxNlris(s, c) < 1
V4Panics(s, c)   == V4Classic(c) /\ V4MaxNlris(s, c) < 0

---------------------------------------------------------------------------
(* MECHANISM LAYER - shaped like internal/pkg/table/message.go.
   o == [dedup |-> "wire" | "local",   \* key of the last-action-wins map ("wire" = the code)
         clamp |-> BOOLEAN,            \* TRUE: maxNLRIs is at least 1 (the code since 9eb707a)
         order |-> "fwd" | "rev"]      \* Go map iteration order of the attribute groups *)

DedupKey(s, o, c) == IF o.dedup = "local" THEN LocalKey(c) ELSE Key(s, c)

(* CreateUpdateMsgFromPaths: `last` map, then every EOR and every path that is the last of its key *)
Survivors(s, o, ch) ==
  SelectSeq(Idx(ch), LAMBDA i :
     \/ ~IsRoute(ch[i])
     \/ ~\E j \in (i+1)..Len(ch) : IsRoute(ch[j]) /\ DedupKey(s, o, ch[j]) = DedupKey(s, o, ch[i]))

Sum(q, F(_)) == FoldLeft(LAMBDA a, x : a + F(x), 0, q)
NlriSum(q)   == Sum(q, LAMBDA c : c.nlriBytes)
AttrHdr(v)   == IF v > 255 THEN 4 ELSE 3            \* RFC 4271 4.3 extended-length bit

KeysOf(s, q) == [i \in 1..Len(q) |-> Key(s, q[i])]
MkMsg(s, len, wd, ann, dig, eor) ==
  [sent |-> len <= s.limit, len |-> len, wd |-> wd, ann |-> ann, dig |-> dig, eor |-> eor,
   err |-> IF len <= s.limit THEN "" ELSE "too long"]

(* groups of announcements with identical (attribute set, next hop), in order of first occurrence *)
GroupIds(q) == FoldLeft(LAMBDA acc, c : IF \E i \in 1..Len(acc) : acc[i] = <<c.dig, c.nhs>>
                                        THEN acc ELSE Append(acc, <<c.dig, c.nhs>>), <<>>, q)
Groups(o, q) == LET ids == GroupIds(q)
                    gs  == [i \in 1..Len(ids) |-> SelectSeq(q, LAMBDA c : <<c.dig, c.nhs>> = ids[i])]
                IN IF o.order = "fwd" THEN gs ELSE Reverse(gs)

(* packerV4.pack: split(max, paths) *)
RECURSIVE Chunks(_, _)
Chunks(q, n) == IF q = <<>> \/ n < 1 THEN <<>>
                ELSE IF Len(q) <= n THEN <<q>>
                ELSE <<SubSeq(q, 1, n)>> \o Chunks(SubSeq(q, n + 1, Len(q)), n)

V4WdMsg(s, q)  == MkMsg(s, 23 + NlriSum(q), KeysOf(s, q), <<>>, "", "")
V4AnnMsg(s, q) == MkMsg(s, 23 + q[1].attrBytes + NlriSum(q), <<>>,
                        <<[nhs |-> q[1].nhs, keys |-> KeysOf(s, q)]>>, q[1].dig, "")
MpReachLen(q)  == LET v == 5 + q[1].nhBytes + NlriSum(q) IN 23 + q[1].attrBytes + AttrHdr(v) + v
MpAnnMsg(s, q) == MkMsg(s, MpReachLen(q), <<>>, <<[nhs |-> q[1].nhs, keys |-> KeysOf(s, q)]>>, q[1].dig, "")
MpWdMsg(s, q)  == LET v == 3 + NlriSum(q) IN MkMsg(s, 23 + AttrHdr(v) + v, KeysOf(s, q), <<>>, "", "")
EorMsg(s, f)   == MkMsg(s, IF f = "v4" THEN 23 ELSE 29, <<>>, <<>>, "", f)

Ap4(s) == IF s.ap["v4"] THEN 4 ELSE 0
V4Max(s, o, ab) == LET m == TDiv(s.limit - 23 - ab, 5 + Ap4(s))
                   IN IF o.clamp /\ m < 1 THEN 1 ELSE m

(* packerMP.pack: split(baseLen, paths, cb) - how many paths go into the next message *)
TakeN(q, budget) ==
  LET RECURSIVE go(_, _)
      go(i, used) == IF i > Len(q) THEN i - 1
                     ELSE LET nl == q[i].nlriBytes IN
                          IF i > 1 /\ used + nl > budget THEN i - 1
                          ELSE IF used + nl >= budget THEN i
                          ELSE go(i + 1, used + nl)
  IN go(1, 0)
RECURSIVE Greedy(_, _)
Greedy(q, budget) == IF q = <<>> THEN <<>>
                     ELSE IF budget <= 0 THEN [i \in 1..Len(q) |-> <<q[i]>>]
                     ELSE LET n == TakeN(q, budget)
                          IN <<SubSeq(q, 1, n)>> \o Greedy(SubSeq(q, n + 1, Len(q)), budget)

Flat(qq) == FoldLeft(LAMBDA a, x : a \o x, <<>>, qq)

PackFamily(s, o, f, q) ==       \* q = the surviving changes of family f, in list order
  LET wds   == SelectSeq(q, LAMBDA c : c.kind = "wd")
      anns  == SelectSeq(q, LAMBDA c : c.kind = "ann")
      eor   == IF \E i \in 1..Len(q) : q[i].kind = "eor" THEN <<EorMsg(s, f)>> ELSE <<>>
  IN IF f = "v4"
     THEN LET cl  == SelectSeq(anns, LAMBDA c : c.nhBytes = 0)
              mp  == SelectSeq(anns, LAMBDA c : c.nhBytes > 0)      \* RFC 8950, one message each
              gs  == Groups(o, cl)
              pan == \E i \in 1..Len(gs) : V4Max(s, o, gs[i][1].attrBytes) < 0
              wm  == LET ch == Chunks(wds, V4Max(s, o, 0)) IN [i \in 1..Len(ch) |-> V4WdMsg(s, ch[i])]
              am  == Flat([i \in 1..Len(gs) |->
                             LET ch == Chunks(gs[i], V4Max(s, o, gs[i][1].attrBytes))
                             IN [j \in 1..Len(ch) |-> V4AnnMsg(s, ch[j])]])
              mm  == [i \in 1..Len(mp) |-> MpAnnMsg(s, <<mp[i]>>)]
          IN [panic |-> pan, msgs |-> wm \o am \o mm \o eor]
     ELSE LET gs == Groups(o, anns)
              wm == LET ch == Greedy(wds, s.limit - 30) IN [i \in 1..Len(ch) |-> MpWdMsg(s, ch[i])]
              am == Flat([i \in 1..Len(gs) |->
                            LET ch == Greedy(gs[i], s.limit - (23 + gs[i][1].attrBytes + 9 + gs[i][1].nhBytes))
                            IN [j \in 1..Len(ch) |-> MpAnnMsg(s, ch[j])]])
          IN [panic |-> FALSE, msgs |-> wm \o am \o eor]

FamOrder(o) == IF o.order = "fwd" THEN <<"v4", "v6", "vpn4">> ELSE <<"vpn4", "v6", "v4">>

(* the whole packing pass: [panic, msgs]; a panic leaves nothing *)
Pack(s, o, ch) ==
  LET sv == Survivors(s, o, ch)
      fo == FamOrder(o)
      pf == [n \in 1..3 |-> PackFamily(s, o, fo[n],
                               LET ix == SelectSeq(sv, LAMBDA i : ch[i].fam = fo[n])
                               IN [j \in 1..Len(ix) |-> ch[ix[j]]])]
  IN IF \E n \in 1..3 : pf[n].panic THEN [panic |-> TRUE, msgs |-> <<>>]
     ELSE [panic |-> FALSE, msgs |-> pf[1].msgs \o pf[2].msgs \o pf[3].msgs]

---------------------------------------------------------------------------
(* every property of C11, stated for one complete packing pass (used at design level; the trace
   spec states the same predicates over the recorded messages, step by step) *)
AllProps(s, ch, out) ==
  LET K   == KeySet(s, ch)
      e   == Expected(s, ch)
      own == Own(s, ch)
      v   == Fold(K, out.msgs)
      eo  == [f \in Families |-> EorOutAt(out.msgs, f)]
      rep == UNION {IF out.msgs[i].sent THEN {} ELSE MsgKeys(out.msgs[i]) : i \in 1..Len(out.msgs)}
  IN /\ ~out.panic
     /\ \A i \in 1..Len(out.msgs) : FitsMsg(s, own, out.msgs[i]) /\ HomogeneousMsg(own, out.msgs[i])
     /\ Strays(K, out.msgs) = {}
     /\ \A k \in K : IF Oversize(s, e[k]) THEN k \in rep ELSE Same(v[k], e[k])
     /\ EorKeptP(EorIn(ch), e, v, eo)
=============================================================================
