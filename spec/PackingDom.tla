---------------------------- MODULE PackingDom ----------------------------
(* Concrete vocabulary of C11 shared by the exhaustive pools (MCPacking), the behaviour
   generator (PackingGen), the trace spec (cross-check of the measured sizes) and the Go harness
   (harness/c11/c11_test.go builds exactly these attribute blocks, prefixes and next hops).

   The size formulas transcribe RFC 4271 4.3 (UPDATE: header 19, withdrawn-routes length 2, total
   path attribute length 2; attribute header 3 octets, 4 with the extended-length bit; NLRI =
   1 length octet + ceil(len/8)), RFC 4760 3 (MP_REACH_NLRI value = AFI 2, SAFI 1, next-hop
   length 1, next hop, reserved 1, NLRI), RFC 4364 4.3.2 (VPN-IPv4 NLRI: 3 label + 8 RD octets,
   next hop with an 8-octet zero RD), RFC 8950 (IPv4 NLRI with a 16/32-octet IPv6 next hop),
   RFC 7911 3 (4-octet path identifier in front of every NLRI). *)
EXTENDS Integers, Sequences, TLC

ApOf(a, b, c) == [v4 |-> a, v6 |-> b, vpn4 |-> c]
ApNone == ApOf(FALSE, FALSE, FALSE)
ApAll  == ApOf(TRUE, TRUE, TRUE)
ApV4   == ApOf(TRUE, FALSE, FALSE)
ApMp   == ApOf(FALSE, TRUE, TRUE)

LimitOf(ext) == IF ext THEN 65535 ELSE 4096

(* next-hop tokens: n4a n4b (IPv4), n6a n6b (IPv6 global), n6al (global a + link-local);
   m4a m4b: IPv4 unicast learned in MP_REACH_NLRI form with the IPv4 next hop a / b - the path has
   no NEXT_HOP attribute (the packer synthesises one: on the wire it is a classic route) *)
ViaMp(nh) == nh \in {"m4a", "m4b"}
NhSynth(fam, nh) == IF fam = "v4" /\ ViaMp(nh) THEN 7 ELSE 0      \* NEXT_HOP added by the packer
NhTokens(fam) == CASE fam = "v4"   -> <<"n4a", "n4b", "m4a", "m4b", "m4a", "n6a", "n6al">>
                   [] fam = "v6"   -> <<"n6a", "n6a", "n6b", "n6al">>
                   [] fam = "vpn4" -> <<"n4a", "n4b">>
NhBytesOf(fam, nh) == CASE fam = "v4" /\ nh \in {"n4a", "n4b", "m4a", "m4b"} -> 0   \* classic NEXT_HOP on the wire
                        [] fam = "vpn4"                        -> 12      \* RD(8) + IPv4
                        [] nh = "n6al"                         -> 32
                        [] OTHER                               -> 16

(* ORIGIN 4 + AS_PATH (one 4-octet AS) 9 + MED 7, + NEXT_HOP 7 for classic IPv4 *)
BaseAb(fam, nh) == IF NhBytesOf(fam, nh) = 0 /\ ~ViaMp(nh) THEN 27 ELSE 20

NlriLen(fam, plen, ap) == (IF fam = "vpn4" THEN 12 ELSE 1) + (plen + 7) \div 8 + (IF ap THEN 4 ELSE 0)
AttrHdrLen(v) == IF v > 255 THEN 4 ELSE 3
SingleLen(fam, nh, ab, nl) ==
  LET nb == NhBytesOf(fam, nh)
  IN IF nb = 0 THEN 23 + ab + nl
     ELSE LET v == 5 + nb + nl IN 23 + ab + AttrHdrLen(v) + v

(* prefix pool: the prefix length is a function of (family, index) *)
PlenOf(fam, p) == IF fam = "v6" THEN <<64, 48, 128>>[(p % 3) + 1]
                  ELSE <<24, 32, 16, 8>>[(p % 4) + 1]
(* pool of the large instances: indexes up to 2^16 *)
PlenLarge(fam, p) == IF fam = "v6" THEN <<64, 48, 128>>[(p % 3) + 1]
                     ELSE <<24, 32, 24, 20>>[(p % 4) + 1]

(* abstract change as the generator emits it / the harness reads it *)
GChg(fam, pfx, plen, lid, kind, attrs, ab, nh) ==
  [fam |-> fam, pfx |-> pfx, plen |-> plen, lid |-> lid, kind |-> kind, attrs |-> attrs,
   ab |-> ab, nh |-> nh]
EorChg(fam) == GChg(fam, 0, 0, 0, "eor", 0, 0, "-")

(* the change as the trace records it, with the sizes computed from the formulas above instead of
   measured (used at design level) *)
Concrete(ap, g) ==
  IF g.kind = "eor"
  THEN [fam |-> g.fam, pfx |-> 0, plen |-> 0, lid |-> 0, kind |-> "eor", attrs |-> 0, ab |-> 0,
        nh |-> "-", attrBytes |-> 0, nlriBytes |-> 0, nhBytes |-> 0, single |-> 0, dig |-> "", nhs |-> ""]
  ELSE LET nl == NlriLen(g.fam, g.plen, ap[g.fam])
           an == g.kind = "ann"
       IN [fam |-> g.fam, pfx |-> g.pfx, plen |-> g.plen, lid |-> g.lid, kind |-> g.kind,
           attrs |-> g.attrs, ab |-> g.ab, nh |-> g.nh,
           attrBytes |-> IF an THEN g.ab + NhSynth(g.fam, g.nh) ELSE 0,
           nlriBytes |-> nl,
           nhBytes   |-> IF an THEN NhBytesOf(g.fam, g.nh) ELSE 0,
           single    |-> IF an THEN SingleLen(g.fam, g.nh, g.ab + NhSynth(g.fam, g.nh), nl) ELSE 0,
           dig       |-> IF an THEN "a" \o ToString(g.attrs) \o "-" \o ToString(g.ab) ELSE "",
           nhs       |-> IF an THEN (IF g.nh = "m4a" THEN "n4a" ELSE IF g.nh = "m4b" THEN "n4b" ELSE g.nh) ELSE ""]

(* towards a peer without the 4-octet AS capability (RFC 6793 4.2.2) the one-AS AS_PATH shrinks
   by 2 octets and, when its AS does not fit 2 octets (odd attribute-set ids), an AS4_PATH of
   3 + 2 + 4 octets is added *)
As2Delta(attrs, as2) == IF ~as2 THEN 0 ELSE IF attrs % 2 = 1 THEN 7 ELSE -2

(* the measured sizes of a recorded change agree with the formulas (soundness cross-check of the
   trace spec: a disagreement is a conformance gap, never a verdict) *)
MeasuredAgree(ap, as2, c) ==
  c.kind = "eor" \/
    LET nl == NlriLen(c.fam, c.plen, ap[c.fam]) IN
      /\ c.nlriBytes = nl
      /\ c.kind = "ann" => /\ c.attrBytes = c.ab + NhSynth(c.fam, c.nh)
                           /\ c.nhBytes = NhBytesOf(c.fam, c.nh)
                           /\ c.single = SingleLen(c.fam, c.nh, c.ab + NhSynth(c.fam, c.nh) + As2Delta(c.attrs, as2), nl)
=============================================================================
