SPECIFICATION Spec
CONSTANTS
  Peers <- P3
  PInfo <- PI_mixed
  Prefixes = {"x1"}
  LocalAS = 65000
  ApPeers = {"A", "B"}
  ApIds = {1, 2}
  Codes = {0, 2, 4, 5}
  LocalCodes = {0}
  MaxKeys = 2
INVARIANTS
  D_TypeOK
  D_NoGhost
  D_LocFromAdj
  D_Counters
  D_Maximal
  D_AgreesWithSpeaker
  D_Export
