---------------------------- MODULE AdjInAp ----------------------------
(* C02 with ADD-PATH RECEIVE: what the Adj-RIBs-In and the Loc-RIB must hold when neighbours send
   SEVERAL routes per prefix, told apart by the path identifier of RFC 7911.

   PROPERTY LAYER only (there is no mechanism layer in this family: the real code is bound to it
   directly by trace validation, spec/trace/AdjInApTrace.tla).  The state is a function of the
   input history alone:
     up[p]          p has an established session
     inr[p][x][id]  the last un-withdrawn route p announced for (prefix x, path identifier id) on its
                    CURRENT session (NoRoute: none).  A neighbour without ADD-PATH only uses id 0.
     loc[x]         locally injected (API) route for x
     gone           neighbours that have been removed from the configuration
   From these: AdjInExpected(p), LocExpected(x), Received/Accepted, Maximal (the candidates that may
   be listed first), ExportSet.  The rules transcribe the text of property C02 and RFC 4271 3.1/9.1.2,
   RFC 7911 3 ("a BGP speaker that receives a route with a path identifier that it already holds for
   the prefix from that peer replaces it"), not the code.

   The comparison of two routes and the exported form are those of Speaker.tla (instantiated below;
   its state variables are not used here). *)
EXTENDS Integers, Sequences, FiniteSets, TLC

CONSTANTS
  Peers, PInfo, Prefixes, LocalAS,   \* as in Speaker
  ApPeers,      \* the neighbours ADD-PATH receive is negotiated with (they send path identifiers)
  ApIds         \* the path identifiers they use

VARIABLES up, inr, loc, gone
avars == <<up, inr, loc, gone>>

NoRoute == [src |-> "none"]
LOCSRC  == "local"

(* the route vocabulary of Speaker: Better, EffLp, AsLen, AsPath, InPath, FirstAS, Exp, MayAdvertise.
   Only its constant-level definitions are used; its variables are bound to empty values. *)
S == INSTANCE Speaker WITH
       up <- up, loc <- loc,
       inr <- [p \in Peers |-> [x \in Prefixes |-> [src |-> "none"]]],
       impPol <- "acc", expPol <- "acc",
       inrPol <- [p \in Peers |-> [x \in Prefixes |-> "acc"]],
       expEff <- [p \in Peers |-> "acc"]

Ids(p) == IF p \in ApPeers THEN ApIds ELSE {0}
AllIds == ApIds \cup {0}
Key(x, i) == [x |-> x, id |-> i]
Keys(p)   == {Key(x, i) : x \in Prefixes, i \in Ids(p)}

Empty == [x \in Prefixes |-> [i \in AllIds |-> NoRoute]]

Init == /\ up   = [p \in Peers |-> FALSE]
        /\ inr  = [p \in Peers |-> Empty]
        /\ loc  = [x \in Prefixes |-> NoRoute]
        /\ gone = {}

---------------------------------------------------------------------------
(* inputs: one action per real step *)

Up(p)   == p \notin gone /\ ~up[p] /\ up' = [up EXCEPT ![p] = TRUE] /\ UNCHANGED <<inr, loc, gone>>

(* the session ends: everything learned on it is gone (RFC 4271 8.2.2 "releases all resources",
   property text "nothing from a session that has ended") *)
Down(p) == up[p] /\ up' = [up EXCEPT ![p] = FALSE] /\ inr' = [inr EXCEPT ![p] = Empty]
           /\ UNCHANGED <<loc, gone>>

(* ONE UPDATE message of p: withdrawn routes W and announced routes A (sets of keys (x,id)) which
   all carry the attributes of r.  Announce, implicit replace, withdraw, duplicate withdraw,
   withdraw of an identifier never announced and a burst packed into one message are all instances.
   W and A are disjoint (RFC 4271 4.3: the same prefix SHOULD NOT be in both fields; what a speaker
   does with such a message is a SHOULD and is not modelled). *)
Msg(p, W, A, r) ==
  /\ up[p]
  /\ W \cap A = {}
  /\ W \cup A \subseteq Keys(p)
  /\ (A # {} => r.src = p)
  /\ inr' = [inr EXCEPT ![p] = [x \in Prefixes |-> [i \in AllIds |->
               IF Key(x, i) \in A THEN r
               ELSE IF Key(x, i) \in W THEN NoRoute
               ELSE inr[p][x][i]]]]
  /\ UNCHANGED <<up, loc, gone>>

Ann(p, x, i, r) == Msg(p, {}, {Key(x, i)}, r)
Wd(p, x, i)     == Msg(p, {Key(x, i)}, {}, NoRoute)

(* removal ends the session (if any) and everything learned on it; re-addition starts from nothing *)
DelPeer(p) == /\ p \notin gone
              /\ up' = [up EXCEPT ![p] = FALSE] /\ inr' = [inr EXCEPT ![p] = Empty]
              /\ gone' = gone \cup {p} /\ UNCHANGED loc
AddPeer(p) == p \in gone /\ gone' = gone \ {p} /\ UNCHANGED <<up, inr, loc>>

ApiAdd(x, r) == r.src = LOCSRC /\ loc' = [loc EXCEPT ![x] = r] /\ UNCHANGED <<up, inr, gone>>
ApiDel(x)    == loc' = [loc EXCEPT ![x] = NoRoute] /\ UNCHANGED <<up, inr, gone>>

(* soft reset in (no policy configured): re-evaluates what is stored; must change nothing *)
ResetIn(t)   == UNCHANGED avars

(* several UPDATEs written back to back and the session closed / the neighbour removed at once,
   while the speaker may still be working on them: whatever it had got to, nothing of it stays *)
Flood(p, end) == IF end = "DelPeer" THEN DelPeer(p) ELSE Down(p)

KeySet(s) == {s[i] : i \in 1..Len(s)}

(* the step described by a logged record (schedules of AdjInApGen, rows of a recorded trace) *)
Do(e) == CASE e.ev = "Up"      -> Up(e.p)
           [] e.ev = "Down"    -> Down(e.p)
           [] e.ev = "Msg"     -> Msg(e.p, KeySet(e.wd), KeySet(e.ann), e.r)
           [] e.ev = "Flood"   -> Flood(e.p, e.end)
           [] e.ev = "DelPeer" -> DelPeer(e.p)
           [] e.ev = "AddPeer" -> AddPeer(e.p)
           [] e.ev = "ApiAdd"  -> ApiAdd(e.x, e.r)
           [] e.ev = "ApiDel"  -> ApiDel(e.x)
           [] e.ev = "ResetIn" -> ResetIn(e.p)
           [] OTHER            -> FALSE

---------------------------------------------------------------------------
(* what the RIBs must hold *)

(* loop check (RFC 4271 9.1.2: a route whose AS_PATH contains the speaker's own AS is excluded from
   the decision process).  Property text: such a route is kept in the Adj-RIB-In, flagged. *)
Rej(r) == S!InPath(LocalAS, r)

(* Adj-RIB-In of p: exactly the most recent un-withdrawn route per (destination, path identifier) *)
AdjInExpected(p) ==
  {[x |-> k.x, id |-> k.id, src |-> inr[p][k.x][k.id].src, v |-> inr[p][k.x][k.id].v,
    rej |-> Rej(inr[p][k.x][k.id])] : k \in {q \in Keys(p) : inr[p][q.x][q.id] # NoRoute}}

(* Loc-RIB entry of destination x: those of them that passed the loop checks, plus the local route;
   one per (source, path identifier) *)
LocExpected(x) ==
  {[src |-> p, id |-> i, r |-> inr[p][x][i]] :
       <<p, i>> \in {q \in Peers \X AllIds : inr[q[1]][x][q[2]] # NoRoute /\ ~Rej(inr[q[1]][x][q[2]])}}
  \cup (IF loc[x] # NoRoute THEN {[src |-> LOCSRC, id |-> 0, r |-> loc[x]]} ELSE {})

NumReceived(p) == Cardinality(AdjInExpected(p))
NumAccepted(p) == Cardinality({e \in AdjInExpected(p) : ~e.rej})

(* the documented decision order.  S!Better: LOCAL_PREF, then local origin, then AS_PATH length
   (RFC 4271 9.1.1, 9.1.2.2 a).  Next documented step that can separate two routes of this
   vocabulary: MULTI_EXIT_DISC between routes learned from the same neighbouring AS, a missing MED
   counting as the lowest value (9.1.2.2 c).  Every later step (age, router id, neighbour address)
   cannot tell two paths of one neighbour apart in a way the property fixes: such candidates TIE and
   either may be listed first. *)
Med0(r) == IF r.med = -1 THEN 0 ELSE r.med
DocBetter(a, b) ==
  \/ S!Better(a, b)
  \/ /\ ~S!Better(b, a)
     /\ S!FirstAS(a) # 0 /\ S!FirstAS(a) = S!FirstAS(b)
     /\ Med0(a) < Med0(b)

Maximal(T) == {a \in T : \A b \in T : ~DocBetter(b.r, a.r)}

(* what neighbour p may hold for x: the exported form of a candidate that may be the best *)
ExportRec(r, p) == IF S!MayAdvertise(r, p) THEN S!Exp(r, p) ELSE NoRoute
ExportSet(p, x) == IF LocExpected(x) = {} THEN {NoRoute}
                   ELSE {ExportRec(b.r, p) : b \in Maximal(LocExpected(x))}

(* non-trivial for the ADD-PATH part of C02: ONE neighbour holds two or more paths for one prefix *)
MultiPath == \E p \in Peers : \E x \in Prefixes :
               Cardinality({i \in AllIds : inr[p][x][i] # NoRoute}) >= 2
=============================================================================
