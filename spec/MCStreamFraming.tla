---------------------------- MODULE MCStreamFraming ----------------------------
(* C19 (B), mechanism layer + exhaustive small-scope pool: the consumer loop around a stream splitter
   (bufio.Scanner: deliver some more octets, call the splitter on what is buffered, drop what it
   consumed), for every stream of up to three records with lengths around the header size and every
   chunking.  The splitter is the property-layer SplitSpec of StreamFraming.tla. *)
EXTENDS StreamFraming

---------------------------------------------------------------------------
(* the consumer loop, abstractly: records are known by their lengths only *)
CONSTANTS Streams,     \* set of streams; a stream = sequence of record lengths (each >= Hdr)
          Hdr          \* header size of the format

VARIABLES recs,        \* the stream being read
          delivered,   \* octets of the stream handed to the scanner so far
          consumed,    \* octets dropped from the front of the buffer (= start of the next record)
          tokens,      \* lengths of the tokens handed out
          eof          \* the reader has reported end of stream
svars == <<recs, delivered, consumed, tokens, eof>>

RECURSIVE Sum(_, _)
Sum(s, k) == IF k = 0 THEN 0 ELSE s[k] + Sum(s, k - 1)
Total == Sum(recs, Len(recs))
(* the record that starts at stream offset o (offsets of record starts only) *)
RecAt(o) == CHOOSE i \in 1..Len(recs) : Sum(recs, i - 1) = o

SInit == recs \in Streams /\ delivered = 0 /\ consumed = 0 /\ tokens = <<>> /\ eof = FALSE

Deliver == /\ delivered < Total /\ ~eof
           /\ \E c \in 1..(Total - delivered) : delivered' = delivered + c
           /\ UNCHANGED <<recs, consumed, tokens, eof>>
Eof     == delivered = Total /\ ~eof /\ eof' = TRUE /\ UNCHANGED <<recs, delivered, consumed, tokens>>
(* one call of the splitter on the buffered octets [consumed, delivered) *)
Buffered == delivered - consumed
CallSplit ==
  /\ consumed < Total
  /\ LET n == Buffered
         d == [huge |-> FALSE, val |-> recs[RecAt(consumed)]]
         r == SplitSpec(n, [hdr |-> Hdr], d)
     IN /\ r.tok
        /\ consumed' = consumed + r.adv
        /\ tokens' = Append(tokens, r.len)
  /\ UNCHANGED <<recs, delivered, eof>>
SNext == Deliver \/ Eof \/ CallSplit
SSpec == SInit /\ [][SNext]_svars /\ WF_svars(SNext)

D_Bounded == consumed <= delivered /\ delivered <= Total
D_TokensArePrefix == /\ Len(tokens) <= Len(recs)
                     /\ \A i \in 1..Len(tokens) : tokens[i] = recs[i]
                     /\ consumed = Sum(recs, Len(tokens))
(* nothing is left over: once everything is delivered and no call yields a token, all records are out *)
D_TokensAreRecords == (delivered = Total /\ ~ENABLED CallSplit) => tokens = recs
(* the loop never stalls with a complete record buffered *)
D_Progress == (consumed < Total /\ Buffered >= recs[RecAt(consumed)]) => ENABLED CallSplit
D_Done == <>(tokens = recs)

MC_Lens == {Hdr, Hdr + 1, Hdr + 4}
MC_Streams == {<<a>> : a \in MC_Lens} \cup {<<a, b>> : a \in MC_Lens, b \in MC_Lens}
              \cup {<<a, b, c>> : a \in MC_Lens, b \in MC_Lens, c \in MC_Lens}
=============================================================================
