SPECIFICATION TraceSpec
CONSTRAINT TraceConstraint
POSTCONDITION TraceAccepted
CHECK_DEADLOCK FALSE
INVARIANTS
  C06_MandatoryLocalPref
  C06_NeverWeaker
  C06_TawRemovesAll
  C06_NeverInstalledMalformed
  C06_MandatoryPresent
  C06_ResetOnlyIfCalledFor
  C06_Code
  C06_ResetRemovesAll
  C06_WellFormedNotPenalised
