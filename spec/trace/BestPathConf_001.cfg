SPECIFICATION TraceSpec
CONSTANTS
  Sources <- AllSources
  SrcInfo <- SrcTable
  Opt <- Opt001
CONSTRAINT TraceConstraint
POSTCONDITION TraceAccepted
CHECK_DEADLOCK FALSE
INVARIANTS
  Conf_List







