---------------------------- MODULE BfdRegTrace ----------------------------
(* Trace spec of the BFD helper lifecycle (C20): recorded executions of the REAL BgpServer (harness/c20bfd:
   StartBgp / AddPeer / UpdatePeer / DeletePeer / StopBgp through the public API, then Stop) are judged by
   the PROPERTY layer of BfdReg.tla: the configuration is reconstructed from the operations alone, what
   the harness observed after each operation (registry of the BFD server, multiplier of every helper,
   number of goroutines inside bfdPeer.loop) must be exactly what that configuration demands.
   The mechanism variable `reg` follows the model's own call-site rules and is only compared with the
   observation by the informational Conf_ invariant. *)
EXTENDS BfdReg, TraceUtil

VARIABLES l, cur, dead
tvars == <<grp, phase, cfg, reg, l, cur, dead>>

NoObs == [reg |-> <<>>, gor |-> 0, srv |-> 0]
NoRow == [ev |-> "none", err |-> "", obs |-> NoObs]

TraceInit == Init /\ l = 1 /\ cur = NoRow /\ dead = FALSE

Row == Trace[l]
RowConf == Conf(Row.bfd, Row.mult, Row.asn)
Take == l' = l + 1 /\ cur' = Row

TrReset == /\ l <= TLen /\ Row.ev = "Reset" /\ Take /\ dead' = FALSE
           /\ phase' = "new" /\ cfg' = [n \in Nbrs |-> Absent] /\ reg' = [n \in Nbrs |-> 0] /\ grp' = Absent
TrStart == /\ l <= TLen /\ Row.ev = "Start" /\ Take /\ StartBgp /\ UNCHANGED dead
TrStop  == /\ l <= TLen /\ Row.ev = "Stop" /\ Take /\ StopBgp /\ UNCHANGED dead
TrAdd   == /\ l <= TLen /\ Row.ev = "Add" /\ Take /\ AddPeer(Row.n, RowConf) /\ UNCHANGED <<phase, dead>>
TrUpd   == /\ l <= TLen /\ Row.ev = "Upd" /\ Take /\ UpdatePeer(Row.n, RowConf) /\ UNCHANGED <<phase, dead>>
TrAddGroup == /\ l <= TLen /\ Row.ev = "AddGroup" /\ Take /\ AddGroup(RowConf) /\ UNCHANGED dead
TrUpdGroup == /\ l <= TLen /\ Row.ev = "UpdGroup" /\ Take /\ UpdateGroup(RowConf) /\ UNCHANGED dead
TrAddMember == /\ l <= TLen /\ Row.ev = "AddMember" /\ Take /\ AddMember(Row.n) /\ UNCHANGED dead
TrDel   == /\ l <= TLen /\ Row.ev = "Del" /\ Take /\ DeletePeer(Row.n) /\ UNCHANGED dead
(* BgpServer.Stop: the whole speaker goes away, whatever was configured *)
TrShutdown == /\ l <= TLen /\ Row.ev = "Shutdown" /\ Take /\ dead' = TRUE
              /\ phase' = "stopped" /\ cfg' = [n \in Nbrs |-> Absent] /\ reg' = [n \in Nbrs |-> 0] /\ UNCHANGED grp

TraceNext == TrReset \/ TrStart \/ TrStop \/ TrAdd \/ TrUpd \/ TrDel \/ TrShutdown \/ TrAddGroup \/ TrUpdGroup \/ TrAddMember
TraceSpec == TraceInit /\ [][TraceNext]_tvars

TraceConstraint == Hwm(l)
TraceAccepted == Accepted

---------------------------------------------------------------------------
(* observed registry as a function Nbrs -> multiplier (0 = no helper) *)
ObsMult(o, n) == LET S == {i \in 1..Len(o.reg) : o.reg[i][1] = n}
                 IN IF S = {} THEN 0 ELSE o.reg[CHOOSE i \in S : TRUE][2]
ObsFn(o) == [n \in Nbrs |-> ObsMult(o, n)]
Want == Expected(cfg)
NWant == Cardinality({n \in Nbrs : Want[n] # 0})

Judged == cur.ev # "none" /\ cur.ev # "Reset"

(* the management call itself must have succeeded: the generator only emits enabled operations *)
(* UpdatePeerGroup is exempt: AS OBSERVED, DeletePeer does not take a neighbour off its group's member list (the
   request carries no group name), and a later UpdatePeerGroup then answers "neighbor that has ... doesn't
   exist" - after it has replaced the group's configuration, which is all the model says it does *)
Gap_OpSucceeded == (Judged /\ cur.ev # "UpdGroup") => cur.err = ""
(* the model of the call sites agrees with what was observed (informational) *)
Conf_Mechanism == Judged => ObsFn(cur.obs) = reg

(* a helper runs for exactly the neighbours configured now with BFD enabled; none for a neighbour that
   was deleted, stopped with the speaker, or whose BFD was switched off - whatever else changed in the
   same operation *)
C20_BfdHelperSet ==
  Judged => /\ {n \in Nbrs : ObsMult(cur.obs, n) # 0} = {n \in Nbrs : Want[n] # 0}
            /\ NoteIf(NWant > 0 \/ cur.ev \in {"Del", "Stop", "Shutdown", "UpdGroup"}, <<cur.ev, Want>>)
(* ... and with the parameters of the current configuration, not those of an earlier one *)
C20_BfdHelperParams ==
  Judged => \A n \in Nbrs : Want[n] # 0 /\ ObsMult(cur.obs, n) # 0 => ObsMult(cur.obs, n) = Want[n]
(* goroutines: one bfdPeer.loop per helper that should run, no other; nothing of the BFD server is left
   after Stop *)
C20_BfdNoGoroutineLeak ==
  Judged => /\ cur.obs.gor = NWant
            /\ (dead => cur.obs.srv = 0)
=============================================================================
