---------------------------- MODULE RpkiTrace ----------------------------
(* Trace spec of C16, end to end: validates executions of the REAL BgpServer + RTR client against
   loopback caches (harness/c16srv) against Rpki.tla.
   One line = one step (management call, one RTR PDU sent by a cache, connection loss, route
   injection) followed by what ListRpkiTable / ListRpki / ListPath reported once the client had
   consumed everything.  `qs` = the queries the caches read from the wire during the step (inputs
   from the caches' point of view); `q` = the query a Cache Response / Cache Reset answers.
   The C16_* invariants compare the recorded observation with the PROPERTY layer only. *)
EXTENDS Rpki, RpkiDom, TraceUtil

VARIABLES l, cur
tvars == <<ps, ms, tbl, l, cur>>

NoRow == [ev |-> "none", obs |-> [table |-> <<>>, val |-> <<>>, srv |-> <<>>]]

TraceInit == Init /\ l = 1 /\ cur = NoRow

Row == Trace[l]
IsEvent(e) == l <= TLen /\ Row.ev = e /\ l' = l + 1 /\ cur' = Row
(* the queries cache c read during this step *)
Qs(c) == LET mine == SelectSeq(Row.qs, LAMBDA x : x[1] = c) IN [i \in 1..Len(mine) |-> mine[i][2]]
Stay == UNCHANGED vars

TrReset == /\ l <= TLen /\ Row.ev = "Reset" /\ l' = l + 1 /\ cur' = NoRow
          /\ Assert(Row.localas = LocalAS, "trace recorded with another local AS")
          /\ ps' = [c \in Caches |-> PInit] /\ ms' = [c \in Caches |-> MInit] /\ tbl' = [c \in Caches |-> {}]

TrAddRpki == /\ IsEvent("AddRpki")
            /\ IF Row.ok THEN AddRpki(Row.c, Qs(Row.c)) ELSE (ms[Row.c].cfg /\ Stay)
TrDeleteRpki == /\ IsEvent("DeleteRpki")
               /\ IF Row.ok THEN DeleteRpki(Row.c) ELSE Stay      \* a refused call changes nothing
TrBounce == IsEvent("Bounce") /\ Bounce(Row.c, Qs(Row.c))
TrResetRpki == /\ (IsEvent("ResetRpki") \/ IsEvent("DisableRpki"))
              /\ IF Row.ok THEN ResetRpki(Row.c, Qs(Row.c)) ELSE (~ms[Row.c].cfg /\ Stay)
TrSoftReset == /\ IsEvent("SoftResetRpki")
              /\ IF Row.ok THEN SoftResetRpki(Row.c, Qs(Row.c)) ELSE (~ms[Row.c].cfg /\ Stay)
TrEnable == /\ IsEvent("EnableRpki")
           /\ IF Row.ok THEN EnableRpki(Row.c, Qs(Row.c)) ELSE (~ms[Row.c].cfg /\ Stay)
TrResp == /\ IsEvent("Resp")
         /\ ps[Row.c].cq # <<>> /\ Row.q = Head(ps[Row.c].cq)
         /\ Resp(Row.c)
TrPfx == IsEvent("Pfx") /\ Pfx(Row.c, Row.ann, Row.r)
TrEod == IsEvent("Eod") /\ Eod(Row.c, Row.sid, Row.sn)
TrNotify == IsEvent("Notify") /\ Notify(Row.c, Row.sn, Qs(Row.c))
TrCacheReset == /\ IsEvent("CacheReset")
               /\ Row.q = (IF ps[Row.c].cq # <<>> /\ Head(ps[Row.c].cq) = "serial" THEN "serial" ELSE "none")
               /\ CacheReset(Row.c, Qs(Row.c))
TrError == IsEvent("ErrorReport") /\ ErrorReport(Row.c)
TrInject == IsEvent("Inject") /\ Row.ok /\ Stay

TraceNext == \/ TrReset \/ TrAddRpki \/ TrDeleteRpki \/ TrBounce \/ TrResetRpki \/ TrSoftReset \/ TrEnable
             \/ TrResp \/ TrPfx \/ TrEod \/ TrNotify \/ TrCacheReset \/ TrError \/ TrInject
TraceSpec == TraceInit /\ [][TraceNext]_tvars

TraceConstraint == Hwm(l)
TraceAccepted == Accepted

---------------------------------------------------------------------------
(* observations *)
Rows == SeqToSet(cur.obs.table)
Strip(x) == [p |-> x.p, m |-> x.m, a |-> x.a]
ObsTable(c) == {Strip(x) : x \in {y \in Rows : y.c = c}}
ObsAll == {Strip(x) : x \in Rows}
Stale(c) == ObsTable(c) \ ps[c].hi
Foreign == {x \in Rows : x.c \notin Caches}          \* listed under a source that is no configured cache
Val == cur.obs.val
Injected == DOMAIN Val
AnyCache == \E c \in Caches : ps[c].cfg

(* ---- C16_Table: "the ROA table equals the records announced and not withdrawn by the configured
   caches", split by what is wrong so that a rejection names the facet ---- *)

(* nothing that must be there is missing *)
C16_TableNothingMissing ==
  /\ \A c \in Caches : ps[c].lo \subseteq ObsTable(c)
  /\ NoteIf(\E c \in Caches : Exact(c) /\ ps[c].hi # {},
            <<"table", [c \in Caches |-> <<ps[c].cfg, ps[c].lo, ps[c].hi>>], cur.ev>>)

(* no record that the cache announced and withdrew inside one response *)
C16_TableWithdrawnInResponse == \A c \in Caches : Stale(c) \cap ps[c].kfA = {}
(* no record left over from before a complete reload under the same session id *)
C16_TableReloadSameSession == \A c \in Caches : Stale(c) \cap ps[c].kfC = {}
(* no other record that is not (or no longer) announced; nothing under an unknown source *)
C16_TableNoOtherStale == /\ \A c \in Caches : Stale(c) \subseteq (ps[c].kfA \cup ps[c].kfC)
                         /\ Foreign = {}

(* KNOWN FINDINGS KF-C16-withdraw-in-response / KF-C16-reload-same-session: the weakened upper
   bound tolerates exactly the stale records that the code-shaped model (Rpki.tla mechanism layer
   without the repairs) also keeps. *)
C16_Table_KF == /\ \A c \in Caches : Stale(c) \subseteq (tbl[c] \ ps[c].hi)
                /\ Foreign = {}

(* ---- C16_Validate: the validation state ListPath reports for every injected route is the RFC 6811
   verdict over the ROA set the table holds (as listed at the same quiescent point) ---- *)
Expect(n) == Validate(ObsAll, RouteTable[n])
ValOk(n, want) == IF AnyCache THEN Val[n] = want ELSE Val[n] \in {"none", "notfound"}   \* no cache: RPKI is off

C16_Validate ==
  /\ \A n \in Injected \ E2ELocalRule : n \in E2ERouteNames /\ ValOk(n, Expect(n))
  /\ \A n \in Injected \ E2ELocalRule :
        NoteIf(Covering(ObsAll, RouteTable[n]) # {}, <<"val", n, Covering(ObsAll, RouteTable[n])>>)
(* routes whose origin AS is the local AS (empty / confederation-only AS_PATH) *)
C16_ValidateLocalAS == \A n \in Injected \cap E2ELocalRule : ValOk(n, Expect(n))
(* KNOWN FINDING KF-C16-local-as: for a route injected through the API the code takes 0 as the
   local AS, so no ROA can match *)
C16_ValidateLocalAS_KF == \A n \in Injected \cap E2ELocalRule :
                            ValOk(n, Expect(n)) \/ ValOk(n, ValidateLas(ObsAll, RouteTable[n], 0))

(* ---- C16_PolicyAgrees: the policy condition rpki-validation-result saw, when the route was
   injected, the verdict that the validation reports at that moment ---- *)
C16_PolicyAgrees ==
  (cur.ev = "Inject") =>
     /\ cur.mark \in {"valid", "invalid", "notfound"}
     /\ (cur.mark = Val[cur.rt] \/ (Val[cur.rt] = "none" /\ cur.mark = "notfound"))
     /\ NoteIf(cur.mark # "notfound", <<"pol", cur.rt, cur.mark>>)

(* ---- informational: the code follows the mechanism model ---- *)
Conf_Table == \A c \in Caches : ObsTable(c) = tbl[c]
Conf_Serial == \A c \in Caches : ms[c].cfg => (c \in DOMAIN cur.obs.srv /\ cur.obs.srv[c].serial = ms[c].serial)
=============================================================================
