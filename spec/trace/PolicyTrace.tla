---------------------------- MODULE PolicyTrace ----------------------------
(* Validates executions of the real policy code against Policy.tla.
   Producers: harness/c10 (white box: table.RoutingPolicy + ApplyPolicy) and harness/c10srv
   (a running BgpServer driven through the public API, read back with the List calls).
   Lines:  Reset | Cfg(op, res [, rb]) | Eval(op, obs) | Dump(rb)
   The C10_* invariants compare what the code REPORTED with the property layer (Eval / the
   configured program P); Conf_* compare with the mechanism layer (informational). *)
EXTENDS Policy, TraceUtil

VARIABLES l, P, last, exp
tvars == <<l, P, last, exp>>

NoLine == [ev |-> "none"]
NoExp  == [e1 |-> Res("und", W(Route(P4("0.0.0.0/0", 0, 0, 0, 0, 0), "local", "", <<>>, 0, -1, -1, <<>>, <<>>, <<>>, "valid", FALSE)), 0),
           e2 |-> Res("und", W(Route(P4("0.0.0.0/0", 0, 0, 0, 0, 0), "local", "", <<>>, 0, -1, -1, <<>>, <<>>, <<>>, "valid", FALSE)), 0)]

(* JSON arrays arrive as tuples; the spec state holds sets *)
JCond(c) == [c EXCEPT !.list = SeqToSet(@)]
JAct(a)  == [a EXCEPT !.vals = SeqToSet(@)]
JStmt(s) == Stmt(s.name, {JCond(c) : c \in SeqToSet(s.conds)}, {JAct(a) : a \in SeqToSet(s.acts)}, s.disp)
JOp(o) ==
  CASE o.op \in {"AddSet", "DelSet"}   -> [o EXCEPT !.members = SeqToSet(@)]
    [] o.op \in {"AddStmt", "DelStmt"} -> [o EXCEPT !.stmt = JStmt(@)]
    [] o.op \in {"AddPol", "DelPol"}   -> [o EXCEPT !.stmts = [i \in 1..Len(@) |-> JStmt(@[i])]]
    [] OTHER -> o

TraceInit == l = 1 /\ P = EmptyProgram /\ last = NoLine /\ exp = NoExp

IsEvent(e) == l <= TLen /\ Trace[l].ev = e /\ l' = l + 1

TReset == /\ IsEvent("Reset")
          /\ P' = EmptyProgram /\ last' = Trace[l] /\ exp' = NoExp

(* a config step: the op is one the model considers valid; the API answered ok *)
TCfg == /\ IsEvent("Cfg")
        /\ LET o == JOp(Trace[l].op) IN
             /\ Assert(Valid(P, o), <<"schedule holds an operation the model considers invalid", o>>)
             /\ Trace[l].res = "ok"
             /\ P' = Apply(P, o)
        /\ last' = Trace[l] /\ exp' = NoExp

TEval == /\ IsEvent("Eval")
         /\ LET o == Trace[l].op
                e1 == Eval(P, o.route, o.d1, o.p1, CodeAmb(o.d1))
                e2 == Eval(P, o.route, o.d2, o.p2, CodeAmb(o.d2))
            IN /\ exp' = [e1 |-> e1, e2 |-> e2]
               \* non-trivial: at least one statement applied to the route in one of the evaluations
               /\ NoteIf(e1.hits + e2.hits >= 1, <<o, Flat(P, o.d1), Flat(P, o.d2)>>)
         /\ UNCHANGED P /\ last' = Trace[l]

TDump == /\ IsEvent("Dump")
         /\ UNCHANGED P /\ last' = Trace[l] /\ exp' = NoExp

TraceNext == TReset \/ TCfg \/ TEval \/ TDump
TraceSpec == TraceInit /\ [][TraceNext]_tvars

TraceConstraint == Hwm(l)
TraceAccepted == Accepted

---------------------------------------------------------------------------
IsEval == last.ev = "Eval"
Op     == last.op
Obs    == last.obs

(* one of the two evaluations of an Eval line agrees with some admissible reading of the document *)
VerdictSome(d, p, e, v) ==
  \/ VerdictOK(P, d, e, v)
  \/ \E amb \in AmbSpace : VerdictOK(P, d, Eval(P, Op.route, d, p, amb), v)
ResultSome(d, p, e, v, attrs) ==
  \/ ResultOK(P, d, e, v, attrs)
  \/ \E amb \in AmbSpace : ResultOK(P, d, Eval(P, Op.route, d, p, amb), v, attrs)

(* accept / reject equals the documented interpreter *)
C10_Verdict == IsEval => /\ VerdictSome(Op.d1, Op.p1, exp.e1, Obs.r1.v)
                         /\ VerdictSome(Op.d2, Op.p2, exp.e2, Obs.r2.v)

(* the attributes of an accepted route equal the documented interpreter's *)
C10_Attrs == IsEval => /\ Obs.r1.attrs.unk = <<>> /\ Obs.r2.attrs.unk = <<>>
                       /\ ResultSome(Op.d1, Op.p1, exp.e1, Obs.r1.v, Obs.r1.attrs)
                       /\ ResultSome(Op.d2, Op.p2, exp.e2, Obs.r2.v, Obs.r2.attrs)

(* the stored path projects to the input route before and after both evaluations, and the result
   handed out for the first (direction, peer) still projects to the same values after the policy
   has run for the second one *)
StoredIs(s, r) == /\ s.nh = r.nh /\ s.aspath = r.aspath /\ s.origin = r.origin /\ s.med = r.med /\ s.lp = r.lp
                  /\ s.comm = r.comm /\ s.ext = r.ext /\ s.large = r.large /\ s.unk = <<>>
C10_StoredUnchanged == IsEval => /\ StoredIs(Obs.stored0, Op.route)
                                 /\ StoredIs(Obs.stored1, Op.route)
                                 /\ (Obs.r1.v = "accept" => Obs.r1again = Obs.r1.attrs)

(* read-back: what the List / Get calls report equals the configured program *)
HasRb == last.ev \in {"Cfg", "Dump"} /\ Has(last, "rb")
Rb    == last.rb
RbSets == /\ {[kind |-> x.kind, name |-> x.name, members |-> SeqToSet(x.members)] : x \in SeqToSet(Rb.sets)}
               = {[kind |-> P.dsets[n].kind, name |-> n, members |-> P.dsets[n].members] : n \in DOMAIN P.dsets}
          /\ Len(Rb.sets) = Cardinality(DOMAIN P.dsets)
RbStmts == /\ {JStmt(s) : s \in SeqToSet(Rb.stmts)} = Range(P.stmts)
           /\ Len(Rb.stmts) = Cardinality(DOMAIN P.stmts)
RbPols == /\ {x.name : x \in SeqToSet(Rb.pols)} = DOMAIN P.pols
          /\ Len(Rb.pols) = Cardinality(DOMAIN P.pols)
          /\ \A x \in SeqToSet(Rb.pols) : x.name \in DOMAIN P.pols =>
               [i \in 1..Len(x.stmts) |-> JStmt(x.stmts[i])]
                 = [i \in 1..Len(P.pols[x.name]) |-> P.stmts[P.pols[x.name][i]]]
RbAsg == \A x \in SeqToSet(Rb.asg) :
           /\ x.pols = P.asg[x.dir].pols
           /\ x.def \in P.asg[x.dir].def
C10_ReadBack == HasRb => RbSets /\ RbStmts /\ RbPols /\ RbAsg

---------------------------------------------------------------------------
(* informational: the code follows the mechanism model exactly *)
MObsEq(d, p, o) ==
  LET m == MEval(P, Op.route, d, p) IN
    /\ o.v = MVerdict(P, d, m)
    /\ o.v = "accept" => /\ o.attrs.nh = m.r.nh /\ o.attrs.aspath = m.r.aspath /\ o.attrs.med = m.r.med
                         /\ o.attrs.lp = m.r.lp /\ o.attrs.origin = m.r.origin /\ o.attrs.comm = m.r.comm
Conf_Mech == IsEval => MObsEq(Op.d1, Op.p1, Obs.r1) /\ MObsEq(Op.d2, Op.p2, Obs.r2)
=============================================================================
