---------------------------- MODULE PolicyTrace ----------------------------
(* Validates executions of the real policy code against Policy.tla.
   Producers: harness/c10 (white box: table.RoutingPolicy + ApplyPolicy) and harness/c10srv
   (a running BgpServer driven through the public API, read back with the List calls).
   Lines:  Reset | Cfg(op, res [, rb]) | Eval(op, obs) | Dump(rb)
   The C10_* invariants compare what the code REPORTED with the property layer (Eval / the
   configured program P); Conf_* compare with the mechanism layer (informational).

   Recorded findings (findings_proposed/C10-*.md): `kf` remembers which objects of the running
   trace have been through an input shape of a recorded finding.  The strict invariants ignore
   `kf`; the narrow invariants C10_<Main>_<Situation> are the strict ones restricted to such a
   situation (listed first in PolicyTrace.cfg so that a rejection names the situation); the *_KF
   invariants (PolicyTraceKF.cfg) tolerate exactly the recorded wrong behaviour in that situation. *)
EXTENDS Policy, TraceUtil

VARIABLES l, P, last, exp, kf, via
tvars == <<l, P, last, exp, kf, via>>

NoLine  == [ev |-> "none"]
NoRoute == Route(P4("0.0.0.0/0", 0, 0, 0, 0, 0), "local", "", <<>>, 0, -1, -1, <<>>, <<>>, <<>>, "valid", FALSE)
NoExp   == [e1 |-> Res("und", W(NoRoute), 0), e2 |-> Res("und", W(NoRoute), 0)]
NoKf    == [stale |-> {}, dead |-> FALSE, dirs |-> {}]

(* JSON arrays arrive as tuples; the spec state holds sets *)
JCond(c) == [c EXCEPT !.list = SeqToSet(@)]
JAct(a)  == [a EXCEPT !.vals = SeqToSet(@)]
JStmt(s) == Stmt(s.name, {JCond(c) : c \in SeqToSet(s.conds)}, {JAct(a) : a \in SeqToSet(s.acts)}, s.disp)
JOp(o) ==
  CASE o.op \in {"AddSet", "DelSet"}   -> [o EXCEPT !.members = SeqToSet(@)]
    [] o.op \in {"AddStmt", "DelStmt"} -> [o EXCEPT !.stmt = JStmt(@)]
    [] o.op \in {"AddPol", "DelPol"}   -> [o EXCEPT !.stmts = [i \in 1..Len(@) |-> JStmt(@[i])]]
    [] OTHER -> o

---------------------------------------------------------------------------
(* input shapes of the recorded findings *)

(* KF-C10-delstmt-multi: DeleteStatement(all=false) naming >= 2 conditions or >= 2 actions *)
MultiCut(o) == o.op = "DelStmt" /\ ~o.all /\ (Cardinality(o.stmt.conds) >= 2 \/ Cardinality(o.stmt.acts) >= 2)
(* KF-C10-set-replace-stale: AddDefinedSet(replace=true) on a set that statements refer to *)
StaleBy(o) == IF o.op = "AddSet" /\ o.replace /\ o.name \in DOMAIN P.dsets
              THEN {n \in DOMAIN P.stmts : o.name \in SetsUsedBy(P.stmts[n])} ELSE {}
(* KF-C10-delasg-default: DeletePolicyAssignment(all=true) *)
UnsetsDefault(o) == o.op = "DelAsg" /\ o.all

KfAfter(o) ==
  [stale   |-> (kf.stale \cup StaleBy(o)) \ (IF o.op = "DelStmt" /\ o.all THEN {o.stmt.name} ELSE {}),
   \* the multi-cut removes the wrong conditions/actions or crashes half-way: from here on the
   \* program held by the code is unknown, the rest of the trace is not judged
   dead    |-> kf.dead \/ MultiCut(o) \/ (MustRefuse(P, o) /\ Trace[l].res = "ok"),
   dirs    |-> IF UnsetsDefault(o) THEN kf.dirs \cup {o.dir}
               ELSE IF o.op \in {"SetAsg", "AddAsg"} /\ o.def # "none" THEN kf.dirs \ {o.dir}
               ELSE kf.dirs]

---------------------------------------------------------------------------
TraceInit == l = 1 /\ P = EmptyProgram /\ last = NoLine /\ exp = NoExp /\ kf = NoKf /\ via = "wb"

IsEvent(e) == l <= TLen /\ Trace[l].ev = e /\ l' = l + 1

TReset == /\ IsEvent("Reset")
          /\ P' = EmptyProgram /\ last' = Trace[l] /\ exp' = NoExp /\ kf' = NoKf
          /\ via' = IF Has(Trace[l], "via") THEN Trace[l].via ELSE "wb"

(* a config step.  res = "ok": applied.  res = "panic": the call crashed (judged by
   C10_ConfigNoCrash).  Any other answer to an operation the model considers valid is a
   conformance gap (no action matches), except after the program has been corrupted by the
   recorded finding KF-C10-delstmt-multi (kf.dead). *)
TCfg == /\ IsEvent("Cfg")
        /\ LET o == JOp(Trace[l].op)
               refused == Trace[l].res \notin {"ok", "panic"}
           IN
             \* (IF, not \/: TLC splits a disjunction of an action into sub-actions and would evaluate the Assert)
             /\ IF kf.dead THEN TRUE
                ELSE Assert(Valid(P, o), <<"schedule holds an operation the model considers invalid", o>>)
             /\ IF kf.dead \/ MustRefuse(P, o) THEN TRUE ELSE Trace[l].res \in {"ok", "panic"}
             /\ P' = IF kf.dead /\ ~Valid(P, o) THEN P
                     \* KF-C10-delpol-assigned: the call that must be refused was accepted; the policy
                     \* is gone but the assignment still lists it (judged by C10_ReadBack_NoDangling)
                     ELSE IF MustRefuse(P, o) /\ ~refused THEN [P EXCEPT !.pols = Drop(@, {o.name})]
                     ELSE IF refused THEN P
                     ELSE Apply(P, o)
             /\ kf' = KfAfter(o)
        /\ last' = Trace[l] /\ exp' = NoExp /\ UNCHANGED via

TEval == /\ IsEvent("Eval")
         /\ IF \A d \in Dirs : SeqToSet(P.asg[d].pols) \subseteq DOMAIN P.pols
            THEN LET o == Trace[l].op
                     e1 == Eval(P, o.route, o.d1, o.p1, CodeAmb(o.d1))
                     e2 == Eval(P, o.route, o.d2, o.p2, CodeAmb(o.d2))
                 IN /\ exp' = [e1 |-> e1, e2 |-> e2]
                    \* non-trivial: at least one statement applied to the route in one of the evaluations
                    /\ NoteIf(~kf.dead /\ e1.hits + e2.hits >= 1, <<o, Flat(P, o.d1), Flat(P, o.d2)>>)
            ELSE exp' = NoExp      \* an assignment lists a deleted policy (KF-C10-delpol-assigned): not judged
         /\ UNCHANGED <<P, kf, via>> /\ last' = Trace[l]

TDump == /\ IsEvent("Dump")
         /\ UNCHANGED <<P, kf, via>> /\ last' = Trace[l] /\ exp' = NoExp

TraceNext == TReset \/ TCfg \/ TEval \/ TDump
TraceSpec == TraceInit /\ [][TraceNext]_tvars

TraceConstraint == Hwm(l)
TraceAccepted == Accepted

---------------------------------------------------------------------------
(* an assignment never lists a policy that has been deleted (the model state only gets there when
   the code ACCEPTED the deletion of an assigned policy, which it must refuse) *)
NoDangling == \A d \in Dirs : SeqToSet(P.asg[d].pols) \subseteq DOMAIN P.pols
IsEval == last.ev = "Eval" /\ NoDangling
Op     == last.op
Obs    == last.obs

(* one evaluation agrees with some admissible reading of the document *)
VerdictSome(d, p, e, v) ==
  \/ VerdictOK(P, d, e, v)
  \/ \E amb \in AmbSpace : VerdictOK(P, d, Eval(P, Op.route, d, p, amb), v)
ResultSome(d, p, e, v, attrs) ==
  \/ ResultOK(P, d, e, v, attrs)
  \/ \E amb \in AmbSpace : ResultOK(P, d, Eval(P, Op.route, d, p, amb), v, attrs)

(* accept / reject equals the documented interpreter *)
C10_Verdict == IsEval => /\ VerdictSome(Op.d1, Op.p1, exp.e1, Obs.r1.v)
                         /\ VerdictSome(Op.d2, Op.p2, exp.e2, Obs.r2.v)

(* the attributes of an accepted route equal the documented interpreter's *)
C10_Attrs == IsEval => /\ Obs.r1.attrs.unk = <<>> /\ Obs.r2.attrs.unk = <<>>
                       /\ ResultSome(Op.d1, Op.p1, exp.e1, Obs.r1.v, Obs.r1.attrs)
                       /\ ResultSome(Op.d2, Op.p2, exp.e2, Obs.r2.v, Obs.r2.attrs)

(* the stored path projects to the input route before and after both evaluations, and the result
   handed out for the first (direction, peer) still projects to the same values after the policy
   has run for the second one *)
StoredIs(s, r) == /\ s.nh = r.nh /\ s.aspath = r.aspath /\ s.origin = r.origin /\ s.med = r.med /\ s.lp = r.lp
                  /\ s.comm = r.comm /\ s.ext = r.ext /\ s.large = r.large /\ s.unk = <<>>
C10_StoredUnchanged == IsEval => /\ StoredIs(Obs.stored0, Op.route)
                                 /\ StoredIs(Obs.stored1, Op.route)
                                 /\ (Obs.r1.v = "accept" => Obs.r1again = Obs.r1.attrs)

(* a valid configuration call returns; it does not crash the process *)
C10_ConfigNoCrash == last.ev = "Cfg" => last.res # "panic"

C10_ReadBack_NoDangling == last.ev = "Cfg" => NoDangling

(* read-back: what the List / Get calls report equals the configured program *)
HasRb == last.ev \in {"Cfg", "Dump"} /\ Has(last, "rb")
Rb    == last.rb
RbSetsOn(names) ==
  /\ {[kind |-> x.kind, name |-> x.name, members |-> SeqToSet(x.members)] : x \in {y \in SeqToSet(Rb.sets) : y.name \in names}}
       = {[kind |-> P.dsets[n].kind, name |-> n, members |-> P.dsets[n].members] : n \in DOMAIN P.dsets \cap names}
  /\ {x.name : x \in SeqToSet(Rb.sets)} = DOMAIN P.dsets
  /\ Len(Rb.sets) = Cardinality(DOMAIN P.dsets)
RbSets == RbSetsOn(DOMAIN P.dsets)
(* N(s): normalisation applied to both sides before comparing statements (identity when strict) *)
RbStmtsBy(names, N(_)) ==
  /\ {N(JStmt(s)) : s \in {y \in SeqToSet(Rb.stmts) : y.name \in names}} = {N(P.stmts[n]) : n \in DOMAIN P.stmts \cap names}
  /\ {s.name : s \in SeqToSet(Rb.stmts)} = DOMAIN P.stmts
  /\ Len(Rb.stmts) = Cardinality(DOMAIN P.stmts)
RbPolsBy(clean, N(_)) ==
  /\ {x.name : x \in SeqToSet(Rb.pols)} = DOMAIN P.pols
  /\ Len(Rb.pols) = Cardinality(DOMAIN P.pols)
  /\ \A x \in SeqToSet(Rb.pols) : x.name \in DOMAIN P.pols =>
       /\ [i \in 1..Len(x.stmts) |-> x.stmts[i].name] = P.pols[x.name]
       /\ \A i \in 1..Len(x.stmts) : x.stmts[i].name \in clean /\ x.stmts[i].name \in DOMAIN P.stmts =>
            N(JStmt(x.stmts[i])) = N(P.stmts[x.stmts[i].name])
Ident(s) == s
RbStmts == RbStmtsBy(DOMAIN P.stmts, Ident)
RbPols  == RbPolsBy(DOMAIN P.stmts, Ident)
RbAsgOn(loose) == \A x \in SeqToSet(Rb.asg) :
                    /\ x.pols = P.asg[x.dir].pols
                    /\ x.def \in P.asg[x.dir].def \cup (IF x.dir \in loose THEN {"none"} ELSE {})
RbAsg == RbAsgOn({})
C10_ReadBack == (HasRb /\ NoDangling) => RbSets /\ RbStmts /\ RbPols /\ RbAsg

---------------------------------------------------------------------------
(* situations of the recorded findings *)
StmtsOf(d)   == SeqToSet(Flat(P, d))
TaintedBy(d, names, sets) == \E s \in StmtsOf(d) : s.name \in names \/ SetsUsedBy(s) \cap sets # {}
EvalTaint(names, sets) == IsEval /\ (TaintedBy(Op.d1, names, sets) \/ TaintedBy(Op.d2, names, sets))
HasActMode(d, k, m) == \E s \in StmtsOf(d) : \E a \in s.acts : a.k = k /\ a.mode = m

SitStale       == EvalTaint(kf.stale, {})
SitCorrupt     == IsEval /\ kf.dead
SitDefault     == IsEval /\ {Op.d1, Op.d2} \cap kf.dirs # {}
SitExtRemove   == IsEval /\ ExtLB \in SeqToSet(Op.route.ext) /\ (HasActMode(Op.d1, "ext", "remove") \/ HasActMode(Op.d2, "ext", "remove"))
SitLargeAdd    == IsEval /\ (HasActMode(Op.d1, "large", "add") \/ HasActMode(Op.d2, "large", "add"))
SitMultiCut    == last.ev = "Cfg" /\ MultiCut(JOp(last.op))
SitApiOrigin   == HasRb /\ via = "api" /\ \E s \in Range(P.stmts) : \E c \in s.conds : c.k = "origin"
SitApiCommAct  == HasRb /\ via = "api" /\ \E s \in Range(P.stmts) : \E a \in s.acts : a.k \in {"ext", "large"}

(* the strict property restricted to one situation each (PolicyTrace.cfg lists them first) *)
C10_ConfigNoCrash_MultiCut == SitMultiCut => C10_ConfigNoCrash
C10_Eval_StaleSet       == SitStale     => (C10_Verdict /\ C10_Attrs)
C10_Eval_CorruptStmt    == SitCorrupt   => (C10_Verdict /\ C10_Attrs)
C10_Verdict_DefaultUnset == SitDefault  => C10_Verdict
C10_Attrs_ExtRemove     == SitExtRemove => C10_Attrs
C10_StoredUnchanged_LargeAdd == SitLargeAdd => C10_StoredUnchanged
C10_ReadBack_CorruptStmt  == (HasRb /\ kf.dead) => C10_ReadBack
C10_ReadBack_DefaultUnset == (HasRb /\ kf.dirs # {}) => RbAsg
C10_ReadBack_ApiOrigin    == SitApiOrigin  => (RbStmts /\ RbPols)
C10_ReadBack_ApiCommAct   == SitApiCommAct => RbStmts

---------------------------------------------------------------------------
(* weakened invariants (PolicyTraceKF.cfg): tolerate exactly the recorded wrong behaviour *)

(* KF-C10-delasg-default: after DeletePolicyAssignment(all) the default action is unset and every
   route that reaches the default is rejected *)
DefaultRejected(d, e, v) == d \in kf.dirs /\ e.v = "default" /\ v = "reject"
(* KF-C10-ext-remove-nontransitive: an ext-community "remove" action also drops the route's
   non-transitive extended communities (here: link bandwidth) *)
LbDropped(d, e, v, attrs) ==
  /\ HasActMode(d, "ext", "remove") /\ ExtLB \in e.r.ext /\ e.v # "und" /\ VerdictOK(P, d, e, v)
  /\ v = "accept" => AttrEq([e.r EXCEPT !.ext = @ \ {ExtLB}], attrs)
EvalKF(d, p, e, o) ==
  \/ ResultSome(d, p, e, o.v, o.attrs)
  \/ kf.dead
  \/ TaintedBy(d, kf.stale, {})
  \/ DefaultRejected(d, e, o.v)
  \/ LbDropped(d, e, o.v, o.attrs)
C10_Verdict_KF == IsEval => /\ VerdictSome(Op.d1, Op.p1, exp.e1, Obs.r1.v) \/ EvalKF(Op.d1, Op.p1, exp.e1, Obs.r1)
                            /\ VerdictSome(Op.d2, Op.p2, exp.e2, Obs.r2.v) \/ EvalKF(Op.d2, Op.p2, exp.e2, Obs.r2)
C10_Attrs_KF == IsEval => /\ Obs.r1.attrs.unk = <<>> /\ Obs.r2.attrs.unk = <<>>
                          /\ EvalKF(Op.d1, Op.p1, exp.e1, Obs.r1)
                          /\ EvalKF(Op.d2, Op.p2, exp.e2, Obs.r2)

(* KF-C10-large-add-aliasing: SetLargeCommunities appends in place; the result handed out for
   the first peer changes its LARGE_COMMUNITY list when the policy runs for the second *)
C10_StoredUnchanged_KF ==
  IsEval => /\ StoredIs(Obs.stored0, Op.route)
            /\ StoredIs(Obs.stored1, Op.route)
            /\ (Obs.r1.v = "accept" =>
                  \/ Obs.r1again = Obs.r1.attrs
                  \/ SitLargeAdd /\ [Obs.r1again EXCEPT !.large = <<>>] = [Obs.r1.attrs EXCEPT !.large = <<>>])

(* KF-C10-delpol-assigned: DeletePolicy(all) of a policy assigned to the IMPORT direction is accepted
   (kf.dead from then on) *)
C10_ReadBack_NoDangling_KF == last.ev = "Cfg" => (NoDangling \/ kf.dead)

(* KF-C10-delstmt-multi *)
C10_ConfigNoCrash_KF == last.ev = "Cfg" => (last.res # "panic" \/ kf.dead)

(* KF-C10-api-origin-cond (ListStatement never reports the origin condition; ListPolicy /
   ListPolicyAssignment report the origin ACTION's value as the origin condition) and
   KF-C10-api-commaction-type (ListStatement reports the ext-/large-community action type shifted
   by one): over the API, statements are compared without origin conditions and without the mode
   of ext / large actions *)
ApiNorm(s) == IF via = "api"
              THEN Stmt(s.name, {c \in s.conds : c.k # "origin"},
                        {IF a.k \in {"ext", "large"} THEN [a EXCEPT !.mode = "*"] ELSE a : a \in s.acts}, s.disp)
              ELSE s
C10_ReadBack_KF ==
  (HasRb /\ ~kf.dead) => /\ RbSets
                         /\ RbStmtsBy(DOMAIN P.stmts, ApiNorm)
                         /\ RbPolsBy(DOMAIN P.stmts, ApiNorm)
                         /\ RbAsgOn(kf.dirs)

---------------------------------------------------------------------------
(* informational: the code follows the mechanism model exactly *)
MObsEq(d, p, o) ==
  LET m == MEval(P, Op.route, d, p) IN
    /\ o.v = MVerdict(P, d, m)
    /\ o.v = "accept" => /\ o.attrs.nh = m.r.nh /\ o.attrs.aspath = m.r.aspath /\ o.attrs.med = m.r.med
                         /\ o.attrs.lp = m.r.lp /\ o.attrs.origin = m.r.origin /\ o.attrs.comm = m.r.comm
Conf_Mech == IsEval => MObsEq(Op.d1, Op.p1, Obs.r1) /\ MObsEq(Op.d2, Op.p2, Obs.r2)
=============================================================================
