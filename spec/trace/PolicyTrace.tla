---------------------------- MODULE PolicyTrace ----------------------------
(* Validates executions of the real policy code against Policy.tla.
   Producers: harness/c10 (white box: table.RoutingPolicy + ApplyPolicy) and harness/c10srv
   (a running BgpServer driven through the public API, read back with the List calls).
   Lines:  Reset | Cfg(op, res [, rb]) | Eval(op, obs) | Dump(rb)
   The C10_* invariants compare what the code REPORTED with the property layer (Eval / the
   configured program P); Conf_* compare with the mechanism layer (informational).

   The nine findings recorded while this check was built (findings_proposed/C10-*.md) are repaired
   in /repo; nothing is weakened: there are no *_KF invariants and no exclusions any more. *)
EXTENDS Policy, TraceUtil

VARIABLES l, P, last, exp, via
tvars == <<l, P, last, exp, via>>

NoLine  == [ev |-> "none"]
NoRoute == Route(P4("0.0.0.0/0", 0, 0, 0, 0, 0), "local", "", <<>>, 0, -1, -1, <<>>, <<>>, <<>>, "valid", FALSE)
NoExp   == [e1 |-> Res("und", W(NoRoute), 0), e2 |-> Res("und", W(NoRoute), 0)]

(* JSON arrays arrive as tuples; the spec state holds sets *)
JCond(c) == [c EXCEPT !.list = SeqToSet(@)]
JAct(a)  == [a EXCEPT !.vals = SeqToSet(@)]
JStmt(s) == Stmt(s.name, {JCond(c) : c \in SeqToSet(s.conds)}, {JAct(a) : a \in SeqToSet(s.acts)}, s.disp)
JOp(o) ==
  CASE o.op \in {"AddSet", "DelSet"}   -> [o EXCEPT !.members = SeqToSet(@)]
    [] o.op \in {"AddStmt", "DelStmt"} -> [o EXCEPT !.stmt = JStmt(@)]
    [] o.op \in {"AddPol", "DelPol"}   -> [o EXCEPT !.stmts = [i \in 1..Len(@) |-> JStmt(@[i])]]
    [] OTHER -> o

---------------------------------------------------------------------------
TraceInit == l = 1 /\ P = EmptyProgram /\ last = NoLine /\ exp = NoExp /\ via = "wb"

IsEvent(e) == l <= TLen /\ Trace[l].ev = e /\ l' = l + 1

TReset == /\ IsEvent("Reset")
          /\ P' = EmptyProgram /\ last' = Trace[l] /\ exp' = NoExp
          /\ via' = IF Has(Trace[l], "via") THEN Trace[l].via ELSE "wb"

(* a config step.  res = "ok": applied.  res = "panic": the call crashed (judged by
   C10_ConfigNoCrash).  A call that must be refused (MustRefuse) leaves the program unchanged when it
   is refused; when the code accepts it the policy is gone while an assignment still lists it
   (judged by C10_ReadBack_NoDangling).  Any other answer to an operation the model considers
   valid is a conformance gap (no action matches). *)
TCfg == /\ IsEvent("Cfg")
        /\ LET o == JOp(Trace[l].op)
               refused == Trace[l].res \notin {"ok", "panic"}
           IN
             /\ Assert(Valid(P, o), <<"schedule holds an operation the model considers invalid", o>>)
             /\ IF MustRefuse(P, o) THEN TRUE ELSE ~refused
             /\ P' = IF MustRefuse(P, o) /\ ~refused THEN [P EXCEPT !.pols = Drop(@, {o.name})]
                     ELSE IF refused THEN P
                     ELSE Apply(P, o)
        /\ last' = Trace[l] /\ exp' = NoExp /\ UNCHANGED via

TEval == /\ IsEvent("Eval")
         /\ IF \A d \in Dirs : SeqToSet(P.asg[d].pols) \subseteq DOMAIN P.pols
            THEN LET o == Trace[l].op
                     e1 == Eval(P, o.route, o.d1, o.p1, CodeAmb(o.d1))
                     e2 == Eval(P, o.route, o.d2, o.p2, CodeAmb(o.d2))
                 IN /\ exp' = [e1 |-> e1, e2 |-> e2]
                    \* non-trivial: at least one statement applied to the route in one of the evaluations
                    /\ NoteIf(e1.hits + e2.hits >= 1, <<o, Flat(P, o.d1), Flat(P, o.d2)>>)
            ELSE exp' = NoExp      \* an assignment lists a deleted policy: C10_ReadBack_NoDangling has already failed
         /\ UNCHANGED <<P, via>> /\ last' = Trace[l]

TDump == /\ IsEvent("Dump")
         /\ UNCHANGED <<P, via>> /\ last' = Trace[l] /\ exp' = NoExp

TraceNext == TReset \/ TCfg \/ TEval \/ TDump
TraceSpec == TraceInit /\ [][TraceNext]_tvars

TraceConstraint == Hwm(l)
TraceAccepted == Accepted

---------------------------------------------------------------------------
(* an assignment never lists a policy that has been deleted (the model state only gets there when
   the code ACCEPTED the deletion of an assigned policy, which it must refuse) *)
NoDangling == \A d \in Dirs : SeqToSet(P.asg[d].pols) \subseteq DOMAIN P.pols
IsEval == last.ev = "Eval" /\ NoDangling
Op     == last.op
Obs    == last.obs

(* one evaluation agrees with some admissible reading of the document *)
VerdictSome(d, p, e, v) ==
  \/ VerdictOK(P, d, e, v)
  \/ \E amb \in AmbSpace : VerdictOK(P, d, Eval(P, Op.route, d, p, amb), v)
ResultSome(d, p, e, v, attrs) ==
  \/ ResultOK(P, d, e, v, attrs)
  \/ \E amb \in AmbSpace : ResultOK(P, d, Eval(P, Op.route, d, p, amb), v, attrs)

(* accept / reject equals the documented interpreter *)
C10_Verdict == IsEval => /\ VerdictSome(Op.d1, Op.p1, exp.e1, Obs.r1.v)
                         /\ VerdictSome(Op.d2, Op.p2, exp.e2, Obs.r2.v)

(* the attributes of an accepted route equal the documented interpreter's *)
C10_Attrs == IsEval => /\ Obs.r1.attrs.unk = <<>> /\ Obs.r2.attrs.unk = <<>>
                       /\ ResultSome(Op.d1, Op.p1, exp.e1, Obs.r1.v, Obs.r1.attrs)
                       /\ ResultSome(Op.d2, Op.p2, exp.e2, Obs.r2.v, Obs.r2.attrs)

(* the stored path projects to the input route before and after both evaluations, and the result
   handed out for the first (direction, peer) still projects to the same values after the policy
   has run for the second one *)
StoredIs(s, r) == /\ s.nh = r.nh /\ s.aspath = r.aspath /\ s.origin = r.origin /\ s.med = r.med /\ s.lp = r.lp
                  /\ s.comm = r.comm /\ s.ext = r.ext /\ s.large = r.large /\ s.unk = <<>>
C10_StoredUnchanged == IsEval => /\ StoredIs(Obs.stored0, Op.route)
                                 /\ StoredIs(Obs.stored1, Op.route)
                                 /\ (Obs.r1.v = "accept" => Obs.r1again = Obs.r1.attrs)

(* a valid configuration call returns; it does not crash the process *)
C10_ConfigNoCrash == last.ev = "Cfg" => last.res # "panic"

C10_ReadBack_NoDangling == last.ev = "Cfg" => NoDangling

(* read-back: what the List / Get calls report equals the configured program *)
HasRb == last.ev \in {"Cfg", "Dump"} /\ Has(last, "rb")
Rb    == last.rb
RbSetsOn(names) ==
  /\ {[kind |-> x.kind, name |-> x.name, members |-> SeqToSet(x.members)] : x \in {y \in SeqToSet(Rb.sets) : y.name \in names}}
       = {[kind |-> P.dsets[n].kind, name |-> n, members |-> P.dsets[n].members] : n \in DOMAIN P.dsets \cap names}
  /\ {x.name : x \in SeqToSet(Rb.sets)} = DOMAIN P.dsets
  /\ Len(Rb.sets) = Cardinality(DOMAIN P.dsets)
RbSets == RbSetsOn(DOMAIN P.dsets)
(* N(s): normalisation applied to both sides before comparing statements (identity when strict) *)
RbStmtsBy(names, N(_)) ==
  /\ {N(JStmt(s)) : s \in {y \in SeqToSet(Rb.stmts) : y.name \in names}} = {N(P.stmts[n]) : n \in DOMAIN P.stmts \cap names}
  /\ {s.name : s \in SeqToSet(Rb.stmts)} = DOMAIN P.stmts
  /\ Len(Rb.stmts) = Cardinality(DOMAIN P.stmts)
RbPolsBy(clean, N(_)) ==
  /\ {x.name : x \in SeqToSet(Rb.pols)} = DOMAIN P.pols
  /\ Len(Rb.pols) = Cardinality(DOMAIN P.pols)
  /\ \A x \in SeqToSet(Rb.pols) : x.name \in DOMAIN P.pols =>
       /\ [i \in 1..Len(x.stmts) |-> x.stmts[i].name] = P.pols[x.name]
       /\ \A i \in 1..Len(x.stmts) : x.stmts[i].name \in clean /\ x.stmts[i].name \in DOMAIN P.stmts =>
            N(JStmt(x.stmts[i])) = N(P.stmts[x.stmts[i].name])
Ident(s) == s
RbStmts == RbStmtsBy(DOMAIN P.stmts, Ident)
RbPols  == RbPolsBy(DOMAIN P.stmts, Ident)
RbAsgOn(loose) == \A x \in SeqToSet(Rb.asg) :
                    /\ x.pols = P.asg[x.dir].pols
                    /\ x.def \in P.asg[x.dir].def \cup (IF x.dir \in loose THEN {"none"} ELSE {})
RbAsg == RbAsgOn({})
C10_ReadBack == (HasRb /\ NoDangling) => RbSets /\ RbStmts /\ RbPols /\ RbAsg

---------------------------------------------------------------------------
(* informational: the code follows the mechanism model exactly *)
MObsEq(d, p, o) ==
  LET m == MEval(P, Op.route, d, p) IN
    /\ o.v = MVerdict(P, d, m)
    /\ o.v = "accept" => /\ o.attrs.nh = m.r.nh /\ o.attrs.aspath = m.r.aspath /\ o.attrs.med = m.r.med
                         /\ o.attrs.lp = m.r.lp /\ o.attrs.origin = m.r.origin /\ o.attrs.comm = m.r.comm
Conf_Mech == IsEval => MObsEq(Op.d1, Op.p1, Obs.r1) /\ MObsEq(Op.d2, Op.p2, Obs.r2)
=============================================================================
