SPECIFICATION TraceSpec
CONSTANTS
  Caches <- CacheNames
  PfxInfo <- PfxTable
  Fix <- AllFix
CONSTRAINT TraceConstraint
POSTCONDITION TraceAccepted
CHECK_DEADLOCK FALSE
INVARIANTS
  Conf_Table
  Conf_Serial
