---------------------------- MODULE ExportTrace ----------------------------
(* Validates executions of the real export / receive code (harness/c09/c09_test.go) against
   Export.tla.

   A trace is   Reset(mode, local, peer)  followed by
     mode "export" : two  Export(to, route, obs)  lines - the SAME stored route was handed to
                     BgpServer.processOutgoingPaths for the target `peer`;
                     obs = [before, adv, out, after]: projection of the stored path before the
                     call, "yes"/"no"/"withdraw", projection of the attributes of the produced
                     copy, projection of the stored path after the call;
     mode "inbound": Recv(pfx, route, obs) lines - an UPDATE from `peer` was handed to
                     BgpServer.handleFSMMessage; obs.rib = tags (first community) of the routes
                     the Loc-RIB holds for that prefix afterwards.
   The C09_* invariants compare the recorded observation with the PROPERTY layer of Export.tla;
   Conf_* compare it with the MECHANISM layer (informational). *)
EXTENDS Export, TraceUtil

VARIABLES l,      \* next line
          ctx,    \* [mode, local, peer] of the current trace
          ev,     \* the step just consumed: [kind |-> "none"|"export"|"recv", ...]
          ribs    \* inbound: pfx -> set of tags the Loc-RIB held after the previous step on pfx
tvars == <<l, ctx, ev, ribs>>

NoCtx == [mode |-> "none"]
NoEv  == [kind |-> "none"]

TraceInit == l = 1 /\ ctx = NoCtx /\ ev = NoEv /\ ribs = <<>>

IsEvent(e) == l <= TLen /\ Trace[l].ev = e /\ l' = l + 1

TReset == /\ IsEvent("Reset")
          /\ ctx' = [mode |-> Trace[l].mode, local |-> Trace[l].local, peer |-> Trace[l].peer,
                     peer2 |-> Trace[l].peer2, tid |-> Trace[l].tid]
          /\ ev' = NoEv /\ ribs' = <<>>

Tag(r) == IF r.comm = <<>> THEN 0 ELSE r.comm[1]

(* The same stored path is exported twice: line to = 1 towards ctx.peer, line to = 2 towards
   ctx.peer2 (another peer, or ctx.peer again = re-export).  Both copies are judged against the
   ORIGINAL route: an export that damages the stored route is caught by C09_StoredUnchanged on
   that step and by C09_Attrs / the stored-route clause on the next one. *)
TExport ==
  /\ IsEvent("Export") /\ ctx.mode = "export"
  /\ LET r == Trace[l].route
         o == Trace[l].obs
         t == IF Trace[l].to = 2 THEN ctx.peer2 ELSE ctx.peer
     IN /\ ev' = [kind |-> "export", route |-> r, olds |-> Trace[l].olds, wd |-> Trace[l].wd, obs |-> o,
                   peer |-> t, to |-> Trace[l].to]
        (* binding: the path the harness built projects back to the abstract route *)
        /\ Assert(Trace[l].to # 1 \/ (StoredIs(o.before.attrs, r) /\ ~o.before.wd),
                  <<"harness built a path that does not project to the route", ctx.tid>>)
        /\ Assert(o.adv \in {"yes", "no", "withdraw"}, <<"unexpected number of produced paths", ctx.tid>>)
        (* distinct non-trivial cases: something was sent (attribute rules exercised), or the
           route was one that must not be sent (loop-prevention rules exercised) *)
        /\ Assert(Trace[l].to # 1 \/ \A i \in DOMAIN o.oldbefore : StoredIs(o.oldbefore[i].attrs, Trace[l].olds[i]),
                  <<"harness built an old path that does not project to its route", ctx.tid>>)
        /\ NoteIf(o.adv = "yes" \/ ~MayAdvertise(r, t, ctx.local), <<ctx.tid, l>>)
  /\ UNCHANGED <<ctx, ribs>>

PrevRib(k) == IF k \in DOMAIN ribs THEN ribs[k] ELSE {}

TRecv ==
  /\ IsEvent("Recv") /\ ctx.mode = "inbound"
  /\ LET r == Trace[l].route
         o == Trace[l].obs
         k == Trace[l].pfx
     IN /\ ev' = [kind |-> "recv", route |-> r, obs |-> o, prev |-> PrevRib(k), line |-> l]
        /\ ribs' = [x \in DOMAIN ribs \cup {k} |-> IF x = k THEN SeqToSet(o.rib) ELSE ribs[x]]
        /\ NoteIf(MustReject(r, ctx.peer, ctx.local), <<ctx.tid, l>>)
  /\ UNCHANGED ctx

TraceNext == TReset \/ TExport \/ TRecv
TraceSpec == TraceInit /\ [][TraceNext]_tvars

TraceConstraint == Hwm(l)
TraceAccepted == Accepted

---------------------------------------------------------------------------
IsExport == ev.kind = "export"
IsRecv   == ev.kind = "recv"

(* what is sent carries the attributes the peer's type requires *)
C09_Attrs ==
  (IsExport /\ ev.obs.adv = "yes") =>
    AttrsVerdict(ev.obs.out, ev.route, ev.peer, ctx.local) = "ok"

(* never back to the router it came from / to an eBGP peer whose AS is in the path /
   non-client to non-client *)
C09_MayAdvertise ==
  (IsExport /\ ev.obs.adv = "yes") => WhyNot(ev.route, ev.peer, ctx.local) = "ok"

(* producing the peer's copy never alters the stored route (attributes, flags, and the spare
   capacity of every attribute slice) *)
C09_StoredUnchanged ==
  IsExport => /\ ev.obs.after = ev.obs.before
              /\ StoredIs(ev.obs.before.attrs, ev.route)     \* still the route that was stored
              /\ ev.obs.oldafter = ev.obs.oldbefore        \* nor is the previous best touched
              /\ \A i \in DOMAIN ev.obs.oldbefore : StoredIs(ev.obs.oldbefore[i].attrs, ev.olds[i])

(* the per-neighbour AS_PATH options do not keep a route back: what may be sent to an external
   peer - judged on the AS_PATH after replace-peer-as - is sent (Export!MustAdvertise) *)
C09_Advertise ==
  (IsExport /\ ~ev.wd /\ MustAdvertise(ev.route, ev.peer, ctx.local)) => ev.obs.adv = "yes"

(* implicit replacement: the new best must not go to the external peer but the previous best went
   there: it is withdrawn explicitly, the peer is not left with the old route.  Likewise when the
   best route goes away altogether (ev.wd: the withdrawal of the route is what is exported); a
   withdrawal never turns into an advertisement. *)
WithdrawOwed ==
  IF ev.wd THEN MustWithdrawGone(ev.route, ev.peer, ctx.local)
  ELSE MustWithdraw(ev.route, ev.olds, ev.peer, ctx.local)
C09_Withdraw ==
  IsExport => /\ (WithdrawOwed => ev.obs.adv = "withdraw")
              /\ (ev.wd => ev.obs.adv # "yes")

(* KNOWN FINDING KF-C09-override-withdraw-dropped: with replace-peer-as the AS override is applied
   to announcements only; the sender-side loop check then sees the RAW AS_PATH of a withdrawal (of
   the route itself, or of the previous best substituted for a route that goes back to its
   source), finds the peer's AS and drops the withdrawal: the peer keeps a route that is gone.
   Tolerated: exactly the withdrawals of routes whose stored AS_PATH holds the AS of a
   replace-peer-as peer. *)
OverrideWithdraw ==
  /\ IsExport /\ ev.peer.rpeer /\ ev.obs.adv = "no"
  /\ LET gone == IF ev.wd THEN ev.route ELSE ev.olds[1]
     IN ev.peer.as \in ASSetOf(gone.aspath, {"SEQ", "SET"})
C09_Withdraw_KF == C09_Withdraw \/ (WithdrawOwed /\ OverrideWithdraw)

(* a received route with the own AS beyond allow-own-as, the own router-id as ORIGINATOR_ID or the
   own cluster-id in CLUSTER_LIST is not used *)
C09_Inbound ==
  (IsRecv /\ MustReject(ev.route, ctx.peer, ctx.local)) => Tag(ev.route) \notin SeqToSet(ev.obs.rib)

(* ... and it has replaced (implicitly withdrawn) what the peer announced before: nothing the
   peer announced earlier for the prefix is used either *)
C09_InboundNoStale ==
  (IsRecv /\ MustReject(ev.route, ctx.peer, ctx.local)) => SeqToSet(ev.obs.rib) \subseteq {Tag(ev.route)}

(* NOT in any cfg (see the comment at Export!MayAdvertise): the stricter reading that also counts
   AS_CONFED_* segments when the peer is a member of the confederation.  gobgp's isASLoop looks at
   AS_SEQUENCE / AS_SET only, so a route whose AS_CONFED_SEQUENCE already holds the peer's member-AS
   is sent back into that member-AS (observed: target C1 AS 65010, stored [CSEQ 65011 65010] ->
   sent [CSEQ 65000 65011 65010]); the receiver's own-AS check drops it. *)
Info_ConfedLoopStrict ==
  (IsExport /\ ev.obs.adv = "yes" /\ ev.peer.kind = "confed") =>
    ev.peer.as \notin ASSet(RepPeer(ev.route.aspath, ev.peer, SessionAS(ev.peer, ctx.local)))

(* KNOWN FINDING KF-C09-cluster-loop-used: peer.handleUpdate does not look at CLUSTER_LIST; the
   route is installed and used (only BgpServer.filterpath refrains from reflecting it to
   clients).  Tolerated: the ONLY reason to reject the route is the cluster-id. *)
OnlyClusterReason == /\ ClusterLoop(ev.route, ctx.peer, ctx.local)
                     /\ ~OwnAsLoop(ev.route, ctx.peer, ctx.local)
                     /\ ~OrigLoop(ev.route, ctx.peer, ctx.local)
C09_Inbound_KF == C09_Inbound \/ (IsRecv /\ OnlyClusterReason)

(* informational: the code follows the mechanism model exactly *)
Conf_Advertise == IsExport => ev.obs.adv = MechAdvertiseW(ev.route, ev.olds, ev.wd, ev.peer, ctx.local)
Conf_Attrs ==
  (IsExport /\ ev.obs.adv = "yes") =>
    LET m == MechAttrs(ev.route, ev.peer, ctx.local)
    IN [ev.obs.out EXCEPT !.aspath = Norm(@)] = [m EXCEPT !.aspath = Norm(@)]
Conf_Inbound ==
  IsRecv => (SeqToSet(ev.obs.rib) = IF MechUsed(ev.route, ctx.peer, ctx.local) THEN {Tag(ev.route)} ELSE {})

(* Scan mode (ExportScan.cfg): one pass over a batch that never stops at a failing step but
   records, in TLC register 3, the tid of every trace with a step on which a C09_* invariant is
   false (register 4: a Conf_* invariant).  The driver then validates the clean traces in one run
   and the listed ones one by one against the named invariants (a systematic defect would
   otherwise cost one TLC run per failing trace). *)
ASSUME TLCSet(3, {})
ASSUME TLCSet(4, {})
ScanStrict == C09_Attrs /\ C09_MayAdvertise /\ C09_Advertise /\ C09_Withdraw /\ C09_StoredUnchanged
              /\ C09_Inbound /\ C09_InboundNoStale
ScanConf   == Conf_Advertise /\ Conf_Attrs /\ Conf_Inbound
Scan == /\ (IF ScanStrict THEN TRUE ELSE TLCSet(3, TLCGet(3) \cup {ctx.tid}))
        /\ (IF ScanConf THEN TRUE ELSE TLCSet(4, TLCGet(4) \cup {ctx.tid}))
ScanAccepted == Accepted /\ PrintT("VPOUT " \o ToJson([failing |-> TLCGet(3), confmis |-> TLCGet(4)]))
=============================================================================
