SPECIFICATION TraceSpec
CONSTANTS
  Caches <- CacheNames
  PfxInfo <- PfxTable
  Fix <- NoFix
CONSTRAINT TraceConstraint
POSTCONDITION TraceAccepted
CHECK_DEADLOCK FALSE
INVARIANTS
  C16_TblTable
  C16_TblValidate
  C16_TblPolicyAgrees
