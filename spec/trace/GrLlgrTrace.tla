---------------------------- MODULE GrLlgrTrace ----------------------------
(* Validates executions of the real BgpServer (harness/c12, synctest bubble, virtual time) against the
   property layer of GrLlgr.tla.  One line = one input applied to the running server at virtual instant
   t (ms), followed by exact quiescence, with the observation taken then:
     rib[x]     global table (ListPath): entries [src, c, stale, llgr, best], best first
     adjin[x]   R's Adj-RIB-In (white box): [src, c, stale, llgr] or none
     views[p][x] what neighbour p holds (fold of every UPDATE written to its connection): [src, c, llgr]
     sess[p]    reported session state;  gr: reported graceful-restart state of R;
     extra      prefixes outside the pool seen anywhere (routes that must never be installed).
   h is the life-cycle required by the property (D = {}), k the same history replayed WITH the known
   deviations KF (used only by the *_KF invariants). *)
EXTENDS GrLlgr, TraceUtil

CONSTANTS KF,         \* set of deviations tolerated by the *_KF invariants
          Triage      \* TRUE: additionally sort the traces (see TriStep); no influence on the invariants

VARIABLES l, cfg, h, k, srt, up, capsOf, upAt, eorFrom, weakEver, strongEver, syncK, now, obs, hasObs, tri
tvars == <<l, cfg, h, k, srt, up, capsOf, upAt, eorFrom, weakEver, strongEver, syncK, now, obs, hasObs, tri>>

NoCfg == [gr |-> FALSE, notif |-> FALSE, llgr |-> FALSE, rtlocal |-> 0, deferral |-> 0, restart |-> FALSE]
FixedCaps(p) ==
  CASE p = "O1" -> [gr |-> TRUE, fams |-> [f \in Fams |-> TRUE], rt |-> 90, n |-> FALSE, r |-> FALSE, llgr |-> [f \in Fams |-> 1000], hold |-> 0]
    [] p = "S"  -> [gr |-> TRUE, fams |-> [f \in Fams |-> TRUE], rt |-> 90, n |-> FALSE, r |-> FALSE, llgr |-> [f \in Fams |-> 0], hold |-> 0]
    [] OTHER    -> NoCaps

Blank == /\ h = HInit /\ k = HInit
         /\ srt = [x \in Prefixes |-> NoRoute]
         /\ up = [p \in Nbrs |-> FALSE]
         /\ capsOf = [p \in Nbrs |-> NoCaps]
         /\ upAt = [p \in Nbrs |-> -1]
         /\ eorFrom = [p \in Nbrs |-> [f \in Fams |-> FALSE]]
         /\ weakEver = [f \in Fams |-> FALSE] /\ strongEver = FALSE /\ syncK = FALSE
         /\ now = 0 /\ obs = [none |-> TRUE] /\ hasObs = FALSE

TraceInit == l = 1 /\ cfg = NoCfg /\ Blank /\ tri = [tid |-> 0, bad |-> "", kbad |-> ""]

IsEvent(e) == l <= TLen /\ Trace[l].ev = e /\ l' = l + 1
Row == Trace[l]
T == Row.t
TakeObs == /\ now' = T
           /\ IF "obs" \in DOMAIN Row THEN obs' = Row.obs /\ hasObs' = TRUE
              ELSE obs' = obs /\ hasObs' = FALSE       \* the speaker ended R's session during this step: see the next line

(* the restarting-speaker bookkeeping, re-evaluated after every input *)
(* Deviation "lateeor" (known finding, replayed for the *_KF invariant only): the code looks whether all
   End-of-RIBs have arrived only when a neighbour that is itself still being withheld sends one, or when a
   neighbour reaches Established.  CodeDone is the code's own completion test. *)
CodeDone(up2, caps2, eor2) ==
  \A q \in Nbrs : IF up2[q] THEN (~(cfg.gr \/ q # "R") \/ q = "O2" \/ ~caps2[q].gr \/ caps2[q].r
                                    \/ \A f \in Fams : caps2[q].fams[f] => eor2[q][f])
                   ELSE q \notin GrConfigured(cfg)
StillHeld(q, t) == ~syncK /\ up[q] /\ t < upAt[q] + 1000 * cfg.deferral
Sync(up2, caps2, eor2, trigger) ==
  /\ weakEver' = [f \in Fams |-> weakEver[f] \/ WeakDone(cfg, up2, caps2, eor2, f)]
  /\ strongEver' = (strongEver \/ StrongDone(cfg, up2, caps2, eor2))
  /\ syncK' = (syncK \/ (trigger /\ CodeDone(up2, caps2, eor2)))
SyncSame == Sync(up, capsOf, eorFrom, FALSE)

TReset == /\ IsEvent("Reset")
          /\ cfg' = Row.cfg
          /\ h' = HInit /\ k' = HInit
          /\ srt' = [x \in Prefixes |-> NoRoute]
          /\ up' = [p \in Nbrs |-> FALSE]
          /\ capsOf' = [p \in Nbrs |-> NoCaps]
          /\ upAt' = [p \in Nbrs |-> -1]
          /\ eorFrom' = [p \in Nbrs |-> [f \in Fams |-> FALSE]]
          /\ weakEver' = [f \in Fams |-> FALSE] /\ strongEver' = FALSE /\ syncK' = FALSE
          /\ now' = 0 /\ obs' = [none |-> TRUE] /\ hasObs' = FALSE
          /\ tri' = [tid |-> Row.tid, bad |-> "", kbad |-> ""]

TUpR == /\ IsEvent("Up") /\ Row.p = "R" /\ ~h.up
        /\ h' = HUp(cfg, h, T, {}, Row.caps) /\ k' = HUp(cfg, k, T, KF, Row.caps)
        /\ up' = [up EXCEPT !["R"] = TRUE] /\ capsOf' = [capsOf EXCEPT !["R"] = Row.caps]
        /\ upAt' = [upAt EXCEPT !["R"] = T]
        /\ eorFrom' = [eorFrom EXCEPT !["R"] = [f \in Fams |-> FALSE]]
        /\ Sync(up', capsOf', eorFrom', ~syncK)
        /\ TakeObs /\ UNCHANGED <<cfg, srt>>
TUpO == /\ IsEvent("Up") /\ Row.p # "R" /\ ~up[Row.p]
        /\ h' = HOther(cfg, h, T, {}) /\ k' = HOther(cfg, k, T, KF)
        /\ up' = [up EXCEPT ![Row.p] = TRUE] /\ capsOf' = [capsOf EXCEPT ![Row.p] = FixedCaps(Row.p)]
        /\ upAt' = [upAt EXCEPT ![Row.p] = T]
        /\ eorFrom' = [eorFrom EXCEPT ![Row.p] = [f \in Fams |-> FALSE]]
        /\ Sync(up', capsOf', eorFrom', ~syncK)
        /\ TakeObs /\ UNCHANGED <<cfg, srt>>
TLossR == /\ IsEvent("Loss") /\ Row.p = "R" /\ h.up
          /\ h' = HLoss(cfg, h, T, {}, Row.kind) /\ k' = HLoss(cfg, k, T, KF, Row.kind)
          /\ up' = [up EXCEPT !["R"] = FALSE]
          /\ eorFrom' = [eorFrom EXCEPT !["R"] = [f \in Fams |-> FALSE]]
          /\ Sync(up', capsOf, eorFrom', FALSE)
          /\ TakeObs /\ UNCHANGED <<cfg, srt, capsOf, upAt>>
TAnnR == /\ IsEvent("Ann") /\ Row.p = "R" /\ h.up
         /\ h' = HAnn(cfg, h, T, {}, Row.x, Row.c) /\ k' = HAnn(cfg, k, T, KF, Row.x, Row.c)
         /\ SyncSame /\ TakeObs /\ UNCHANGED <<cfg, srt, up, capsOf, upAt, eorFrom>>
TWdR  == /\ IsEvent("Wd") /\ Row.p = "R" /\ h.up
         /\ h' = HWd(cfg, h, T, {}, Row.x) /\ k' = HWd(cfg, k, T, KF, Row.x)
         /\ SyncSame /\ TakeObs /\ UNCHANGED <<cfg, srt, up, capsOf, upAt, eorFrom>>
TAnnS == /\ IsEvent("Ann") /\ Row.p = "S" /\ up["S"]
         /\ h' = HOther(cfg, h, T, {}) /\ k' = HOther(cfg, k, T, KF)
         /\ srt' = [srt EXCEPT ![Row.x] = Fresh("S", Row.c)]
         /\ SyncSame /\ TakeObs /\ UNCHANGED <<cfg, up, capsOf, upAt, eorFrom>>
TWdS  == /\ IsEvent("Wd") /\ Row.p = "S" /\ up["S"]
         /\ h' = HOther(cfg, h, T, {}) /\ k' = HOther(cfg, k, T, KF)
         /\ srt' = [srt EXCEPT ![Row.x] = NoRoute]
         /\ SyncSame /\ TakeObs /\ UNCHANGED <<cfg, up, capsOf, upAt, eorFrom>>
TEor  == /\ IsEvent("Eor") /\ up[Row.p]
         /\ IF Row.p = "R" THEN h' = HEor(cfg, h, T, {}, Row.f) /\ k' = HEor(cfg, k, T, KF, Row.f)
                           ELSE h' = HOther(cfg, h, T, {}) /\ k' = HOther(cfg, k, T, KF)
         /\ eorFrom' = [eorFrom EXCEPT ![Row.p][Row.f] = TRUE]
         /\ Sync(up, capsOf, eorFrom', StillHeld(Row.p, T))
         /\ TakeObs /\ UNCHANGED <<cfg, srt, up, capsOf, upAt>>
TFail == /\ IsEvent("FailConn") /\ Row.p = "R" /\ ~h.up
         /\ h' = HFailConn(cfg, h, T, {}) /\ k' = HFailConn(cfg, k, T, KF)
         /\ SyncSame /\ TakeObs /\ UNCHANGED <<cfg, srt, up, capsOf, upAt, eorFrom>>
TTick == /\ IsEvent("Tick")
         /\ h' = HTick(cfg, h, T, {}) /\ k' = HTick(cfg, k, T, KF)
         /\ SyncSame /\ TakeObs /\ UNCHANGED <<cfg, srt, up, capsOf, upAt, eorFrom>>

TraceStep == TUpR \/ TUpO \/ TLossR \/ TAnnR \/ TWdR \/ TAnnS \/ TWdS \/ TEor \/ TFail \/ TTick

---------------------------------------------------------------------------
(* harness sanity, NOT property verdicts *)
Gap_Sessions == hasObs => \A p \in Nbrs : (obs.sess[p] = "up") = up[p]
Gap_Clock    == hasObs => now >= 0

---------------------------------------------------------------------------
(* is neighbour p required to hold the normal export now?  Always, unless the speaker is restarting. *)
D1000 == 1000 * cfg.deferral
MustTell(p) == ~cfg.restart \/ strongEver \/ (upAt[p] >= 0 /\ now > upAt[p] + D1000)
(* is everything of family f required to be withheld from every neighbour? *)
MustHold(f) == cfg.restart /\ ~weakEver[f] /\ now < D1000

(* one prefix, judged against life-cycle g, with (b) or without R's route *)
MatchX(g, x, b) ==
  /\ obs.rib[x] = ExpRib(g, srt, x, b)
  /\ obs.adjin[x] = ExpAdjIn(g, x, b)
  /\ \A p \in Nbrs : (up[p] /\ ~cfg.restart) => obs.views[p][x] = ExpView(g, srt, p, x, b)
OkX(g, x) == MatchX(g, x, TRUE) \/ (g.rts[x] # NoRoute /\ g.rts[x].opt /\ MatchX(g, x, FALSE))
Judged(g) == hasObs /\ ~g.taint /\ ~g.edge

(* what an earlier session of R negotiated differs from what the CURRENT session negotiated (input-defined:
   sticky accumulates the capabilities of all OPENs of R, caps is the last one) *)
StickyDiffers(g) ==
  LET s == g.sticky  c == g.caps IN
    \/ s.gr # (cfg.gr /\ c.gr)
    \/ \E f \in Fams : s.fams[f] # (cfg.gr /\ c.gr /\ c.fams[f])
    \/ s.n # (cfg.gr /\ c.gr /\ cfg.notif /\ c.n)
    \/ \E f \in Fams : s.llgr[f] # (IF cfg.gr /\ c.gr /\ cfg.llgr THEN c.llgr[f] ELSE 0)

(* which clause of the property is being exercised for prefix x (names the verdict) *)
Clause(g, x) ==
  LET r == g.rts[x] IN
  CASE g.last = "nonq_pfx"  -> "pfxlimit"
    [] g.last = "failconn"  -> "failconn"
    [] StickyDiffers(g)     -> "sticky"
    [] g.llever -> "llgr"            \* a long-lived period has begun earlier in this history
    [] g.last = "nonq_nogr" -> "nogr"
    [] g.last = "nonq"      -> "nonq"
    [] g.last = "qual"      -> "split"
    [] g.last = "qual2" \/ g.second -> "second"
    [] (r # NoRoute /\ r.ls) \/ g.ldl[FamOf(x)] >= 0 -> "llgr"
    [] r = NoRoute /\ g.last = "up"  -> "reup"
    [] r # NoRoute /\ ~r.stale /\ g.up -> "fresh"
    [] r # NoRoute /\ r.stale /\ obs.adjin[x] = NoRoute -> "early"
    [] r # NoRoute /\ r.stale -> "stale"
    [] OTHER -> "purge"

Holds(g, cl) == Judged(g) => \A x \in Prefixes : Clause(g, x) = cl => OkX(g, x)

(* [P] any loss other than the qualifying ones removes everything at once; nothing of the UPDATE that broke
   the limit is installed *)
C12_PrefixLimitRemovesAll   == Holds(h, "pfxlimit") /\ ((Judged(h) /\ h.last = "nonq_pfx") => obs.extra = <<>>)
(* [P] "a session with negotiated graceful restart": what THIS session negotiated decides whether and for
   which families a loss is graceful, whether a NOTIFICATION qualifies, which End-of-RIBs are awaited *)
C12_CurrentSessionCapsDecide == Holds(h, "sticky")
C12_NoGrRemovesAll          == Holds(h, "nogr")
C12_NonQualifyingRemovesAll == Holds(h, "nonq")
(* [P] at a qualifying loss the GR families stay, marked stale, all others are removed at once *)
C12_FamilySplit             == Holds(h, "split")
(* [P] a second loss inside the restart window *)
C12_SecondLoss              == Holds(h, "second")
(* [P] LLGR_STALE attached, NO_LLGR dropped, least preferred, only to LLGR-capable neighbours, gone at the
   per-family long-lived time *)
C12_LlgrDepreferencedAndRestricted == Holds(h, "llgr")
(* [P] after re-establishment the stale routes go when End-of-RIB has arrived for every GR family (at once
   if there is none) *)
C12_PurgeOnReestablish      == Holds(h, "reup")
(* [P] stale routes live, unchanged, until the restart timer expires / the End-of-RIBs arrive - not shorter;
   a connection attempt that fails is not a re-establishment and changes nothing *)
C12_PurgeNotEarly           == Holds(h, "early") /\ Holds(h, "failconn")
(* [P] stale routes stay usable (in the table, advertised) and are marked stale *)
C12_StaleUsableMarked       == Holds(h, "stale")
(* [P] "re-announced ones are fresh": what R announced in its current session is in the tables, unmarked,
   whatever timer of the earlier restart expires *)
C12_ReannouncedAreFresh     == Holds(h, "fresh")
(* [P] gone exactly at the restart-timer expiry / on all End-of-RIBs *)
C12_PurgeExactlyWhen        == Holds(h, "purge")
(* nothing outside what the neighbours validly announced is ever installed or advertised *)
C12_NoForeignRoutes         == Judged(h) => obs.extra = <<>>

(* [P] as the restarting speaker nothing is advertised until every GR neighbour sent End-of-RIB or the
   deferral timer fires; then everything is.  tell(p): is p required to hold the normal export now *)
ViewOk(p, x) == \/ obs.views[p][x] = ExpView(h, srt, p, x, TRUE)
                \/ (h.rts[x] # NoRoute /\ h.rts[x].opt /\ obs.views[p][x] = ExpView(h, srt, p, x, FALSE))
Deferral(tell(_)) ==
  (hasObs /\ cfg.restart /\ ~h.taint /\ ~h.edge) =>
     \A x \in Prefixes : \A p \in Nbrs : up[p] =>
        /\ MustHold(FamOf(x)) => obs.views[p][x] = NoRoute
        /\ tell(p) => ViewOk(p, x)
        /\ (obs.views[p][x] = NoRoute \/ ViewOk(p, x))
C12_DeferralWithholds == Deferral(MustTell)
MustTellK(p) == syncK \/ (upAt[p] >= 0 /\ now > upAt[p] + D1000)
C12_DeferralWithholds_KF == Deferral(MustTellK)

(* ---- known findings: the same clauses judged against the history replayed with the deviations KF ---- *)
HoldsK(cl) == Judged(k) => \A x \in Prefixes : Clause(h, x) = cl => OkX(k, x)
C12_PrefixLimitRemovesAll_KF   == HoldsK("pfxlimit") /\ ((Judged(k) /\ h.last = "nonq_pfx") => (obs.extra = <<>> \/ k.over))
C12_CurrentSessionCapsDecide_KF == HoldsK("sticky")
C12_NoGrRemovesAll_KF          == HoldsK("nogr")
C12_NonQualifyingRemovesAll_KF == HoldsK("nonq")
C12_FamilySplit_KF             == HoldsK("split")
C12_SecondLoss_KF              == HoldsK("second")
C12_LlgrDepreferencedAndRestricted_KF == HoldsK("llgr")
C12_PurgeOnReestablish_KF      == HoldsK("reup")
C12_PurgeNotEarly_KF           == HoldsK("early") /\ HoldsK("failconn")
C12_StaleUsableMarked_KF       == HoldsK("stale")
C12_ReannouncedAreFresh_KF     == HoldsK("fresh")
C12_PurgeExactlyWhen_KF        == HoldsK("purge")
C12_NoForeignRoutes_KF         == Judged(k) => (obs.extra = <<>> \/ k.over)

---------------------------------------------------------------------------
(* TRIAGE (not a verdict): tri remembers, per trace, the first strict clause and the first *_KF clause that do
   not hold, and prints them once.  With Triage = TRUE in a cfg WITHOUT the C12 invariants one TLC run sorts a
   whole batch into "passes / fails the strict cfg", so that the verdict runs (strict cfg, KF cfg) can be
   organised without one TLC restart per failing trace.  The verdicts themselves are the invariants above. *)
FirstBad ==
  CASE ~C12_PrefixLimitRemovesAll -> "C12_PrefixLimitRemovesAll"
    [] ~C12_CurrentSessionCapsDecide -> "C12_CurrentSessionCapsDecide"
    [] ~C12_NoGrRemovesAll -> "C12_NoGrRemovesAll"
    [] ~C12_NonQualifyingRemovesAll -> "C12_NonQualifyingRemovesAll"
    [] ~C12_FamilySplit -> "C12_FamilySplit"
    [] ~C12_PurgeOnReestablish -> "C12_PurgeOnReestablish"
    [] ~C12_PurgeNotEarly -> "C12_PurgeNotEarly"
    [] ~C12_SecondLoss -> "C12_SecondLoss"
    [] ~C12_LlgrDepreferencedAndRestricted -> "C12_LlgrDepreferencedAndRestricted"
    [] ~C12_StaleUsableMarked -> "C12_StaleUsableMarked"
    [] ~C12_ReannouncedAreFresh -> "C12_ReannouncedAreFresh"
    [] ~C12_PurgeExactlyWhen -> "C12_PurgeExactlyWhen"
    [] ~C12_NoForeignRoutes -> "C12_NoForeignRoutes"
    [] ~C12_DeferralWithholds -> "C12_DeferralWithholds"
    [] OTHER -> ""
FirstBadK ==
  CASE ~C12_PrefixLimitRemovesAll_KF -> "C12_PrefixLimitRemovesAll_KF"
    [] ~C12_CurrentSessionCapsDecide_KF -> "C12_CurrentSessionCapsDecide_KF"
    [] ~C12_NoGrRemovesAll_KF -> "C12_NoGrRemovesAll_KF"
    [] ~C12_NonQualifyingRemovesAll_KF -> "C12_NonQualifyingRemovesAll_KF"
    [] ~C12_FamilySplit_KF -> "C12_FamilySplit_KF"
    [] ~C12_PurgeOnReestablish_KF -> "C12_PurgeOnReestablish_KF"
    [] ~C12_PurgeNotEarly_KF -> "C12_PurgeNotEarly_KF"
    [] ~C12_SecondLoss_KF -> "C12_SecondLoss_KF"
    [] ~C12_LlgrDepreferencedAndRestricted_KF -> "C12_LlgrDepreferencedAndRestricted_KF"
    [] ~C12_StaleUsableMarked_KF -> "C12_StaleUsableMarked_KF"
    [] ~C12_ReannouncedAreFresh_KF -> "C12_ReannouncedAreFresh_KF"
    [] ~C12_PurgeExactlyWhen_KF -> "C12_PurgeExactlyWhen_KF"
    [] ~C12_NoForeignRoutes_KF -> "C12_NoForeignRoutes_KF"
    [] ~C12_DeferralWithholds_KF -> "C12_DeferralWithholds_KF"
    [] OTHER -> ""
TriStep ==
  IF ~Triage THEN tri' = tri
  ELSE LET b == IF tri.bad = "" THEN FirstBad' ELSE tri.bad
           kb == IF tri.kbad = "" THEN FirstBadK' ELSE tri.kbad
       IN /\ tri' = [tri EXCEPT !.bad = b, !.kbad = kb]
          /\ (tri.bad = "" /\ b # "") => PrintT("VPOUT " \o ToJson([tid |-> tri.tid, inv |-> b, line |-> l]))
          /\ (tri.kbad = "" /\ kb # "") => PrintT("VPOUT " \o ToJson([tid |-> tri.tid, kinv |-> kb, line |-> l]))

TraceNext == TReset \/ (TraceStep /\ TriStep)
TraceSpec == TraceInit /\ [][TraceNext]_tvars

---------------------------------------------------------------------------
(* distinct non-trivial cases: the antecedent of the property really exercised *)
Sig(g) == <<cfg, g.caps, g.restarting, g.last, g.second, [x \in Prefixes |-> g.rts[x]], srt,
            [f \in Fams |-> g.ldl[f] >= 0], g.rdl >= 0>>
TraceConstraint ==
  /\ Hwm(l)
  /\ NoteIf(Judged(h) /\ (h.restarting \/ h.last \in {"nonq", "nonq_pfx", "nonq_nogr"}), Sig(h))
  /\ NoteIf(hasObs /\ cfg.restart /\ \E f \in Fams : MustHold(f) /\ \E x \in Prefixes : FamOf(x) = f /\ Cands(h, srt, x, TRUE) # <<>>,
            <<"hold", up, eorFrom, capsOf["R"], h.rts, srt>>)
TraceAccepted == Accepted

Explain == [l |-> l, ev |-> IF l > 1 THEN Trace[l - 1] ELSE [ev |-> "init"], h |-> h, k |-> k, srt |-> srt,
            clause |-> [x \in Prefixes |-> Clause(h, x)],
            exprib |-> [x \in Prefixes |-> ExpRib(h, srt, x, TRUE)],
            weak |-> weakEver, strong |-> strongEver, upAt |-> upAt]
=============================================================================
