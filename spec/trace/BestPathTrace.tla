---------------------------- MODULE BestPathTrace ----------------------------
(* Validates executions of the real table code (harness/table/c03_test.go) against BestPath.
   One line = one Calculate() on the real destination, with what the code reported afterwards.
   The C03_* invariants compare the recorded observation with the PROPERTY layer (a function of
   the present set only); Conf_* compare it with the MECHANISM layer (informational). *)
EXTENDS BestPath, BestPathDom, TraceUtil

VARIABLES l, present, obs, everTainted, stream
tvars == <<list, tainted, l, present, obs, everTainted, stream>>

NoObs == [list |-> <<>>, best |-> NONE, multi |-> <<>>, chgbest |-> "nochange", chgkind |-> "nochange", chgsrc |-> NONE]

TraceInit == Init /\ l = 1 /\ present = {} /\ obs = NoObs /\ everTainted = FALSE /\ stream = NONE

(* the best-path notification of one Calculate (Update.GetChanges for the global view, what the server hands to
   propagation, watchers, BMP, MRT and the FIB) replayed on top of the notifications before it *)
Replay(s, o) == CASE o.chgkind = "nochange" -> s
                  [] o.chgkind = "wd" -> NONE
                  [] OTHER -> o.chgsrc

IsEvent(e) == l <= TLen /\ Trace[l].ev = e /\ l' = l + 1

OptMatches(o) == o.acm = Opt.acm /\ o.ignlen = Opt.ignlen /\ o.extcmp = Opt.extcmp

TReset == /\ IsEvent("Reset")
          /\ Assert(OptMatches(Trace[l].opt), "trace recorded under other options than this cfg")
          /\ list' = <<>> /\ tainted' = FALSE /\ present' = {} /\ obs' = NoObs
          /\ everTainted' = FALSE /\ stream' = NONE

TAdd == /\ IsEvent("Add")
        /\ LET r == Trace[l].r IN
             /\ Add(r)
             /\ present' = {x \in present : x.src # r.src} \cup {r}
             /\ LET np == {x \in present : x.src # r.src} \cup {r}
                IN NoteIf(Cardinality(TopTie(np)) >= 2, <<Opt, np>>)
        /\ obs' = Trace[l].obs /\ stream' = Replay(stream, Trace[l].obs)
        /\ everTainted' = (everTainted \/ tainted')

TWithdraw == /\ IsEvent("Withdraw")
             /\ LET s == Trace[l].src IN
                  /\ Withdraw(s)
                  /\ present' = {x \in present : x.src # s}
                  /\ LET np == {x \in present : x.src # s}
                     IN NoteIf(Cardinality(TopTie(np)) >= 2, <<Opt, np>>)
             /\ obs' = Trace[l].obs /\ stream' = Replay(stream, Trace[l].obs)
             /\ everTainted' = (everTainted \/ tainted')

TraceNext == TReset \/ TAdd \/ TWithdraw
TraceSpec == TraceInit /\ [][TraceNext]_tvars

TraceConstraint == Hwm(l)
TraceAccepted == Accepted

---------------------------------------------------------------------------
ObsSet(f) == SeqToSet(obs[f])
BySrc(srcs) == {x \in present : x.src \in srcs}

(* C02 (last clause), judged here because the table-level traces carry it: the best-path notification stream
   replayed in order reproduces the current best path - also when the best path moves between two sources whose
   routes a neighbour could not tell apart.  A consistency requirement between two outputs of the code (the table
   and its change notification); the decision-process model is not involved *)
C02_BestStreamReplays == stream = obs.best

(* the list the code reports holds exactly one route per present source *)
C03_ListIsPresent == /\ ObsSet("list") = {x.src : x \in present}
                     /\ Len(obs.list) = Cardinality(present)

(* whenever the present set is decisive the reported best is THE documented best *)
C03_Best == (present # {} /\ Decisive(present)) =>
              (HasBest(present) /\ obs.best = ExpectedBestSrc(present))

(* always: the head is not beaten on the criteria before MED; the reported best is the head
   unless its next hop is unreachable *)
C03_TopTie == present # {} =>
              /\ \E h \in present : h.src = obs.list[1] /\ h \in TopTie(present)
                                    /\ obs.best = (IF h.nhinv THEN NONE ELSE h.src)

C03_EmptyNoBest == present = {} => (obs.best = NONE /\ obs.list = <<>> /\ obs.multi = <<>>)

(* multipath sandwich around the reported best *)
C03_MultiLower == (present # {} /\ obs.best # NONE) =>
                    LET b == CHOOSE x \in present : x.src = obs.best
                    IN {x.src : x \in MultiLower(present, b)} \subseteq ObsSet("multi")
C03_MultiUpper == (present # {} /\ obs.best # NONE) =>
                    LET b == CHOOSE x \in present : x.src = obs.best
                    IN /\ ObsSet("multi") \subseteq {x.src : x \in MultiUpper(present, b)}
                       /\ obs.best \in ObsSet("multi")
C03_MultiNoneIfNoBest == obs.best = NONE => obs.multi = <<>>

(* KNOWN FINDING KF-C03-stale-order (known_findings.jsonl): the list is only ever updated by one
   binary insertion / one removal.  Once it has held a set whose MEDs were not comparable across
   all candidates (`tainted`), its order can be stale, and a later MED-comparable set is reported
   with a best that is not the documented one.  The weakened invariant tolerates exactly that. *)
C03_Best_KF == tainted \/ C03_Best

(* informational: the code follows the mechanism model exactly *)
Conf_List == obs.list = [i \in 1..Len(list) |-> list[i].src]

(* counts of non-trivial evaluations, printed once at the end for the evidence file *)
=============================================================================
