SPECIFICATION TraceSpec
CONSTANTS
  MaxSeg = 255
CONSTRAINT TraceConstraint
POSTCONDITION TraceAccepted
CHECK_DEADLOCK FALSE
INVARIANTS
  C14_DownWellFormed
  C14_DownAggregator
  C14_RoundTrip_KF
  C14_RoundTripConfed_KF
  C14_RoundTripAggregator
  C14_NoEmptyOrOverlong_KF
  C14_NoLengthening_KF
  C14_NoLengtheningConfed_KF
  C14_IgnoreLongerAs4
  C14_IgnoreLongerAs4Confed_KF
  C14_GroupInputIntact
  C14_SharedListUnchanged
