SPECIFICATION TraceSpec
CONSTRAINT TraceConstraint
POSTCONDITION TraceAccepted
CHECK_DEADLOCK FALSE
INVARIANTS
  C09_Attrs
  C09_MayAdvertise
  C09_Advertise
  C09_Withdraw
  C09_StoredUnchanged
  C09_Inbound
  C09_InboundNoStale
