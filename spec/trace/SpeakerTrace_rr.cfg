SPECIFICATION TraceSpec
CONSTANTS
  Peers <- P3
  PInfo <- PI_rr
  Prefixes <- Pfx2
  LocalAS = 65000
CONSTRAINT TraceConstraint
POSTCONDITION TraceAccepted
CHECK_DEADLOCK FALSE
INVARIANTS
  Gap_Sessions
  C01_ExportExact
  C02_AdjInExact
  C02_LocRibExact
  C02_Counters
