SPECIFICATION TraceSpec
CONSTRAINT TraceConstraint
POSTCONDITION TraceAccepted
CHECK_DEADLOCK FALSE
INVARIANTS
  C10_ConfigNoCrash_KF
  C10_ReadBack_NoDangling_KF
  C10_Verdict_KF
  C10_Attrs_KF
  C10_StoredUnchanged_KF
  C10_ReadBack_KF
