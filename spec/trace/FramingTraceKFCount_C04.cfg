SPECIFICATION TraceSpec
CONSTRAINT TraceConstraint
POSTCONDITION KfReport
CHECK_DEADLOCK FALSE
INVARIANTS
  C04_KfCount
