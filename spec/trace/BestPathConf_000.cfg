SPECIFICATION TraceSpec
CONSTANTS
  Sources <- AllSources
  SrcInfo <- SrcTable
  Opt <- Opt000
CONSTRAINT TraceConstraint
POSTCONDITION TraceAccepted
CHECK_DEADLOCK FALSE
INVARIANTS
  Conf_List







