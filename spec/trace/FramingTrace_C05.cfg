SPECIFICATION TraceSpec
CONSTRAINT TraceConstraint
POSTCONDITION TraceAccepted
CHECK_DEADLOCK FALSE
INVARIANTS
  C05_NoPanic
  C05_Terminates
  C05_BufferUntouched
  C05_NoOverRead
  C05_RenderSafe
  C05_BoundedAlloc
