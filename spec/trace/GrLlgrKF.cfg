SPECIFICATION TraceSpec
CONSTANTS
  Prefixes = {"x1", "x2", "y1", "y2"}
  KF = {}
  Triage = FALSE
CONSTRAINT TraceConstraint
POSTCONDITION TraceAccepted
CHECK_DEADLOCK FALSE
INVARIANTS
  Gap_Sessions
  Gap_Clock
  C12_PrefixLimitRemovesAll_KF
  C12_CurrentSessionCapsDecide_KF
  C12_NoGrRemovesAll_KF
  C12_NonQualifyingRemovesAll_KF
  C12_FamilySplit_KF
  C12_PurgeOnReestablish_KF
  C12_PurgeNotEarly_KF
  C12_SecondLoss_KF
  C12_LlgrDepreferencedAndRestricted_KF
  C12_StaleUsableMarked_KF
  C12_ReannouncedAreFresh_KF
  C12_PurgeExactlyWhen_KF
  C12_NoForeignRoutes_KF
  C12_DeferralWithholds_KF
