SPECIFICATION TraceSpec
CONSTANTS
  Sources <- AllSources
  SrcInfo <- SrcTable
  Opt <- Opt000
CONSTRAINT TraceConstraint
POSTCONDITION TraceAccepted
CHECK_DEADLOCK FALSE
INVARIANTS
  C03_ListIsPresent
  C03_Best_KF
  C03_TopTie
  C03_EmptyNoBest
  C03_MultiLower
  C03_MultiUpper
  C03_MultiNoneIfNoBest
  C02_BestStreamReplays
