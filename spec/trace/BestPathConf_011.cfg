SPECIFICATION TraceSpec
CONSTANTS
  Sources <- AllSources
  SrcInfo <- SrcTable
  Opt <- Opt011
CONSTRAINT TraceConstraint
POSTCONDITION TraceAccepted
CHECK_DEADLOCK FALSE
INVARIANTS
  Conf_List







