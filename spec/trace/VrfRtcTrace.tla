---------------------------- MODULE VrfRtcTrace ----------------------------
(* Validates executions of the real BgpServer (harness/c17) against the property layer of
   VrfRtc.tla.  One line = one input step applied to the running server, followed by exact
   quiescence (synctest), with the observation taken then:
     obs.vrfs        ListVrf
     obs.vrfview[n]  ListPath(TABLE_TYPE_VRF, n): exists, routes [rd, x, v, src, plain]
     obs.gvpn        the global VPNv4 table [rd, x, label, rts, v, src]
     obs.vpn[p]      VPNv4 view of N1 / N2 = fold of every MP_REACH / MP_UNREACH written to it
     obs.ce          IPv4 unicast view of the CE neighbour [x, v]
     obs.sess, obs.junk (UPDATE content a neighbour did not negotiate), t (virtual ms).
   The C17_* invariants compare the observation with the PROPERTY layer.  The *_KF variants compare
   with the mechanism layer run with the known defects switched on (Defects of the cfg): they hold
   exactly when the code deviates from the property in the recorded way and in no other. *)
EXTENDS VrfRtcMech, TraceUtil

ASSUME TLCSet(3, {})
ASSUME TLCSet(4, {})
ASSUME TLCSet(5, {})

VARIABLES l, obs, hasObs, tid
tvars == <<cfg, up, ceOn, nin, cein, loc, vrfs, mem, wait, eor, deadline, now, wN1, wN2, wN3, wCE, l, obs, hasObs, tid>>

NoObs == [none |-> TRUE]
TraceInit == MInit([defer |-> 0, addpath |-> FALSE]) /\ l = 1 /\ obs = NoObs /\ hasObs = FALSE /\ tid = 0

IsEvent(e) == l <= TLen /\ Trace[l].ev = e /\ l' = l + 1
Row == Trace[l]
TakeObs == obs' = Row.obs /\ hasObs' = TRUE /\ UNCHANGED tid

OCe(s)   == {[x |-> s[i].x, v |-> s[i].v] : i \in 1..Len(s)}
NormR(r) == [src |-> r.src, rd |-> r.rd, x |-> r.x, label |-> r.label, rts |-> SeqToSet(r.rts), v |-> r.v, lp |-> r.lp]
NormM(m) == [as |-> m.as, rt |-> m.rt, id |-> m.id]
NormV(w) == [name |-> w.name, rd |-> w.rd, label |-> w.label, imp |-> SeqToSet(w.imp), exp |-> SeqToSet(w.exp)]

TReset == /\ IsEvent("Reset")
          /\ cfg' = [defer |-> Row.cfg.defer, addpath |-> Row.cfg.addpath]
          /\ up' = [p \in PeerNames |-> FALSE] /\ ceOn' = FALSE
          /\ nin' = {} /\ cein' = {} /\ loc' = {} /\ vrfs' = {} /\ mem' = {}
          /\ wait' = FALSE /\ eor' = FALSE /\ deadline' = 0 /\ now' = 0
          /\ wN1' = {} /\ wN2' = {} /\ wN3' = {} /\ wCE' = {}
          /\ obs' = NoObs /\ hasObs' = FALSE /\ tid' = Row.tid

TUp     == IsEvent("Up") /\ MUp(Row.p) /\ TakeObs
TDown   == IsEvent("Down") /\ MDown(Row.p) /\ TakeObs
(* the one-per-prefix selection of the full transfer is taken from the observation when it is a
   possible one *)
TCeUp   == /\ IsEvent("CeUp") /\ HasVrf(CeVrf)
           /\ MCeUp(IF OCe(Row.obs.ce) \in CeDumps THEN OCe(Row.obs.ce) ELSE CHOOSE d \in CeDumps : TRUE)
           /\ TakeObs
TCeDown == IsEvent("CeDown") /\ MCeDown /\ TakeObs
TVAnn   == IsEvent("VAnn") /\ MVAnn(NormR(Row.r)) /\ TakeObs
TVWd    == IsEvent("VWd") /\ MVWd(NormR(Row.r)) /\ TakeObs
TMAnn   == IsEvent("MAnn") /\ MMAnn(NormM(Row.m)) /\ TakeObs
TMWd    == IsEvent("MWd") /\ MMWd(NormM(Row.m)) /\ TakeObs
TMEor   == IsEvent("MEor") /\ MMEor /\ TakeObs
TAddVrf == IsEvent("AddVrf") /\ MAddVrf(NormV(Row.vrf)) /\ TakeObs
TDelVrf == IsEvent("DelVrf") /\ MDelVrf(Row.name) /\ TakeObs
TCeAnn  == IsEvent("CeAnn") /\ MCeAnn(Row.x, Row.v) /\ TakeObs
TCeWd   == IsEvent("CeWd") /\ MCeWd(Row.x) /\ TakeObs
TApiAdd == IsEvent("ApiAdd") /\ MApiAdd(Row.name, Row.x, Row.v) /\ TakeObs
TApiDel == IsEvent("ApiDel") /\ MApiDel(Row.name, Row.x) /\ TakeObs
TTick   == IsEvent("Tick") /\ MTick(Row.d) /\ TakeObs

TraceNext == TReset \/ TUp \/ TDown \/ TCeUp \/ TCeDown \/ TVAnn \/ TVWd \/ TMAnn \/ TMWd \/ TMEor
             \/ TAddVrf \/ TDelVrf \/ TCeAnn \/ TCeWd \/ TApiAdd \/ TApiDel \/ TTick
TraceSpec == TraceInit /\ [][TraceNext]_tvars

---------------------------------------------------------------------------
(* observations as sets *)
OVpn(s)  == {[rd |-> s[i].rd, x |-> s[i].x, label |-> s[i].label, rts |-> SeqToSet(s[i].rts), v |-> s[i].v] : i \in 1..Len(s)}
OGvpn(s) == {[rd |-> s[i].rd, x |-> s[i].x, label |-> s[i].label, rts |-> SeqToSet(s[i].rts), v |-> s[i].v, src |-> s[i].src] : i \in 1..Len(s)}
OVrfs(s) == {[name |-> s[i].name, rd |-> s[i].rd, imp |-> SeqToSet(s[i].imp), exp |-> SeqToSet(s[i].exp)] : i \in 1..Len(s)}
OView(s) == {[rd |-> s[i].rd, x |-> s[i].x, v |-> s[i].v, src |-> s[i].src] : i \in 1..Len(s)}

(* harness sanity, NOT property verdicts *)
Gap_Sessions == hasObs => /\ \A p \in {"N1", "N2", "N3"} : (obs.sess[p] = "up") = up[p]
                          /\ (obs.sess["CE"] = "up") = up["CE"]
Gap_Clock    == hasObs => Trace[l - 1].t = now
Gap_Junk     == hasObs => \A p \in PeerNames : obs.junk[p] = 0
(* the VPN routes of N2 reached the global table as the schedule says *)
Gap_GlobalVpn == hasObs => {e \in OGvpn(obs.gvpn) : e.src \notin {"CE", "local"}} = LearnedPaths

(* C17: ListVrf = the configured VRFs *)
C17_ListVrf ==
  hasObs => /\ OVrfs(obs.vrfs) = {[name |-> w.name, rd |-> w.rd, imp |-> w.imp, exp |-> w.exp] : w \in vrfs}
            /\ Len(obs.vrfs) = Cardinality(vrfs)

(* C17: a VPN route is visible in a VRF, as a plain route, iff one of its transitive targets is in
   the VRF's import set *)
C17_VrfVisible ==
  hasObs => \A n \in {"v1", "v2"} :
     /\ obs.vrfview[n].exists = HasVrf(n)
     /\ HasVrf(n) => LET s == obs.vrfview[n].routes IN
                       /\ OView(s) = VrfVisible(n)
                       /\ Len(s) = Cardinality(VrfVisible(n))
                       /\ \A i \in 1..Len(s) : s[i].plain

(* C17: ... and re-advertised to the VRF's attached neighbour as a plain route: the CE holds only
   plain forms of routes its VRF imports, one per prefix ... *)
C17_CeExport == (hasObs /\ up["CE"]) => /\ CeSound(OCe(obs.ce))
                                        /\ Len(obs.ce) = Cardinality(OCe(obs.ce))
(* ... and every prefix for which the VRF imports a route *)
C17_CeComplete == (hasObs /\ up["CE"]) => CeComplete(OCe(obs.ce))

(* C17: a route originated in a VRF is exported with the VRF's RD, label and export targets:
   in the global VPN table and towards the VPN neighbour *)
C17_VrfExport ==
  hasObs => /\ {e \in OGvpn(obs.gvpn) : e.src \in {"CE", "local"}} = VrfOriginatedExport
            /\ \A p \in PEs : up[p] => \A r \in VrfOriginatedExport :
                   (r \in VpnRoutes /\ MayAdv(p, r)) => Wire(r) \in OVpn(obs.vpn[p])

(* C17: towards the RTC neighbour exactly the routes it has a membership for; while the RTC
   End-of-RIB wait lasts only "nothing else"; a VPN neighbour without RTC gets everything *)
C17_RtcExact ==
  hasObs => /\ up["N1"] => IF wait THEN OVpn(obs.vpn["N1"]) \subseteq RtcExport("N1")
                                   ELSE OVpn(obs.vpn["N1"]) = RtcExport("N1")
            /\ \A p \in PEs : up[p] => OVpn(obs.vpn[p]) = AllExport(p)

(* RFC 4684 3 (the other half of "every VRF change triggers exactly the advertisements and withdrawals needed"):
   the speaker's OWN route-target memberships, as the RTC neighbour holds them, are exactly the import targets
   of the VRFs configured now - a target another VRF still imports stays, whatever the RDs of the VRFs *)
OwnTargets == UNION {w.imp : w \in vrfs}
C17_OwnMemberships ==
  (hasObs /\ up["N1"] /\ Has(obs, "rtcown")) => SeqToSet(obs.rtcown) = OwnTargets

(* known-finding variants: the code behaves as the mechanism with the known defects *)
C17_RtcExact_KF ==
  hasObs => /\ up["N1"] => OVpn(obs.vpn["N1"]) = wN1
            /\ \A p \in PEs : up[p] => OVpn(obs.vpn[p]) = AllExport(p)
C17_CeExport_KF == (hasObs /\ up["CE"]) => OCe(obs.ce) = wCE /\ Len(obs.ce) = Cardinality(wCE)
C17_CeComplete_KF == C17_CeExport_KF

(* informational conformance: code = mechanism model (with the Defects of the cfg) *)
Conf_Views == hasObs => /\ up["N1"] => OVpn(obs.vpn["N1"]) = wN1
                        /\ up["N2"] => OVpn(obs.vpn["N2"]) = wN2
                        /\ up["N3"] => OVpn(obs.vpn["N3"]) = wN3
                        /\ up["CE"] => OCe(obs.ce) = wCE

---------------------------------------------------------------------------
(* model-level scan (cfg VrfRtcScan, Defects = the known ones): traces in which the mechanism WITH
   the known defects leaves the property layer.  Registers 3 / 4 collect their ids. *)
TaintRtc == up["N1"] /\ (IF wait THEN ~(wN1 \subseteq RtcExport("N1")) ELSE wN1 # RtcExport("N1"))
TaintCe  == up["CE"] /\ ~CeSound(wCE)
TaintCeMiss == up["CE"] /\ ~CeComplete(wCE)
ScanConstraint == /\ Hwm(l)
                  /\ IF TaintRtc THEN TLCSet(3, TLCGet(3) \cup {tid}) ELSE TRUE
                  /\ IF TaintCe THEN TLCSet(4, TLCGet(4) \cup {tid}) ELSE TRUE
                  /\ IF TaintCeMiss THEN TLCSet(5, TLCGet(5) \cup {tid}) ELSE TRUE
ScanAccepted == Accepted /\ PrintT("VPOUT " \o ToJson([tainted |-> [rtc |-> TLCGet(3), ce |-> TLCGet(4), cemiss |-> TLCGet(5)]]))

(* distinct non-trivial cases: states with a VPN route and either an RTC neighbour holding a
   membership or a configured VRF *)
NonTrivial == hasObs /\ VpnRoutes # {} /\ ((up["N1"] /\ mem # {}) \/ vrfs # {})
TraceConstraint == Hwm(l) /\ NoteIf(NonTrivial, <<VpnRoutes, mem, vrfs, up, wait>>)
TraceAccepted == Accepted

(* debugging aid *)
Explain == [l |-> l, ev |-> IF l > 1 THEN Trace[l - 1] ELSE NoObs, mem |-> mem, vrfs |-> vrfs, routes |-> VpnRoutes,
            wait |-> wait, expectN1 |-> RtcExport("N1"), mechN1 |-> wN1, expectCE |-> IF up["CE"] THEN CeExport ELSE {}, mechCE |-> wCE]
=============================================================================
