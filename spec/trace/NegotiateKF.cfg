SPECIFICATION TraceSpec
CONSTRAINT TraceConstraint
POSTCONDITION TraceAccepted
CHECK_DEADLOCK FALSE
INVARIANTS
  C08_OpenSent_KF
  C08_Outcome
  C08_Hold
  C08_Keepalive
  C08_Families
  C08_Emitted_KF
  C08_AddPath
  C08_FourOctet
  C08_ExtMsg
  C08_PeerType
  C08_ProbesAgree
  C08_Renegotiated
