SPECIFICATION TraceSpec
CONSTANTS
  Prefixes = {"x1", "x2", "y1", "y2"}
  KF = {}
  Triage = TRUE
CONSTRAINT TraceConstraint
POSTCONDITION TraceAccepted
CHECK_DEADLOCK FALSE
INVARIANTS
  Gap_Sessions
  Gap_Clock
