SPECIFICATION TraceSpec
CONSTANTS
  Nbrs = {"n1", "n2", "n3"}
  Mults = {3, 5}
  Asns = {65001, 65002}
CONSTRAINT TraceConstraint
POSTCONDITION TraceAccepted
CHECK_DEADLOCK FALSE
INVARIANTS
  Gap_OpSucceeded
  C20_BfdHelperSet
  C20_BfdHelperParams
  C20_BfdNoGoroutineLeak
