SPECIFICATION TraceSpec
CONSTANTS
  Peers <- P3
  PInfo <- PI_ebgp3
  Prefixes <- Pfx2
  LocalAS = 65000
  ApPeers = {"A", "B"}
  ApIds = {1, 2, 3}
CONSTRAINT TraceConstraint
POSTCONDITION TraceAccepted
CHECK_DEADLOCK FALSE
INVARIANTS
  Gap_ApSessions
  Gap_ApShape
  C02_ApAdjInExact
  C02_ApLocRibExact_FloodDel
  C02_ApLocRibExact
  C02_ApLocalIds
  C02_ApBestFirst
  C02_ApCounters
  C02_ApBestStream
  C02_ApExportBest
