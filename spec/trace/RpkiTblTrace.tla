---------------------------- MODULE RpkiTblTrace ----------------------------
(* Trace spec of C16, white box: validates recorded executions of the REAL ROATable
   (Add / Delete / DeleteAll / List / Validate) and of a real policy with rpki-validation-result
   conditions (harness/c16) against the property layer of Rpki.tla.
   T = the records added and not deleted (set semantics of the operations, from the inputs only). *)
EXTENDS Rpki, RpkiDom, TraceUtil

VARIABLES l, cur, T, routes
tvars == <<ps, ms, tbl, l, cur, T, routes>>

NoRow == [ev |-> "none", v |-> FALSE, obs |-> [table |-> <<>>, val |-> <<>>, pol |-> <<>>]]

TraceInit == Init /\ l = 1 /\ cur = NoRow /\ T = {} /\ routes = <<>>

Row == Trace[l]
IsEvent(e) == l <= TLen /\ Row.ev = e /\ l' = l + 1 /\ cur' = Row /\ UNCHANGED vars

(* prefix containment as the spec reads it must agree with the reference implementation (netip);
   a disagreement is a defect of the model, not a verdict *)
CoversAgree(cv) == \A i \in 1..Len(cv) : Covers(cv[i][1], cv[i][2]) = cv[i][3]

TrReset == /\ l <= TLen /\ Row.ev = "Reset" /\ l' = l + 1 /\ cur' = NoRow /\ UNCHANGED vars
           /\ Assert(CoversAgree(Row.covers), "spec and netip disagree on prefix containment")
           /\ T' = {} /\ routes' = RoutePool(Row.rk)
           /\ Assert(Len(RoutePool(Row.rk)) = Row.nroutes, "route pool of the trace differs from the spec's")
TrAdd == IsEvent("Add") /\ T' = T \cup {Row.r} /\ UNCHANGED routes
TrDel == IsEvent("Del") /\ T' = T \ {Row.r} /\ UNCHANGED routes
TrDelAll == IsEvent("DelAll") /\ T' = {x \in T : x.c # Row.c} /\ UNCHANGED routes

TraceNext == TrReset \/ TrAdd \/ TrDel \/ TrDelAll
TraceSpec == TraceInit /\ [][TraceNext]_tvars

TraceConstraint == Hwm(l)
TraceAccepted == Accepted

---------------------------------------------------------------------------
(* the table lists exactly the records added and not deleted (a record listed twice is tolerated:
   the text does not say) *)
C16_TblTable == SeqToSet(cur.obs.table) = T

(* every recorded verdict is the RFC 6811 verdict over T *)
C16_TblValidate ==
  cur.v => /\ Len(cur.obs.val) = Len(routes)
           /\ \A i \in 1..Len(routes) : cur.obs.val[i] = VerdictCode(Validate(T, routes[i]))
           /\ NoteIf(\E i \in 1..Len(routes) : Covering(T, routes[i]) # {}, T)

(* the policy condition reaches the same verdict: exactly the statement of that verdict matched *)
C16_TblPolicyAgrees ==
  cur.v => /\ Len(cur.obs.pol) = Len(routes)
           /\ \A i \in 1..Len(routes) : cur.obs.pol[i] = cur.obs.val[i]
=============================================================================
