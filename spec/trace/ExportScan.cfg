SPECIFICATION TraceSpec
CONSTRAINT TraceConstraint
POSTCONDITION ScanAccepted
CHECK_DEADLOCK FALSE
INVARIANTS
  Scan
