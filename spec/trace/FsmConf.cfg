SPECIFICATION TraceSpec
CONSTANTS
  LargeHold = 240
  PeerHolds = {0, 3, 9}
  Ticks = {1}
CONSTRAINT TraceConstraint
POSTCONDITION TraceAccepted
CHECK_DEADLOCK FALSE
INVARIANTS
  Conf_State
  Conf_Stream
  Conf_Conns
  Conf_Dial
  Conf_Rib
