------------------------------ MODULE As4Trace ------------------------------
(* Validates executions of the real conversion code (harness/c14/c14_test.go) against As4.tla.
     Reset                      start of a trace, kind "rt", "pair" or "grp"
     Down  p, agg, obs          UpdatePathAttrs2ByteAs + UpdatePathAggregator2ByteAs on the UPDATE
                                carrying AS_PATH p / AGGREGATOR agg, serialised as for a 2-octet
                                peer and parsed back: obs = what that peer is sent
     Up    as2, as4, g2, g4, obs  UpdatePathAttrs4ByteAs + UpdatePathAggregator4ByteAs on a received
                                UPDATE with these four attributes: obs = what the RIB gets.
                                In an "rt" trace the inputs of Up are the observation of Down.
     Shared obs                 ("grp" only) the attribute list the messages of the group shared,
                                after all of them were converted.  A "grp" trace is Down Up Down Up
                                ... Shared: k messages of one attribute group, converted in turn.
   The C14_* invariants compare the recorded observations with the PROPERTY layer of As4.tla
   (RFC 6793 text); Conf_* compare them with the MECHANISM layer (informational).
   The invariants about reconstruction come in two input classes, AS_PATH without / with
   confederation segments (suffix Confed); together they are the property, apart they let a known
   finding be identified exactly. *)
EXTENDS As4, TraceUtil

VARIABLES l, ph, kind, p0, g0, pre, dn, in, up, sh
tvars == <<l, ph, kind, p0, g0, pre, dn, in, up, sh>>

NoView == [aspath |-> <<>>, as4 |-> NoAs4, agg |-> NoAgg, agg4 |-> NoAgg, err |-> "", via |-> "wire",
           naspath |-> 1, enc |-> 0, aggoct |-> 0, otheratt |-> 0]
NoIn   == [as2 |-> <<>>, as4 |-> NoAs4, g2 |-> NoAgg, g4 |-> NoAgg]

(* Every trace of the file is a behaviour of its own: the initial state points at any Reset line,
   and nothing consumes a Reset line except from the initial ("idle") phase.  A counterexample is
   therefore at most four states long however many traces the file holds.  Acceptance = every line
   was consumed by some behaviour (register 3 collects the values of l reached by consuming). *)
StartLines == {i \in 1..TLen : Trace[i].ev = "Reset"}
ASSUME TLCSet(3, {})

TraceInit == /\ l \in StartLines /\ ph = "idle" /\ kind = "none" /\ p0 = <<>> /\ g0 = NoAgg
             /\ pre = NoView /\ dn = NoView /\ in = NoIn /\ up = NoView /\ sh = NoView

IsEvent(e) == l <= TLen /\ Trace[l].ev = e /\ l' = l + 1

View(o) == [aspath |-> o.aspath, as4 |-> o.as4, agg |-> o.agg, agg4 |-> o.agg4, err |-> o.err,
            via |-> o.via, naspath |-> o.naspath, enc |-> o.enc, aggoct |-> o.aggoct,
            otheratt |-> o.otheratt]

ShapeKey(p) == [i \in 1..Len(p) |-> <<p[i].t, Len(p[i].as), Cardinality({j \in 1..Len(p[i].as) : Wide(p[i].as[j])})>>]

TReset == /\ IsEvent("Reset") /\ ph = "idle"
          /\ ph' = (IF Trace[l].kind \in {"rt", "grp"} THEN "rt0" ELSE "pair0")
          /\ kind' = Trace[l].kind
          /\ p0' = <<>> /\ g0' = NoAgg /\ dn' = NoView /\ in' = NoIn /\ up' = NoView
          /\ pre' = NoView /\ sh' = NoView

(* the harness must hand the code RFC-valid inputs; anything else is a machinery error *)
(* In a "grp" trace several UPDATE messages that share one attribute list are converted one after
   the other: a further Down (same original path and aggregator) follows the Up of the previous
   message.  pre = what the message carried when its conversion started. *)
TDown == /\ IsEvent("Down") /\ (ph = "rt0" \/ (kind = "grp" /\ ph = "rtup"))
         /\ LET e == Trace[l] IN
              /\ Assert(ValidPath(e.p) /\ SegsOK(e.p), "harness built an invalid AS_PATH")
              /\ ph = "rtup" => (e.p = p0 /\ e.agg = g0)
              /\ p0' = e.p /\ g0' = e.agg /\ dn' = View(e.obs) /\ pre' = View(e.pre)
              /\ NoteIf(ph = "rtup", <<"grp", ShapeKey(e.p), e.agg.as>>)
         /\ ph' = "down" /\ UNCHANGED <<kind, in, up, sh>>

(* the shared attribute list (via "packer": the attributes of the route itself) after all messages *)
TShared == /\ IsEvent("Shared") /\ kind = "grp" /\ ph = "rtup"
           /\ sh' = View(Trace[l].obs)
           /\ ph' = "shared" /\ UNCHANGED <<kind, p0, g0, pre, dn, in, up>>

TUp == /\ IsEvent("Up") /\ ph \in {"down", "pair0"}
       /\ LET e == Trace[l] IN
            /\ ph = "down" => (e.as2 = dn.aspath /\ e.as4 = dn.as4 /\ e.g2 = dn.agg /\ e.g4 = dn.agg4)
            /\ ph = "pair0" => /\ e.obs.via = "wire"
                               /\ Assert(ValidPath(e.as2) /\ SegsOK(e.as2) /\ AllNarrow(e.as2)
                                         /\ SegsOK(e.as4.segs), "harness built an invalid pair")
            /\ in' = [as2 |-> e.as2, as4 |-> e.as4, g2 |-> e.g2, g4 |-> e.g4]
            /\ up' = View(e.obs)
            /\ NoteIf(e.as4.p /\ NonConfed(e.as4.segs) # <<>>,
                      <<ph, ShapeKey(e.as2), ShapeKey(e.as4.segs)>>)
       /\ ph' = (IF ph = "down" THEN "rtup" ELSE "pairup")
       /\ UNCHANGED <<kind, p0, g0, pre, dn, sh>>

TraceNext == TReset \/ TDown \/ TUp \/ TShared
TraceSpec == TraceInit /\ [][TraceNext]_tvars

TraceConstraint == IF ph # "idle" THEN TLCSet(3, TLCGet(3) \cup {l}) ELSE TRUE
TraceAccepted ==
  LET missing == (2..(TLen + 1)) \ TLCGet(3) IN
  IF missing = {} /\ TLen > 0
  THEN PrintT("VPOUT " \o ToJson([nontrivial |-> [n |-> Cardinality(TLCGet(2))]]))
  ELSE /\ PrintT("VPHWM " \o ToString((CHOOSE m \in missing : \A k \in missing : m <= k) - 1))
       /\ FALSE

---------------------------------------------------------------------------
AfterDown == ph \in {"down", "rtup"}
AfterUp   == ph \in {"rtup", "pairup"}
PlainIn   == ~HasConfed(in.as2)
ConfedIn  == HasConfed(in.as2)

(* the form sent to a 2-octet peer is well-formed: it serialises and parses as a 2-octet UPDATE,
   AS_PATH is the original with AS_TRANS for every wide AS, AS4_PATH (needed iff a wide AS sits in
   a non-confederation segment) carries the non-confederation segments and nothing else *)
C14_DownWellFormed ==
  AfterDown => /\ dn.err = "" /\ dn.via = "wire" /\ dn.naspath = 1
               /\ dn.enc \in {0, 2}
               /\ DownWellFormed(p0, dn)
C14_DownAggregator ==
  AfterDown => /\ AggDownWellFormed(g0, dn.agg, dn.agg4)
               /\ dn.agg.p => dn.aggoct = 2

RoundTripHolds == up.err = "" /\ up.naspath = 1 /\ RoundTripOK(p0, up.aspath)
C14_RoundTrip       == (ph = "rtup" /\ ~HasConfed(p0)) => RoundTripHolds
C14_RoundTripConfed == (ph = "rtup" /\ HasConfed(p0)) => RoundTripHolds
C14_RoundTripAggregator == ph = "rtup" => (up.agg = g0 /\ (g0.p => up.aggoct = 4))

(* several messages share one attribute list: sending one of them to a 2-octet peer must leave the
   list as it was, or the next message of the group (and the route itself) is converted from an
   already converted form.  The round trip of EVERY message is demanded by the invariants above,
   which judge each Down/Up pair of a "grp" trace. *)
IntactView(w) == /\ w.aspath = p0 /\ w.naspath = 1 /\ w.enc \in {0, 4} /\ ~w.as4.p
                 /\ w.agg = g0 /\ (g0.p => w.aggoct = 4) /\ ~w.agg4.p
C14_GroupInputIntact    == AfterDown => IntactView(pre)
C14_SharedListUnchanged == ph = "shared" => IntactView(sh)

C14_NoEmptyOrOverlong == AfterUp => SegsOK(up.aspath)

NoLengtheningHolds == Count(up.aspath) <= Count(in.as2)
C14_NoLengthening       == (AfterUp /\ PlainIn) => NoLengtheningHolds
C14_NoLengtheningConfed == (AfterUp /\ ConfedIn) => NoLengtheningHolds

IgnoreLongerHolds == LongerAs4(in.as2, in.as4) => SamePath(up.aspath, in.as2)
C14_IgnoreLongerAs4       == (AfterUp /\ PlainIn) => IgnoreLongerHolds
C14_IgnoreLongerAs4Confed == (AfterUp /\ ConfedIn) => IgnoreLongerHolds

---------------------------------------------------------------------------
(* KNOWN FINDINGS (findings_proposed/C14-*.md).  A weakened invariant tolerates exactly the output
   the transcribed mechanism produces on an input inside the finding's predicate. *)
TolA == KF_A(in.as2, in.as4) /\ up.aspath = MechUp(in.as2, in.as4)     \* KF-C14-confed-count
TolB == KF_B(in.as2, in.as4) /\ up.aspath = MechUp(in.as2, in.as4)     \* KF-C14-keep0-empty

C14_RoundTripConfed_KF       == C14_RoundTripConfed \/ (ph = "rtup" /\ up.err = "" /\ up.naspath = 1 /\ TolA)
C14_NoLengtheningConfed_KF   == C14_NoLengtheningConfed \/ TolA
C14_IgnoreLongerAs4Confed_KF == C14_IgnoreLongerAs4Confed \/ TolA
C14_RoundTrip_KF             == C14_RoundTrip \/ (ph = "rtup" /\ up.err = "" /\ up.naspath = 1 /\ TolB)
C14_NoEmptyOrOverlong_KF     == C14_NoEmptyOrOverlong \/ TolB
C14_NoLengthening_KF         == C14_NoLengthening \/ TolB

---------------------------------------------------------------------------
(* informational: the code follows the mechanism layer exactly (the transcribed one, or the
   repaired one once the findings are fixed); and outside the known findings and the
   AGGREGATOR/AS_TRANS rule (not part of C14's text) it is the RFC reconstruction *)
Conf_Down == AfterDown => (dn.aspath = MechDown(p0).aspath /\ dn.as4 = MechDown(p0).as4
                           /\ dn.agg = MechDownAgg(g0).agg /\ dn.agg4 = MechDownAgg(g0).agg4)
Conf_Up   == AfterUp => /\ (up.aspath = MechUp(in.as2, in.as4) \/ up.aspath = MechUpFixed(in.as2, in.as4))
                        /\ ~up.as4.p /\ ~up.agg4.p
                        /\ up.agg = MechUpAgg(in.g2, in.g4)
                        /\ up.enc \in {0, 4}
Conf_Rfc  == (AfterUp /\ ~KF_A(in.as2, in.as4) /\ ~KF_B(in.as2, in.as4) /\ ~AggOverrides(in.g2, in.g4)) =>
                /\ SamePath(up.aspath, RfcUpFull(in.as2, in.as4, in.g2, in.g4))
                /\ up.agg.as = RfcUpAgg(in.g2, in.g4).as
=============================================================================
