---------------------------- MODULE NegotiateTrace ----------------------------
(* Validates executions of the real speaker (harness/c08/c08_test.go) against Negotiate.
   One trace = one behaviour (configuration, received OPEN), i.e. a few real sessions of a fresh
   BgpServer in virtual time; its lines are
     Reset        the inputs cfg, open
     OpenSent     the OPEN the speaker sent, decoded from the bytes
     Handshake    what it answered to the neighbour's OPEN (KEEPALIVE -> established / NOTIFICATION)
     Negotiated   what it holds afterwards (ListPeer timers, peer type, peer AS; fsm.familyMap,
                  fsm.twoByteAsTrans, fsm.extendedMessage)
     Export       the UPDATEs it sent for routes it originates (families, path-id encoding,
                  AS_PATH octet width / AS4_PATH, LOCAL_PREF, message sizes)
     Timers       KEEPALIVE instants and the hold-timer NOTIFICATION while the neighbour is silent
     Renegotiated a second session of the same speaker with a reduced OPEN (field open2)
     RecvPlain    an UPDATE encoded the way the neighbour has to -> Adj-RIB-In
     RecvAddPath  an UPDATE whose NLRI carries a path identifier (per negotiated family)
     RecvBig      an UPDATE longer than 4096 octets
     RecvBigKa    a KEEPALIVE longer than 4096 octets
   The C08_* invariants compare the recorded observation of the line just consumed with the
   PROPERTY layer of Negotiate, a function of (cfg, open) only. *)
EXTENDS Negotiate, TraceUtil

VARIABLES l, cfg, open, cur, neg
tvars == <<l, cfg, open, cur, neg>>

NoCur == [ev |-> "none"]
NoNeg == [seen |-> FALSE]

TraceInit == l = 1 /\ cfg = <<>> /\ open = <<>> /\ cur = NoCur /\ neg = NoNeg

IsEvent(e) == l <= TLen /\ Trace[l].ev = e /\ l' = l + 1

TReset == /\ IsEvent("Reset")
          /\ cfg' = Trace[l].cfg /\ open' = Trace[l].open
          /\ cur' = [ev |-> "Reset"] /\ neg' = NoNeg

(* which line may follow which (anything else is a conformance gap of the harness) *)
Follows(e) ==
  CASE e = "OpenSent"    -> cur.ev = "Reset"
    [] e = "Handshake"   -> cur.ev = "OpenSent"
    [] e = "Negotiated"  -> cur.ev = "Handshake" /\ cur.obs.out = "established"
    [] e = "Export"      -> cur.ev = "Negotiated"
    [] e = "Timers"      -> cur.ev = "Export"
    [] e = "Renegotiated" -> cur.ev = "Timers"
    [] e \in {"RecvPlain", "RecvAddPath", "RecvBig", "RecvBigKa"} ->
         cur.ev \in {"Renegotiated", "RecvPlain", "RecvAddPath", "RecvBig"}

TStep(e) == /\ IsEvent(e) /\ Follows(e)
            /\ cur' = IF e = "Renegotiated" THEN [ev |-> e, obs |-> Trace[l].obs, open2 |-> Trace[l].open2]
                      ELSE [ev |-> e, obs |-> Trace[l].obs]
            /\ neg' = IF e = "Negotiated" THEN [seen |-> TRUE, obs |-> Trace[l].obs] ELSE neg
            /\ e = "Negotiated" => NoteIf(TRUE, <<cfg, open>>)
            /\ UNCHANGED <<cfg, open>>

TraceNext == \/ TReset
             \/ \E e \in {"OpenSent", "Handshake", "Negotiated", "Export", "Timers", "Renegotiated",
                          "RecvPlain", "RecvAddPath", "RecvBig", "RecvBigKa"} : TStep(e)
TraceSpec == TraceInit /\ [][TraceNext]_tvars

TraceConstraint == Hwm(l)
TraceAccepted == Accepted

---------------------------------------------------------------------------
Is(e) == cur.ev = e
Obs   == cur.obs
H     == Hold(cfg, open)
Fams  == Families(cfg, open)
FamSet(seq) == {x.fam : x \in Range(seq)}
Entry(seq, f) == CHOOSE x \in Range(seq) : x.fam = f

(* the probe route is in the Adj-RIB-In with path identifier id and the session is up *)
InAdjIn(o, id) == \E e \in Range(o.adjin) : e.pfx = o.pfx /\ e.id = id
Installed(o, id) == o.state = "established" /\ InAdjIn(o, id)
(* RecvPlain / RecvBig are encoded the way the neighbour is obliged to: with identifier o.id # 0
   when it must send identifiers, without (o.id = 0) when it must not.  The probe counts only
   when the specification agrees that this encoding is the required one. *)
EncodingRequired(o) == IF o.id = 0 THEN ~ApRecvUpper(cfg, open, o.fam) ELSE ApRecvLower(cfg, open, o.fam)

(* KEEPALIVEs every k seconds after the session came up, until the hold timer (h) expires *)
Cadence(o, k, h) == /\ \A i \in DOMAIN o.kas : o.kas[i] = i * k * 1000
                    /\ Len(o.kas) = Min(4, o.nka)
                    /\ o.nka >= (h - 1) \div k /\ o.nka <= h \div k

---------------------------------------------------------------------------
(* the OPEN sent reflects the configuration *)
C08_OpenSent == Is("OpenSent") => OpenSentOK(cfg, Obs)

(* hold time 1-2 / a wrong AS is refused with the NOTIFICATION of RFC 4271 6.2, anything else
   brings the session up *)
C08_Outcome == Is("Handshake") =>
                 IF Accepts(cfg, open) THEN Obs.out = "established"
                 ELSE Obs.out = "notif" /\ <<Obs.code, Obs.sub>> \in RefuseReasons(cfg, open)

(* hold time min(local, remote); the hold timer runs with exactly that value, not at all for 0 *)
C08_Hold ==
  /\ Is("Negotiated") => Obs.hold = H
  /\ Is("Timers") => IF H = 0 THEN ~Obs.notif.seen /\ Obs.state = "established" /\ ~Obs.eof
                     ELSE /\ Obs.notif.seen /\ Obs.notif.code = 4 /\ Obs.notif.sub = 0
                          /\ Obs.notif.at = H * 1000

C08_Keepalive ==
  /\ (Is("Negotiated") /\ H > 0) => Max(1, Obs.ka) \in KeepaliveAllowed(cfg, open)
  /\ Is("Timers") => IF H = 0 THEN Obs.nka = 0
                     ELSE \E k \in KeepaliveAllowed(cfg, open) : Cadence(Obs, k, H)

(* exactly the families both sides announced are in force; nothing is emitted for any other *)
C08_Families ==
  /\ Is("Negotiated") => FamSet(Obs.fams) = Fams /\ Obs.otherfams = 0
  /\ Is("Export") => FamSet(Obs.fams) \subseteq Fams /\ Obs.otherfams = 0

(* ... and every route of a negotiated family is emitted (1 per family, 1100 more IPv4 ones when cfg.bulk) *)
Injected(f) == IF f = "v4" /\ cfg.bulk THEN 1101 ELSE 1
C08_Emitted == Is("Export") => /\ Obs.bad = 0
                               /\ \A f \in Fams : f \in FamSet(Obs.fams) /\ Entry(Obs.fams, f).n = Injected(f)

C08_AddPath ==
  /\ Is("Negotiated") => \A x \in Range(Obs.fams) :
        /\ ApSendLower(cfg, open, x.fam) => x.send
        /\ x.send => ApSendUpper(cfg, open, x.fam)
        /\ ApRecvLower(cfg, open, x.fam) => x.recv
        /\ x.recv => ApRecvUpper(cfg, open, x.fam)
  /\ Is("Export") => \A x \in Range(Obs.fams) :
        /\ ApSendLower(cfg, open, x.fam) => x.enc = "ap"
        /\ ~ApSendUpper(cfg, open, x.fam) => x.enc = "plain"
  /\ Is("RecvAddPath") =>
        /\ ApRecvLower(cfg, open, Obs.fam) => Installed(Obs, Obs.id)
        /\ ~ApRecvUpper(cfg, open, Obs.fam) => \A e \in Range(Obs.adjin) : e.id = 0
  /\ Is("RecvPlain") => (EncodingRequired(Obs) => Installed(Obs, Obs.id))

(* 4-octet AS numbers in AS_PATH iff both announced the capability; otherwise 2 octets with
   AS_TRANS and AS4_PATH (the exported path holds AS 1000555) *)
C08_FourOctet ==
  /\ Is("Negotiated") => Obs.as4 = FourOctet(cfg, open)
  /\ (Is("Export") /\ Obs.aspw # 0) =>
        IF FourOctet(cfg, open)
        THEN Obs.aspw = 4 /\ ~Obs.as4path /\ 1000555 \in Range(Obs.aspath)
        ELSE Obs.aspw = 2 /\ Obs.as4path /\ 1000555 \notin Range(Obs.aspath) /\ AS_TRANS \in Range(Obs.aspath)
  /\ Is("RecvPlain") => /\ Obs.asw = (IF FourOctet(cfg, open) THEN 4 ELSE 2)
                        /\ \A e \in Range(Obs.adjin) : e.pfx = Obs.pfx => e.aspath = Obs.sentpath

(* messages above 4096 octets only if the peer announced Extended Message, never OPEN/KEEPALIVE *)
C08_ExtMsg ==
  /\ Is("Negotiated") => Obs.ext = ExtMsg(cfg, open)
  /\ Is("Export") => /\ Obs.maxother <= MaxLegacy
                     /\ ~ExtMsg(cfg, open) => Obs.maxupd <= MaxLegacy
                     /\ NoteIf(Obs.maxupd > MaxLegacy, <<"big", cfg, open>>)
  /\ Is("Timers") => Obs.maxlen <= MaxLegacy
  /\ Is("RecvBig") => IF ExtMsg(cfg, open) THEN (EncodingRequired(Obs) => Installed(Obs, Obs.id))
                      ELSE /\ \A e \in Range(Obs.adjin) : e.pfx # Obs.pfx
                           /\ Obs.notif.seen /\ Obs.notif.code = 1 /\ Obs.notif.sub = 2
  \* RFC 8654 4: the limit of OPEN and KEEPALIVE stays 4096 (RFC 4271 6.1: Bad Message Length)
  /\ Is("RecvBigKa") => Obs.state = "down" /\ Obs.notif.seen /\ Obs.notif.code = 1 /\ Obs.notif.sub = 2

(* peer type from the REAL remote AS: reported, and used on export (an external peer gets the
   local AS prepended and no LOCAL_PREF, an internal one the path as it is and LOCAL_PREF) *)
LocalOnWire == IF FourOctet(cfg, open) \/ cfg.las <= 65535 THEN cfg.las ELSE AS_TRANS
OriginOnWire == IF FourOctet(cfg, open) THEN 1000555 ELSE AS_TRANS
C08_PeerType ==
  /\ Is("Negotiated") => Obs.ptype = PeerType(cfg, open) /\ Obs.peeras = RealAS(open)
  /\ (Is("Export") /\ Obs.aspath # <<>>) =>
        IF PeerType(cfg, open) = "external"
        THEN ~Obs.lp /\ Obs.aspath[1] = LocalOnWire /\ Len(Obs.aspath) = 3
        ELSE Obs.lp /\ Obs.aspath[1] = OriginOnWire /\ Len(Obs.aspath) = 2

(* what the speaker reports as negotiated is what it really does on the wire *)
C08_ProbesAgree ==
  /\ Is("Export") => /\ neg.seen
                     /\ \A x \in Range(Obs.fams) :
                          /\ x.fam \in FamSet(neg.obs.fams)
                          /\ x.enc = (IF Entry(neg.obs.fams, x.fam).send THEN "ap" ELSE "plain")
                     /\ Obs.aspw \in {2, 4} => (Obs.aspw = 4) = neg.obs.as4
                     /\ Obs.maxupd > MaxLegacy => neg.obs.ext
  /\ Is("Timers") => IF neg.obs.hold = 0 THEN Obs.nka = 0 /\ ~Obs.notif.seen
                     ELSE /\ Cadence(Obs, Max(1, neg.obs.ka), neg.obs.hold)
                          /\ Obs.notif.seen /\ Obs.notif.at = neg.obs.hold * 1000
  /\ (Is("RecvAddPath") /\ Obs.fam \in FamSet(neg.obs.fams)) =>
        IF Entry(neg.obs.fams, Obs.fam).recv THEN Installed(Obs, Obs.id)
        ELSE \A e \in Range(Obs.adjin) : e.id = 0
  /\ Is("RecvBig") => IF neg.obs.ext
                      THEN (Entry(neg.obs.fams, Obs.fam).recv = (Obs.id # 0)) => Installed(Obs, Obs.id)
                      ELSE \A e \in Range(Obs.adjin) : e.pfx # Obs.pfx

(* a later session of the same speaker is negotiated from ITS OPEN alone: nothing of the
   previous negotiation survives (cur.open2 has no capability but, possibly, the 4-octet AS) *)
C08_Renegotiated == Is("Renegotiated") =>
  LET o2 == cur.open2  n == Obs.neg IN
  IF ~Accepts(cfg, o2) THEN Obs.out = "notif" /\ <<Obs.code, Obs.sub>> \in RefuseReasons(cfg, o2)
  ELSE /\ Obs.out = "established"
       /\ n.hold = Hold(cfg, o2)
       /\ (Hold(cfg, o2) > 0 => Max(1, n.ka) \in KeepaliveAllowed(cfg, o2))
       /\ FamSet(n.fams) = Families(cfg, o2) /\ n.otherfams = 0
       /\ \A x \in Range(n.fams) : (x.send => ApSendUpper(cfg, o2, x.fam)) /\ (x.recv => ApRecvUpper(cfg, o2, x.fam))
       /\ n.as4 = FourOctet(cfg, o2) /\ n.ext = ExtMsg(cfg, o2)
       /\ n.ptype = PeerType(cfg, o2) /\ n.peeras = RealAS(o2)

---------------------------------------------------------------------------
(* KNOWN FINDING KF-C08-as2-overflow: towards a neighbour without the 4-octet capability the
   sender converts an already packed UPDATE (AS_TRANS + AS4_PATH are added AFTER the packer filled
   the message to 4096 octets); the grown message fails to serialise and is dropped, the routes in
   it are never sent.  Signature: 2-octet session and the sender's discarded-message counter is
   not zero.  Only the completeness of the export is weakened. *)
(* KNOWN FINDING KF-C08-gr-time-overflow: the default restart time is the configured hold time;
   a hold time above 4095 s does not fit the 12-bit Restart Time field and spills into the flag
   bits of the Graceful Restart capability (R and N are sent as 1 although the speaker is not
   restarting and notification support is not configured).  Only the two flag bits are waived. *)
C08_OpenSent_KF == (Is("OpenSent") /\ cfg.gr # "off" /\ LHold(cfg) > 4095 /\ OpenSentOKx(cfg, Obs, FALSE))
                   \/ C08_OpenSent

C08_Emitted_KF == (Is("Export") /\ ~FourOctet(cfg, open) /\ Obs.discarded > 0) \/ C08_Emitted
=============================================================================
