---------------------------- MODULE AdjInApTrace ----------------------------
(* Validates executions of the real BgpServer (harness/c02ap) against the property layer of
   AdjInAp.tla: C02 where neighbours send several paths per prefix (ADD-PATH receive).
   One line = one input step applied to the running server, followed by exact quiescence, with the
   observation taken then:
     adjin[p]    p's Adj-RIB-In (white box): list of [x, id (REMOTE path identifier), src, v, rej]
     rib[x]      the global table listing of x (ListPath), in listing order:
                 [src, v (from the route's tag), nbr (source neighbour of the path), id (identifier =
                  remote path id), lid (local identifier), best]
     ctr[p]      ListPeer received / accepted (-1: the neighbour is not listed)
     beststream  the best-path watcher events folded in order: per prefix [src, v] or none
     views[p][x] what neighbour p holds (fold of every UPDATE written to its connection)
     sess[p]     reported session state. *)
EXTENDS AdjInAp, SpeakerDom, TraceUtil

VARIABLES l, obs, hasObs,
          ghost    \* bookkeeping for the known finding KF-C02-update-after-delete only (see the end)
tvars == <<up, inr, loc, gone, l, obs, hasObs, ghost>>

NoObs == [none |-> TRUE]
TraceInit == Init /\ l = 1 /\ obs = NoObs /\ hasObs = FALSE /\ ghost = {}

(* the routes announced by the UPDATEs of a flood that ended with the removal of the neighbour *)
GhostsOf(row) == UNION {{[x |-> m.ann[j].x, src |-> row.p, id |-> m.ann[j].id, v |-> m.r.v] : j \in 1..Len(m.ann)}
                        : m \in KeySet(row.msgs)}

Row == Trace[l]

TReset == /\ l <= TLen /\ Row.ev = "Reset" /\ l' = l + 1
          /\ up' = [p \in Peers |-> FALSE] /\ inr' = [p \in Peers |-> Empty]
          /\ loc' = [x \in Prefixes |-> NoRoute] /\ gone' = {}
          /\ obs' = NoObs /\ hasObs' = FALSE /\ ghost' = {}

TStep  == /\ l <= TLen /\ Row.ev # "Reset" /\ l' = l + 1
          /\ Do(Row)
          /\ obs' = Row.obs /\ hasObs' = TRUE
          /\ ghost' = IF Row.ev = "Flood" /\ Row.end = "DelPeer" THEN ghost \cup GhostsOf(Row) ELSE ghost

TraceNext == TReset \/ TStep
TraceSpec == TraceInit /\ [][TraceNext]_tvars

---------------------------------------------------------------------------
(* harness sanity, NOT a property verdict: the sessions are in the state the schedule drove them to,
   every observed record speaks about a prefix of the pool *)
Gap_ApSessions == hasObs => \A p \in Peers : (obs.sess[p] = "up") = up[p]
Gap_ApShape    == hasObs => /\ DOMAIN obs.rib = Prefixes
                            /\ \A p \in Peers : \A i \in 1..Len(obs.adjin[p]) : obs.adjin[p][i].x \in Prefixes

(* C02: each neighbour's Adj-RIB-In holds exactly the most recent un-withdrawn route per
   (destination, path identifier) received on the current session, with the rejected flag for
   the routes that fail the loop check; nothing twice *)
C02_ApAdjInExact ==
  hasObs => \A p \in Peers :
     /\ SeqToSet(obs.adjin[p]) = AdjInExpected(p)
     /\ Len(obs.adjin[p]) = Cardinality(AdjInExpected(p))

(* C02: the Loc-RIB entry of every destination holds exactly the routes that passed the loop
   check plus the local route - one per (source, path identifier), nothing twice, nothing from an
   ended session or a removed neighbour; the source neighbour of a listed path is the neighbour
   that announced it *)
LocRec(e) == [src |-> e.src, id |-> e.id, v |-> e.r.v]
RibRec(o) == [src |-> o.src, id |-> o.id, v |-> o.v]
Listed(x) == {RibRec(obs.rib[x][i]) : i \in 1..Len(obs.rib[x])}
LocRibExactAt(x) ==
     /\ Listed(x) = {LocRec(e) : e \in LocExpected(x)}
     /\ Len(obs.rib[x]) = Cardinality(LocExpected(x))
     /\ \A i \in 1..Len(obs.rib[x]) : obs.rib[x][i].nbr = obs.rib[x][i].src
C02_ApLocRibExact == hasObs => \A x \in Prefixes : LocRibExactAt(x)

(* C02: the paths of one destination carry pairwise different, non-zero local identifiers
   (destination.localIdMap: they are what tells the paths of a prefix apart from then on) *)
C02_ApLocalIds ==
  hasObs => \A x \in Prefixes : \A i, j \in 1..Len(obs.rib[x]) :
     /\ obs.rib[x][i].lid # 0
     /\ (i # j => obs.rib[x][i].lid # obs.rib[x][j].lid)

(* C02: best first.  The first listed path is a candidate that no other candidate beats on a
   documented step of the decision process; exactly the first one is flagged best.  Where several
   candidates tie on every documented step (paths of one neighbour) either may be first. *)
BestFirstAt(x) ==
     Len(obs.rib[x]) > 0 =>
        /\ RibRec(obs.rib[x][1]) \in {LocRec(e) : e \in Maximal(LocExpected(x))}
        /\ \A i \in 1..Len(obs.rib[x]) : obs.rib[x][i].best = (i = 1)
C02_ApBestFirst == hasObs => \A x \in Prefixes : BestFirstAt(x)

(* C02: received / accepted counters agree with that content; a removed neighbour is not listed *)
C02_ApCounters ==
  hasObs => \A p \in Peers :
     IF p \in gone THEN obs.ctr[p].received = -1 /\ obs.ctr[p].accepted = -1
     ELSE obs.ctr[p].received = NumReceived(p) /\ obs.ctr[p].accepted = NumAccepted(p)

(* C02: the best-path notification stream, folded in order, reproduces the current best per
   prefix: a candidate that may be best (none when there is no candidate), and the very route the
   table lists first *)
StreamRec(e) == [src |-> e.src, v |-> e.r.v]
BestStreamAt(x) ==
     /\ IF LocExpected(x) = {} THEN obs.beststream[x] = NoRoute
        ELSE obs.beststream[x] \in {StreamRec(e) : e \in Maximal(LocExpected(x))}
     /\ Len(obs.rib[x]) > 0 =>
           obs.beststream[x] = [src |-> obs.rib[x][1].src, v |-> obs.rib[x][1].v]
C02_ApBestStream == hasObs => \A x \in Prefixes : BestStreamAt(x)

(* C02/C01: what an established neighbour holds is the export of that best: the exported form of a
   candidate that may be best, and of the very route the table lists first *)
HeadRoute(x) == LET h == obs.rib[x][1]
                IN IF h.src = LOCSRC THEN loc[x] ELSE inr[h.src][x][h.id]
ExportBestAt(x) ==
  \A p \in Peers : up[p] =>
     /\ obs.views[p][x] \in ExportSet(p, x)
     /\ (Len(obs.rib[x]) > 0 /\ RibRec(obs.rib[x][1]) \in {LocRec(e) : e \in LocExpected(x)}) =>
           obs.views[p][x] = ExportRec(HeadRoute(x), p)
C02_ApExportBest == hasObs => \A x \in Prefixes : ExportBestAt(x)

---------------------------------------------------------------------------
(* Known finding KF-C02-update-after-delete: an UPDATE that the neighbour's receiver had already read
   when the neighbour was removed is applied AFTER the removal; its routes enter the Loc-RIB with nobody
   left to withdraw them.  ghost = the routes of such UPDATEs (floods cut off by DelPeer) in this trace.
   The narrow invariant names the situation (it comes first in the strict cfg so that the finding is
   attributed by name); the _KF invariants allow exactly these routes to be listed in addition, and
   do not judge the best path / export of a prefix that has such a candidate. *)
GhostAt(x) == {[src |-> g.src, id |-> g.id, v |-> g.v] : g \in {h \in ghost : h.x = x}}
C02_ApLocRibExact_FloodDel == ghost # {} => C02_ApLocRibExact
C02_ApLocRibExact_KF ==
  hasObs => \A x \in Prefixes :
     IF GhostAt(x) = {} THEN LocRibExactAt(x)
     ELSE /\ Listed(x) \ GhostAt(x) = {LocRec(e) : e \in LocExpected(x)} \ GhostAt(x)
          /\ {LocRec(e) : e \in LocExpected(x)} \subseteq Listed(x)
          /\ Len(obs.rib[x]) = Cardinality(Listed(x))
C02_ApBestFirst_KF  == hasObs => \A x \in Prefixes : GhostAt(x) = {} => BestFirstAt(x)
C02_ApBestStream_KF == hasObs => \A x \in Prefixes : GhostAt(x) = {} => BestStreamAt(x)
C02_ApExportBest_KF == hasObs => \A x \in Prefixes : GhostAt(x) = {} => ExportBestAt(x)

TraceConstraint == Hwm(l) /\ NoteIf(hasObs /\ MultiPath, <<up, inr, loc, gone>>)
TraceAccepted == Accepted

(* debugging aid (tools/explain.py) *)
Explain == [l |-> l, ev |-> IF l > 1 THEN Trace[l - 1].ev ELSE "init", up |-> up, gone |-> gone,
            adjin |-> [p \in Peers |-> AdjInExpected(p)],
            locrib |-> [x \in Prefixes |-> {LocRec(e) : e \in LocExpected(x)}],
            maximal |-> [x \in Prefixes |-> {LocRec(e) : e \in Maximal(LocExpected(x))}],
            ctr |-> [p \in Peers |-> [received |-> NumReceived(p), accepted |-> NumAccepted(p)]]]
=============================================================================
