SPECIFICATION TraceSpec
CONSTRAINT TraceConstraint
POSTCONDITION TraceAccepted
CHECK_DEADLOCK FALSE
INVARIANTS
  Gap_Built
  Gap_Proto
  Gap_Pre
  C18_NoPanic
  C18_Convertible
  C18_ApiFaithful
  C18_ImageAccepted
  C18_NativeRoundTrip
  C18_WireEqual
  C18_ApiRoundTrip
  C18_ApiValueRoundTrip
  C18_ApiValueDenotes
  C18_ListedAsAdded
  C18_DeletedGone
  C18_CanonicalAccepted
  C18_CfgRoundTrip
  C18_CfgFixpoint
