SPECIFICATION TraceSpec
CONSTANTS
  Sources <- AllSources
  SrcInfo <- SrcTable
  Opt <- Opt100
CONSTRAINT TraceConstraint
POSTCONDITION TraceAccepted
CHECK_DEADLOCK FALSE
INVARIANTS
  Conf_List







