---------------------------- MODULE StreamFramingTrace ----------------------------
(* C19 (B): judges the recorded behaviour of the REAL stream splitters and decoders of the MRT, BMP,
   RTR, ZAPI and BFD packages (harness/c19codec) against the length-prefixed-record model of
   StreamFraming.tla.  One trace = one abstract case of StreamFramingGen.tla: Reset, then one row
     Split  one call of mrt.SplitMrt / bmp.SplitBMP: octets given (bytes, n), atEOF, result (adv, toklen,
            hastok, prefix = the token is the head of the data, err, panic) and det = the same result when
            the slice has spare capacity filled with two different patterns;
     Scan   a three-record stream through bufio.Scanner with the real splitter, delivered in chunks;
     Dec    one decode: octets fed (bytes, n; full = length of the pristine message), mutation, result (err,
            val, skipped, panic, timeout), det as above, consumed (ZAPI: octets taken from the connection),
            for pristine octets the re-encoded octets (reenc) and the routes of a carried UPDATE.
   The spec reads the length field from the recorded octets itself (Declared); nothing the harness says
   about lengths is trusted. *)
EXTENDS StreamFraming, StreamFramingDom, TraceUtil

VARIABLES l, row, kind
tvars == <<l, row, kind>>

None == [none |-> TRUE]
TraceInit == l = 1 /\ row = None /\ kind = "none"
IsEvent(e) == l <= TLen /\ Trace[l].ev = e /\ l' = l + 1
TReset == IsEvent("Reset") /\ row' = None /\ kind' = "none"
TRow(e) == IsEvent(e) /\ row' = Trace[l] /\ kind' = IF Trace[l].skip THEN "skip" ELSE e
TraceNext == TReset \/ TRow("Split") \/ TRow("Scan") \/ TRow("Dec")
TraceSpec == TraceInit /\ [][TraceNext]_tvars

---------------------------------------------------------------------------
IsSplit == kind = "Split"
IsScan  == kind = "Scan"
IsDec   == kind = "Dec"
F == Fmt(row.proto, IF "ver" \in DOMAIN row THEN row.ver ELSE 0)
HaveHdr == row.n >= F.hdr
D == Declared(row.bytes, F)                    \* only meaningful when HaveHdr
Incomplete == ~HaveHdr \/ DeclGt(D, row.n)     \* the octets given do not hold a whole record
MrtType == row.bytes[5] * 256 + row.bytes[6]
MrtSub  == row.bytes[7] * 256 + row.bytes[8]
MrtET   == {17, 33, 49}                        \* BGP4MP_ET, ISIS_ET, OSPFv3_ET

(* ---- splitters ---- *)
C19_SplitNoPanic == IsSplit => ~row.panic
(* "the stream splitters never return a token longer than the data they were given" *)
C19_SplitBounded == IsSplit => /\ row.adv >= 0 /\ row.adv <= row.n
                               /\ row.hastok => row.toklen <= row.n
(* a token, when returned, is exactly the declared record, taken from the head of the data *)
SplitExactOk == row.hastok => /\ ~Incomplete /\ row.toklen = D.val /\ row.adv = D.val /\ row.prefix
C19_SplitExact == IsSplit => SplitExactOk
(* nothing is returned or consumed while the record is incomplete; a partial header is not an error *)
C19_SplitNeedMore == IsSplit => /\ Incomplete => (~row.hastok /\ row.adv = 0)
                                /\ ~HaveHdr => ~row.err
(* a complete, well-formed record (declared length at least a header) is returned *)
SplitCompleteOk == (HaveHdr /\ ~DeclGt(D, row.n) /\ D.val >= F.hdr) => (row.hastok /\ ~row.err)
C19_SplitComplete == IsSplit => SplitCompleteOk
(* no looping: a returned token advances the input *)
SplitProgressOk == row.hastok => row.adv > 0
C19_SplitProgress == IsSplit => SplitProgressOk
(* no reading past the data: the result does not depend on what lies beyond len(data) *)
C19_SplitNoOverRead == IsSplit => row.det

(* weakened invariants (known findings) *)
BmpZeroLen == row.proto = "bmp" /\ HaveHdr /\ ~D.huge /\ D.val = 0
MrtWraps   == row.proto = "mrt" /\ HaveHdr /\ FieldHi(row.bytes, F) = 65535 /\ FieldLo(row.bytes, F) >= 65536 - 12
MrtIsET    == row.proto = "mrt" /\ HaveHdr /\ MrtType \in MrtET
C19_SplitProgress_KF == IsSplit => (SplitProgressOk \/ BmpZeroLen \/ MrtWraps)
C19_SplitExact_KF    == IsSplit => (SplitExactOk \/ MrtWraps)
C19_SplitNeedMore_KF == IsSplit => /\ Incomplete => ((~row.hastok /\ row.adv = 0) \/ MrtWraps)
                                   /\ ~HaveHdr => ~row.err
C19_SplitComplete_KF == IsSplit => (SplitCompleteOk \/ MrtIsET)
C19_SplitNoOverRead_KF == IsSplit => (row.det \/ (row.proto = "mrt" /\ ~HaveHdr))

(* ---- the consumer loop with the real splitter: whatever the chunking, the tokens are the records ---- *)
C19_ScanTokens == IsScan => /\ ~row.panic /\ row.err = "" /\ row.toks = row.lens /\ row.same

(* ---- decoders ---- *)
C19_DecNoPanic    == IsDec => ~row.panic
C19_DecTerminates == IsDec => ~row.timeout
C19_DecBufferUntouched == IsDec => row.untouched
(* "return a value or an error" (ReceiveSingleMsg documents a third outcome, message skipped) *)
C19_DecValueOrError == IsDec => (row.err \/ row.val \/ row.skipped)
(* no reading past the data: same outcome whatever lies beyond len(data); from a connection, no more
   octets than the record declares *)
Max(a, b) == IF a > b THEN a ELSE b
DecDet == row.det
ZapiConsumedOk == (row.proto = "zapi" /\ HaveHdr) => row.consumed <= Max(F.hdr, IF D.huge THEN 65535 ELSE D.val)
C19_DecNoOverRead == IsDec => (DecDet /\ ZapiConsumedOk /\ (row.proto = "zapi" => row.consumed <= row.n))
(* a record cut short (its own header says it is longer, or the header itself is incomplete) is not decoded *)
C19_DecTruncRejected == (IsDec /\ row.m = "trunc" /\ Incomplete) => row.err
Gap_Trunc == (IsDec /\ row.m = "trunc" /\ ~(row.proto = "mrt" /\ HaveHdr /\ MrtType \in MrtET)) => Incomplete
(* harness sanity: "every offset" of the generator really is every offset of the record *)
LenBound == CASE row.proto = "mrt" -> 130 [] row.proto = "bmp" -> 170 [] row.proto = "rtr" -> 36
              [] row.proto = "bfd" -> 28 [] OTHER -> 80
Gap_Bound == (IsDec /\ row.m = "none") => row.full <= LenBound + 1
(* harness sanity for "cut": the header declares exactly the octets given *)
Gap_Cut == (IsDec /\ row.m = "cut") => (HaveHdr /\ ~D.huge /\ D.val = row.n - row.trail)
(* the length field an encoder writes is the length of the record it wrote *)
EncodedLengthOk == HaveHdr /\ ~D.huge /\ D.val = row.full
C19_EncodedLength == (IsDec /\ row.m = "none") => EncodedLengthOk
(* every constructible message serialises to octets that decode, and re-encode to the same octets; the
   routes of a carried UPDATE are the routes that were put in *)
Pristine == SubSeq(row.bytes, 1, row.full)
RoundTripOk == /\ ~row.err /\ row.val /\ row.reencok /\ row.reenc = Pristine
RoundTripApplies == IsDec /\ row.m = "none" /\ ~row.nort
C19_RoundTrip == RoundTripApplies => RoundTripOk
C19_RoundTripRoutes == (RoundTripApplies /\ ~row.err) => row.nlriout = row.nlriin
(* ... and the decoded message equals the constructed one (structural equality computed by the harness:
   nil and empty containers are the same value, pure wire caches are left out; row.diff names the first
   difference) *)
C19_RoundTripEqual == (RoundTripApplies /\ ~row.err) => row.equal

BmpReslice == row.proto = "bmp" /\ HaveHdr /\ DeclGt(D, row.n)
C19_DecNoOverRead_KF == IsDec => ((DecDet \/ BmpReslice) /\ ZapiConsumedOk /\ (row.proto = "zapi" => row.consumed <= row.n))
MrtRibAfiSafi == row.proto = "mrt" /\ MrtType = 13 /\ MrtSub \in {3, 4, 5, 6, 9, 10, 11, 12}
MrtETBody == row.proto = "mrt" /\ MrtType \in MrtET
C19_RoundTrip_KF == RoundTripApplies => (RoundTripOk \/ MrtRibAfiSafi \/ MrtETBody)
C19_EncodedLength_KF == (IsDec /\ row.m = "none") => (EncodedLengthOk \/ MrtETBody)
MrtBgp4mpAddPath == row.proto = "mrt" /\ MrtType = 16 /\ MrtSub \in {8, 9, 10, 11}
C19_RoundTripEqual_KF == (RoundTripApplies /\ ~row.err) => (row.equal \/ MrtBgp4mpAddPath)
C19_RoundTripRoutes_KF == (RoundTripApplies /\ ~row.err) => (row.nlriout = row.nlriin \/ MrtBgp4mpAddPath)

---------------------------------------------------------------------------
(* pass 2: which known finding explains a failing strict invariant *)
ASSUME TLCSet(3, {})
Hit(strict, weak, id, name) == IF strict \/ ~weak THEN TRUE ELSE TLCSet(3, TLCGet(3) \cup {<<id, name, l>>})
KfHits ==
  /\ Hit(C19_SplitProgress, C19_SplitProgress_KF,
         IF IsSplit /\ BmpZeroLen THEN "KF-C19-bmp-split-zero-length" ELSE "KF-C19-mrt-split-length-wrap", "C19_SplitProgress")
  /\ Hit(C19_SplitExact, C19_SplitExact_KF, "KF-C19-mrt-split-length-wrap", "C19_SplitExact")
  /\ Hit(C19_SplitNeedMore, C19_SplitNeedMore_KF, "KF-C19-mrt-split-length-wrap", "C19_SplitNeedMore")
  /\ Hit(C19_SplitComplete, C19_SplitComplete_KF, "KF-C19-mrt-split-extended-timestamp", "C19_SplitComplete")
  /\ Hit(C19_SplitNoOverRead, C19_SplitNoOverRead_KF, "KF-C19-mrt-split-reads-capacity", "C19_SplitNoOverRead")
  /\ Hit(C19_DecNoOverRead, C19_DecNoOverRead_KF, "KF-C19-bmp-parse-reads-capacity", "C19_DecNoOverRead")
  /\ Hit(C19_RoundTrip, C19_RoundTrip_KF,
         IF IsDec /\ MrtETBody THEN "KF-C19-mrt-extended-timestamp-body" ELSE "KF-C19-mrt-rib-afi-safi", "C19_RoundTrip")
  /\ Hit(C19_EncodedLength, C19_EncodedLength_KF, "KF-C19-mrt-extended-timestamp-body", "C19_EncodedLength")
  /\ Hit(C19_RoundTripRoutes, C19_RoundTripRoutes_KF, "KF-C19-mrt-bgp4mp-addpath", "C19_RoundTripRoutes")
  /\ Hit(C19_RoundTripEqual, C19_RoundTripEqual_KF, "KF-C19-mrt-bgp4mp-addpath", "C19_RoundTripEqual")
KfReport == PrintT("VPOUT " \o ToJson([kf |-> TLCGet(3)])) /\ Accepted
KfConstraint == Hwm(l) /\ KfHits

(* distinct non-trivial cases: the relation between declared and available octets really exercised *)
Rel == IF ~HaveHdr THEN "nohdr" ELSE IF D.huge THEN "huge" ELSE IF D.val > row.n THEN "gt"
       ELSE IF D.val = row.n THEN "eq" ELSE IF D.val < F.hdr THEN "belowhdr" ELSE "lt"
TraceConstraint ==
  /\ Hwm(l)
  /\ NoteIf(IsSplit, <<"split", row.proto, Rel, row.eof, row.n>>)
  /\ NoteIf(IsScan, <<"scan", row.proto, row.cuts>>)
  /\ NoteIf(IsDec, <<"dec", row.proto, row.msg, row.ver, row.sw, row.m, row.at, row.n>>)
TraceAccepted == Accepted
=============================================================================
