---------------------------- MODULE FramingTrace ----------------------------
(* Validates executions of the real codec (harness/c04/*_test.go, compiled into pkg/packet/bgp)
   against Framing / FramingDom.
     Msg line (C04): one abstract shape, concretised with the library's constructors, serialised
         under the shape's options, re-parsed, re-serialised; the line carries the octets, every
         Len(), the re-projected shapes and the harness-computed booleans fixpoint / equal.
     Mut line (C05): one mutation of one length field of real octets (or a seeded random octet
         string), parsed through every entry point under every option combination; the line
         carries, per entry point and group of option combinations, what came back.
   The C04_* / C05_* invariants compare the recorded observation with the PROPERTY layer: the
   independent reader of the octets and the expected wire image of the abstract shape.
   Assert failures are machinery errors (harness/generator out of step), never verdicts. *)
EXTENDS FramingDom, TraceUtil

VARIABLES l, rd, ov
tvars == <<l, rd, ov>>

NoRd == [hdr |-> [ok |-> FALSE, len |-> 0, type |-> 0, have |-> FALSE], body |-> NoBody, end |-> 0]
NoOv == <<>>

TraceInit == l = 1 /\ rd = NoRd /\ ov = NoOv

IsEvent(e) == l <= TLen /\ Trace[l].ev = e /\ l' = l + 1

Ev      == Trace[l - 1]                      \* the line consumed last
IsMsg   == l > 1 /\ Ev.ev = "Msg"
IsMut   == l > 1 /\ Ev.ev = "Mut"
Emitted == IsMsg /\ ~Ev.sererr /\ Ev.panic = ""
Modelled == Ev.shape.k # "ex"

(* option combination id of the harness: ext + 2*as2 + 4*ap4 + 8*apmp + 16*mrt *)
Popts(id) == [ext |-> id % 2 = 1, as2 |-> (id \div 2) % 2 = 1, ap4 |-> (id \div 4) % 2 = 1,
              apmp |-> (id \div 8) % 2 = 1]
FramingClass(id) == (id \div 2) % 8          \* as2, ap4, apmp: what the reader depends on
ClassOpts(c) == [ext |-> FALSE, as2 |-> c % 2 = 1, ap4 |-> (c \div 2) % 2 = 1, apmp |-> (c \div 4) % 2 = 1]

TReset == /\ IsEvent("Reset")
          /\ rd' = NoRd /\ ov' = NoOv

TMsg == /\ IsEvent("Msg")
        /\ LET e == Trace[l] IN
           /\ Assert(e.builderr = "", <<"harness could not build the shape", e.builderr, e.shape>>)
           /\ Assert(e.sererr \/ e.panic # "" \/ e.shape.k = "ex" \/ e.proj = e.shape,
                     <<"harness builder/projection out of step with the abstract shape", e.shape, e.proj>>)
           /\ rd' = IF e.sererr \/ e.panic # "" THEN NoRd ELSE ReadMsg(e.bytes, e.opts)
           /\ NoteIf(~e.sererr /\ e.panic = "", <<e.shape, e.opts>>)
        /\ ov' = NoOv

TMut == /\ IsEvent("Mut")
        /\ LET e == Trace[l] IN
           /\ Assert(e.mut.m = "random" \/ e.bytes = ApplyMut(e.orig, e.mut),
                     <<"recorded octets are not the announced mutation of the original", e.mut>>)
           /\ Assert(e.mut.m \in {"random", "none"} \/
                     \E i \in DOMAIN Fields(e.orig, e.opts) :
                        LET f == Fields(e.orig, e.opts)[i] IN f.o = e.mut.o /\ f.w = e.mut.w,
                     <<"mutated offset is not a length field of the original for this reader", e.mut>>)
           /\ ov' = [c \in 0..7 |-> Overrun(e.bytes, ClassOpts(c))]
           /\ NoteIf(\E c \in 0..7 : Overrun(e.bytes, ClassOpts(c)), e.bytes)
        /\ rd' = NoRd

TraceNext == TReset \/ TMsg \/ TMut
TraceSpec == TraceInit /\ [][TraceNext]_tvars

TraceConstraint == Hwm(l)
TraceAccepted == Accepted

---------------------------------------------------------------------------
(* C04 *)

(* the library itself never panics while building / serialising / re-parsing a shape *)
C04_NoPanic == IsMsg => Ev.panic = ""

(* emitted octets are well-formed under the independent reading of the framing rules *)
C04_FramingWellFormed == Emitted => WellFormedR(Ev.bytes, rd, Ev.opts)

(* a message is refused only when it has no legal encoding (size cap with / without RFC 8654,
   65535-octet attribute, single-octet OPEN lengths) *)
C04_SizeCap == (IsMsg /\ Ev.sererr) => (Modelled /\ ~EncodableLo(Ev.shape, Ev.opts))

(* every Len() = the extent the independent reader finds for that element
   (a = Len() values logged for the constructed / the re-parsed message) *)
LensAgree(a) ==
  CASE rd.body.t = "update" ->
         LET pre4 == Pre(1, 1, Ev.opts) IN
         /\ a.attrs = Lens(rd.body.attrs)
         /\ Len(a.wd) = Len(rd.body.wd.els) /\ \A i \in DOMAIN a.wd : a.wd[i] + pre4 = rd.body.wd.els[i].n
         /\ Len(a.nlri) = Len(rd.body.nlri.els) /\ \A i \in DOMAIN a.nlri : a.nlri[i] + pre4 = rd.body.nlri.els[i].n
         /\ Len(a.mp) = Len(rd.body.inner)
         /\ \A i \in DOMAIN a.mp :
              LET x == rd.body.inner[i] IN
              (x.k \in {"mp", "mpun"} /\ x.ek # "none") =>
                 /\ Len(a.mp[i]) = Len(x.w.els)
                 /\ \A j \in DOMAIN a.mp[i] : a.mp[i][j] + x.pre = x.w.els[j].n
    [] rd.body.t = "open" ->
         /\ Len(a.caps) = Len(rd.body.caps)
         /\ \A i \in DOMAIN a.caps : a.caps[i] = Lens(rd.body.caps[i])
    [] OTHER -> TRUE
Readable == Emitted /\ rd.hdr.ok /\ rd.body.ok
C04_LenAgrees    == Readable => LensAgree(Ev.lens)
C04_LenAgreesDec == (Readable /\ ~Ev.parseerr) => LensAgree(Ev.relens)

(* shape generated = shape the reader finds in the octets = shape after re-parse *)
C04_ShapeRoundTrip ==
  Emitted => /\ ~Ev.parseerr
             /\ Ev.reshape = Ev.proj
             /\ Modelled => (Readable /\ ReadWire(Ev.bytes, rd) = ExpWire(Ev.shape, Ev.opts))

(* harness-computed postconditions (no TLA+ counterpart for value-level equality) *)
C04_Fixpoint == (Emitted /\ ~Ev.parseerr) => (~Ev.resererr /\ Ev.fixpoint)
C04_Equal    == (Emitted /\ ~Ev.parseerr) => Ev.equal

---------------------------------------------------------------------------
(* C05 *)
Cases == IF IsMut THEN {Ev.cases[i] : i \in DOMAIN Ev.cases} ELSE {}
SliceOf(c) == SubSeq(Ev.bytes, c.from + 1, c.to)

C05_NoPanic        == \A c \in Cases : ~c.panic
C05_Terminates     == \A c \in Cases : ~c.timeout
C05_BufferUntouched == \A c \in Cases : ~c.modified

(* the framing oracle: for this entry point and option combination, does a declared extent
   pass the end of its container? *)
Over(c, id) ==
  CASE c.e \in {"msg", "body", "bodyraw"} -> ov[FramingClass(id)]
    [] c.e = "attr" -> AttrSliceOver(SliceOf(c), Popts(id))
    [] c.e = "nlri" -> NlriSliceOver(c.afi, c.safi, SliceOf(c))
    [] c.e = "cap"  -> CapSliceOver(SliceOf(c))
    [] OTHER        -> FALSE
C05_NoOverRead ==
  \A c \in Cases : \A k \in DOMAIN c.po :
     (c.po[k] < 16 /\ ~c.panic /\ ~c.timeout /\ Over(c, c.po[k])) => c.ret # "val"

(* what the daemon goes on to use can be rendered, measured and re-serialised *)
Used(c) == c.ret = "val" \/ (c.ret = "both" /\ c.cls \in {"discard", "withdraw"})
C05_RenderSafe == \A c \in Cases : Used(c) => ~c.rpanic

AllocBoundKB == 32768
C05_BoundedAlloc == \A c \in Cases : c.alloc <= AllocBoundKB
=============================================================================
