---------------------------- MODULE FramingTrace ----------------------------
(* Validates executions of the real codec (harness/c04/*_test.go, compiled into pkg/packet/bgp)
   against Framing / FramingDom.
     Msg line (C04): one abstract shape, concretised with the library's constructors, serialised
         under the shape's options, re-parsed, re-serialised; the line carries the octets, every
         Len(), the re-projected shapes and the harness-computed booleans fixpoint / equal.
     Mut line (C05): one mutation of one length field of real octets (or a seeded random octet
         string), parsed through every entry point under every option combination; the line
         carries, per entry point and group of option combinations, what came back.
   The C04_* / C05_* invariants compare the recorded observation with the PROPERTY layer: the
   independent reader of the octets and the expected wire image of the abstract shape.
   Assert failures are machinery errors (harness/generator out of step), never verdicts. *)
EXTENDS FramingDom, TraceUtil

VARIABLES l, rd, ov
tvars == <<l, rd, ov>>

NoRd == [hdr |-> [ok |-> FALSE, len |-> 0, type |-> 0, have |-> FALSE], body |-> NoBody, end |-> 0]
NoOv == <<>>

TraceInit == l = 1 /\ rd = NoRd /\ ov = NoOv

IsEvent(e) == l <= TLen /\ Trace[l].ev = e /\ l' = l + 1

Ev      == Trace[l - 1]                      \* the line consumed last
IsMsg   == l > 1 /\ Ev.ev = "Msg"
IsMut   == l > 1 /\ Ev.ev = "Mut"
Emitted == IsMsg /\ ~Ev.sererr /\ Ev.panic = "" /\ ~Ev.rawerr
Modelled == Ev.shape.k # "ex"

(* option combination id of the harness: ext + 2*as2 + 4*ap4 + 8*apmp + 16*mrt *)
Popts(id) == [ext |-> id % 2 = 1, as2 |-> (id \div 2) % 2 = 1, ap4 |-> (id \div 4) % 2 = 1,
              apmp |-> (id \div 8) % 2 = 1]
FramingClass(id) == (id \div 2) % 8          \* as2, ap4, apmp: what the reader depends on
ClassOpts(c) == [ext |-> FALSE, as2 |-> c % 2 = 1, ap4 |-> (c \div 2) % 2 = 1, apmp |-> (c \div 4) % 2 = 1]

TReset == /\ IsEvent("Reset")
          /\ rd' = NoRd /\ ov' = NoOv

TMsg == /\ IsEvent("Msg")
        /\ LET e == Trace[l] IN
           /\ Assert(e.builderr = "", <<"harness could not build the shape", e.builderr, e.shape>>)
           /\ Assert(e.sererr \/ e.panic # "" \/ e.shape.k = "ex" \/ e.raw \/ e.proj = e.shape,
                     <<"harness builder/projection out of step with the abstract shape", e.shape, e.proj>>)
           /\ Assert(~e.raw \/ (e.rawbytes = Encode(e.shape, e.opts) /\ WellFormed(e.rawbytes, e.opts)),
                     <<"raw octets are not the writer model's well-formed image of the shape", e.shape>>)
           /\ rd' = IF e.sererr \/ e.panic # "" \/ e.rawerr THEN NoRd ELSE ReadMsg(e.bytes, e.opts)
           /\ NoteIf(~e.sererr /\ e.panic = "" /\ ~e.rawerr, <<e.shape, e.opts, e.raw>>)
        /\ ov' = NoOv

TMut == /\ IsEvent("Mut")
        /\ LET e == Trace[l] IN
           /\ Assert(e.mut.m = "random" \/ e.bytes = ApplyMut(e.orig, e.mut),
                     <<"recorded octets are not the announced mutation of the original", e.mut>>)
           /\ Assert(e.mut.m \in {"random", "none"} \/
                     LET fs == Fields(e.orig, e.opts) IN
                     \E i \in DOMAIN fs : fs[i].o = e.mut.o /\ fs[i].w = e.mut.w,
                     <<"mutated offset is not a length field of the original for this reader", e.mut>>)
           /\ ov' = [c \in 0..7 |-> Overrun(e.bytes, ClassOpts(c))]
           /\ NoteIf(\E c \in 0..7 : Overrun(e.bytes, ClassOpts(c)), e.bytes)
        /\ rd' = NoRd

TraceNext == TReset \/ TMsg \/ TMut
TraceSpec == TraceInit /\ [][TraceNext]_tvars

TraceConstraint == Hwm(l)
TraceAccepted == Accepted

---------------------------------------------------------------------------
(* C04 *)

(* the library itself never panics while building / serialising / re-parsing a shape *)
C04_NoPanic == IsMsg => Ev.panic = ""

(* emitted octets are well-formed under the independent reading of the framing rules *)
C04_FramingWellFormed == Emitted => WellFormedR(Ev.bytes, rd, Ev.opts)

(* a message is refused only when it has no legal encoding (size cap with / without RFC 8654,
   65535-octet attribute, single-octet OPEN lengths) *)
C04_SizeCap == (IsMsg /\ Ev.sererr) => (Modelled /\ ~EncodableLo(Ev.shape, Ev.opts))

(* every Len() = the extent the independent reader finds for that element
   (a = Len() values logged for the constructed / the re-parsed message) *)
LensAgreeTol(a, tol(_)) ==
  CASE rd.body.t = "update" ->
         LET pre4 == Pre(1, 1, Ev.opts) IN
         /\ Len(a.attrs) = Len(rd.body.attrs.els)
         /\ \A i \in DOMAIN a.attrs : a.attrs[i] = rd.body.attrs.els[i].n \/ tol(i)
         /\ Len(a.wd) = Len(rd.body.wd.els) /\ \A i \in DOMAIN a.wd : a.wd[i] + pre4 = rd.body.wd.els[i].n
         /\ Len(a.nlri) = Len(rd.body.nlri.els) /\ \A i \in DOMAIN a.nlri : a.nlri[i] + pre4 = rd.body.nlri.els[i].n
         /\ Len(a.mp) = Len(rd.body.inner)
         /\ \A i \in DOMAIN a.mp :
              LET x == rd.body.inner[i] IN
              (x.k \in {"mp", "mpun"} /\ x.ek # "none") =>
                 /\ Len(a.mp[i]) = Len(x.w.els)
                 /\ \A j \in DOMAIN a.mp[i] : a.mp[i][j] + x.pre = x.w.els[j].n
    [] rd.body.t = "open" ->
         /\ Len(a.caps) = Len(rd.body.caps)
         /\ \A i \in DOMAIN a.caps : a.caps[i] = Lens(rd.body.caps[i])
    [] OTHER -> TRUE
NoTol(i) == FALSE
LensAgree(a) == LensAgreeTol(a, NoTol)
Readable == Emitted /\ rd.hdr.ok /\ rd.body.ok
C04_LenAgrees    == Readable => LensAgree(Ev.lens)
C04_LenAgreesDec == (Readable /\ ~Ev.parseerr) => LensAgree(Ev.relens)

(* received octets: the writer model's (well-formed, see the Assert in TMsg) image of a shape is
   accepted by the real parser *)
C04_RawAccepted == (IsMsg /\ Ev.raw /\ Ev.panic = "") => ~Ev.rawerr

(* the Extended Length bit is on the wire exactly where the value needs it or the shape asks for it *)
C04_ExtFlag ==
  (Readable /\ rd.body.t = "update" /\ (Modelled => Len(rd.body.attrs.els) = Len(Ev.shape.attrs))) =>
    \A i \in DOMAIN rd.body.attrs.els :
       LET e == rd.body.attrs.els[i] IN
       AttrExt(Ev.bytes, e) <=> (AttrVLen(Ev.bytes, e) > 255 \/ (Modelled /\ Ev.shape.attrs[i].x = 1))

(* shape generated = shape the reader finds in the octets = shape after re-parse; for received octets
   also: the shape parsed from them = the shape they were written from *)
C04_ShapeRoundTrip ==
  Emitted => /\ ~Ev.parseerr
             /\ Ev.raw => Ev.proj = Ev.shape
             /\ Ev.reshape = Ev.proj
             /\ Modelled => (Readable /\ ReadWire(Ev.bytes, rd) = ExpWire(Ev.shape, Ev.opts))

(* the MP_REACH next-hop field has the length the address-family RFCs give it for the next hop the
   shape asks for (one address, IPv6 for IPv4 NLRI, IPv6 global + link-local; RD per address for VPN) *)
C04_NextHopLen ==
  (Emitted /\ Modelled /\ Readable /\ rd.body.t = "update" /\ Len(rd.body.inner) = Len(Ev.shape.attrs)) =>
    \A i \in DOMAIN Ev.shape.attrs :
       Ev.shape.attrs[i].t = "mpreach" =>
          rd.body.inner[i].nhl \in ExpNhLens(Ev.shape.attrs[i].fam, Ev.shape.attrs[i].n)

(* harness-computed postconditions (no TLA+ counterpart for value-level equality) *)
C04_Fixpoint == (Emitted /\ ~Ev.parseerr) => (~Ev.resererr /\ Ev.fixpoint)
C04_Equal    == (Emitted /\ ~Ev.parseerr) => Ev.equal

---------------------------------------------------------------------------
(* C05 *)
Cases == IF IsMut THEN {Ev.cases[i] : i \in DOMAIN Ev.cases} ELSE {}
SliceOf(c) == SubSeq(Ev.bytes, c.from + 1, c.to)

C05_NoPanic        == \A c \in Cases : ~c.panic
C05_Terminates     == \A c \in Cases : ~c.timeout
C05_BufferUntouched == \A c \in Cases : ~c.modified

(* the framing oracle: for this entry point and option combination, does a declared extent
   pass the end of its container? *)
Over(c, id) ==
  CASE c.e \in {"msg", "body", "bodyraw"} -> ov[FramingClass(id)]
    [] c.e = "attr" -> AttrSliceOver(SliceOf(c), Popts(id))
    [] c.e = "nlri" -> NlriSliceOver(c.afi, c.safi, SliceOf(c))
    [] c.e = "cap"  -> CapSliceOver(SliceOf(c))
    [] OTHER        -> FALSE
OverReadOk(c) ==
  \A k \in DOMAIN c.po :
     (c.po[k] < 16 /\ ~c.panic /\ ~c.timeout /\ Over(c, c.po[k])) => c.ret # "val"
C05_NoOverRead == \A c \in Cases : OverReadOk(c)

(* what the daemon goes on to use can be rendered, measured and re-serialised *)
Used(c) == c.ret = "val" \/ (c.ret = "both" /\ c.cls \in {"discard", "withdraw"})
C05_RenderSafe == \A c \in Cases : Used(c) => ~c.rpanic

AllocBoundKB == 32768
C05_BoundedAlloc == \A c \in Cases : c.alloc <= AllocBoundKB

---------------------------------------------------------------------------
(* KNOWN FINDINGS (known_findings.jsonl).  Each predicate identifies exactly one recorded defect
   of the pinned tree; the *_KF invariants tolerate that and nothing else.  KfNote records
   <<finding id, strict invariant, line>> in TLC register 3 whenever the strict invariant fails
   on a line that the predicate covers; the driver turns the records into KNOWN-FINDING lines
   (or into violations when the id is not listed in known_findings.jsonl). *)
ASSUME TLCSet(3, {})
KfNote(id, inv, cond) == IF cond THEN TLCSet(3, TLCGet(3) \cup {<<id, inv, l - 1>>}) ELSE TRUE
KfReport == PrintT("VPOUT " \o ToJson([kf |-> TLCGet(3)]))

IsUpd == rd.body.t = "update" /\ rd.body.ok
AttrN(i) == rd.body.attrs.els[i].n

(* KF-C04-mp-addpath-len: NewPathAttributeMpReachNLRI / MpUnreachNLRI size the cached Length
   from NLRI.Len() only; with ADD-PATH on for the family the 4-octet path identifiers are
   emitted but not counted (one more octet when the real value crosses 255). *)
KF_MpAddPathLen(a, i) ==
  LET x == rd.body.inner[i] IN
  /\ x.k \in {"mp", "mpun"} /\ x.pre = 4 /\ Len(x.w.els) > 0
  /\ AttrN(i) - a.attrs[i] \in {4 * Len(x.w.els), 4 * Len(x.w.els) + 1}
(* KF-C04-tunnelencap-len: the tunnel-encapsulation sub-TLV constructors never set the cached
   Length that TunnelEncapSubTLV.Len() / NewPathAttributeTunnelEncap rely on. *)
KF_TunnelEncapLen(a, i) == AttrType(Ev.bytes, rd.body.attrs.els[i]) = 23 /\ a.attrs[i] < AttrN(i)
(* KF-C04-vpn-nexthop-rd-len: NewPathAttributeMpReachNLRI adds the 8-octet RD of a VPN next hop once,
   Serialize emits it in front of EACH of the two addresses (global + link-local, 48 octets): Len() of
   the constructed attribute is 8 short (on top of the ADD-PATH shortfall when that applies). *)
KF_VpnNhRdLen(a, i) ==
  LET x    == rd.body.inner[i]
      base == IF x.pre = 4 THEN 4 * Len(x.w.els) ELSE 0
  IN /\ x.k = "mp" /\ x.safi = 128 /\ x.nhl = 48
     /\ AttrN(i) - a.attrs[i] \in {8 + base, 8 + base + 1}
LenTol(i) == KF_MpAddPathLen(Ev.lens, i) \/ KF_TunnelEncapLen(Ev.lens, i) \/ KF_VpnNhRdLen(Ev.lens, i)
C04_LenAgrees_KF == Readable => LensAgreeTol(Ev.lens, LenTol)

(* KF-C04-evpn-ipmsi: NewEVPNIPMSIRoute builds a route type 9 NLRI whose Serialize emits 28 octets
   under a length octet of 20 (a 20-octet buffer to which the 8-octet community is APPENDED), and
   which the decoder's dispatch (getEVPNRouteType) does not know. *)
KF_EvpnIpmsi == Emitted /\ Ev.shape.k = "ex" /\ Ev.shape.name = "nlri:l2vpn-evpn-ipmsi"
(* KF-C04-encap-multi: EncapNLRI.decodeFromBytes takes the rest of the attribute as the address,
   so a second ENCAP NLRI in the same attribute is mis-framed. *)
KF_EncapMulti ==
  /\ Emitted /\ Ev.parseerr /\ IsUpd
  /\ \E i \in DOMAIN rd.body.inner :
       LET x == rd.body.inner[i] IN x.k \in {"mp", "mpun"} /\ x.safi = 7 /\ Len(x.w.els) >= 2
(* KF-C04-flowspec-long-len: FlowSpecNLRI.Serialize writes the 2-octet length (>= 240 octets of
   components) into the component buffer instead of the prefix and without the 0xf marker. *)
KF_FlowSpecLong == Emitted /\ Ev.shape.k = "ex" /\ Ev.shape.name = "nlri:ipv4-flowspec-long"
(* KF-C04-open-optparam-overflow: BGPOpen.Serialize / OptionParameterCapability.Serialize truncate
   lengths above 255 to one octet instead of refusing the message. *)
KF_OpenOverflow == Emitted /\ Ev.shape.k = "open" /\ ~EncodableHi(Ev.shape, Ev.opts)

C04_FramingWellFormed_KF == C04_FramingWellFormed \/ KF_EvpnIpmsi \/ KF_FlowSpecLong \/ KF_OpenOverflow
C04_ShapeRoundTrip_KF    == C04_ShapeRoundTrip \/ KF_EvpnIpmsi \/ KF_EncapMulti \/ KF_FlowSpecLong \/ KF_OpenOverflow
C04_Fixpoint_KF          == C04_Fixpoint \/ KF_OpenOverflow
C04_Equal_KF             == C04_Equal \/ KF_OpenOverflow

C04_KfCount ==
  /\ KfNote("KF-C04-mp-addpath-len", "C04_LenAgrees",
            Readable /\ IsUpd /\ Len(Ev.lens.attrs) = Len(rd.body.attrs.els) /\
            \E i \in DOMAIN Ev.lens.attrs : Ev.lens.attrs[i] # AttrN(i) /\ KF_MpAddPathLen(Ev.lens, i))
  /\ KfNote("KF-C04-vpn-nexthop-rd-len", "C04_LenAgrees",
            Readable /\ IsUpd /\ Len(Ev.lens.attrs) = Len(rd.body.attrs.els) /\
            \E i \in DOMAIN Ev.lens.attrs : Ev.lens.attrs[i] # AttrN(i) /\ KF_VpnNhRdLen(Ev.lens, i))
  /\ KfNote("KF-C04-tunnelencap-len", "C04_LenAgrees",
            Readable /\ IsUpd /\ Len(Ev.lens.attrs) = Len(rd.body.attrs.els) /\
            \E i \in DOMAIN Ev.lens.attrs : Ev.lens.attrs[i] # AttrN(i) /\ KF_TunnelEncapLen(Ev.lens, i))
  /\ KfNote("KF-C04-evpn-ipmsi", "C04_FramingWellFormed", ~C04_FramingWellFormed /\ KF_EvpnIpmsi)
  /\ KfNote("KF-C04-evpn-ipmsi", "C04_ShapeRoundTrip", ~C04_ShapeRoundTrip /\ KF_EvpnIpmsi)
  /\ KfNote("KF-C04-encap-multi", "C04_ShapeRoundTrip", ~C04_ShapeRoundTrip /\ KF_EncapMulti)
  /\ KfNote("KF-C04-flowspec-long-len", "C04_FramingWellFormed", ~C04_FramingWellFormed /\ KF_FlowSpecLong)
  /\ KfNote("KF-C04-flowspec-long-len", "C04_ShapeRoundTrip", ~C04_ShapeRoundTrip /\ KF_FlowSpecLong)
  /\ KfNote("KF-C04-open-optparam-overflow", "C04_FramingWellFormed", ~C04_FramingWellFormed /\ KF_OpenOverflow)
  /\ KfNote("KF-C04-open-optparam-overflow", "C04_ShapeRoundTrip", ~C04_ShapeRoundTrip /\ KF_OpenOverflow)
  /\ KfNote("KF-C04-open-optparam-overflow", "C04_Fixpoint", ~C04_Fixpoint /\ KF_OpenOverflow)
  /\ KfNote("KF-C04-open-optparam-overflow", "C04_Equal", ~C04_Equal /\ KF_OpenOverflow)

(* KF-C05-pmsi-render: a PMSI_TUNNEL attribute whose decoding failed stays in the message that is
   handed back with a treat-as-withdraw error; its TunnelID is nil and MarshalJSON / Serialize
   dereference it. *)
KF_PmsiRender(c) == c.rpanic /\ c.rat \in {"attr22.MarshalJSON", "attr22.Serialize"}
(* KF-C05-body-ignores-header-len: parseBody only checks that AT LEAST header.Len-19 octets are
   there and then decodes every octet it was given. *)
KF_BodyIgnoresHdrLen(c) == c.e = "bodyraw" /\ U16(Ev.bytes, 16) < Len(Ev.bytes)

(* KF-C05-encap-short: EncapNLRI.decodeFromBytes never compares the declared length with the
   octets it was given (same code site as KF-C04-encap-multi). *)
AttrSliceSafi(b) ==
  LET n == ElemLen("attr", 0, b, 0, Len(b)) IN
  IF n < 0 \/ n > Len(b) THEN 0 ELSE AttrInner(b, [o |-> 0, n |-> n], ClassOpts(0)).safi
MsgHasSafi(b, sf) ==
  LET r == ReadMsg(b, ClassOpts(0)) IN
  r.body.t = "update" /\ \E i \in DOMAIN r.body.inner : r.body.inner[i].safi = sf
ConcernsSafi(c, sf) ==
  CASE c.e = "nlri" -> c.safi = sf
    [] c.e = "attr" -> AttrSliceSafi(SliceOf(c)) = sf
    [] OTHER        -> MsgHasSafi(Ev.bytes, sf)
KF_EncapShort(c) == ConcernsSafi(c, 7)

(* KF-C05-prefixsid-tail / KF-C05-tunnelencap-tail: the TLV loops of PathAttributePrefixSID.DecodeFromBytes
   (`for len(tlvs) >= 4`, TLV header = 3 octets) and PathAttributeTunnelEncap.DecodeFromBytes
   (`for len(value) > 4`, TLV header = 4 octets) stop and report success when exactly one TLV header is
   left, so a complete TLV header at the very end of the attribute value, whose declared length cannot
   fit, is silently dropped. *)
TlvTail(b, e, typ, ek, hdr) ==
  /\ AttrType(b, e) = typ
  /\ LET w == Walk(ek, 0, b, AttrVFrom(b, e), AttrVTo(b, e))
     IN w.over /\ w.els[Len(w.els)].o = AttrVTo(b, e) - hdr
KF_TlvTail(c, typ, ek, hdr) ==
  IF c.e = "attr"
  THEN LET sl == SliceOf(c)
           n  == ElemLen("attr", 0, sl, 0, Len(sl))
       IN n >= 0 /\ n <= Len(sl) /\ TlvTail(sl, [o |-> 0, n |-> n], typ, ek, hdr)
  ELSE LET r == ReadMsg(Ev.bytes, ClassOpts(0)) IN
       /\ r.body.t = "update"
       /\ \E i \in DOMAIN r.body.attrs.els :
            /\ r.body.attrs.els[i].o + r.body.attrs.els[i].n <= r.body.aTo
            /\ TlvTail(Ev.bytes, r.body.attrs.els[i], typ, ek, hdr)
KF_PrefixSidTail(c)   == KF_TlvTail(c, 40, "t1l2", 3)
KF_TunnelEncapTail(c) == KF_TlvTail(c, 23, "t2l2", 4)

(* KF-C05-vpls-length-ignored: VPLSNLRI.decodeFromBytes reads the 2-octet length, checks only that
   many octets are there, and then decodes (and reports Len() =) 19 octets whatever the length says;
   length 12 (BGP-AD) is accepted without decoding anything. *)
KF_VplsLength(c) == ConcernsSafi(c, 65)
KF_VplsRender(c) ==
  /\ c.rpanic
  /\ \/ c.rat = "nlri(*bgp.VPLSNLRI).Serialize"
     \/ (c.rat \in {"attr14.Serialize", "attr15.Serialize", "msg.Serialize", "msg.Serialize0"} /\ ConcernsSafi(c, 65))

C05_RenderSafe_KF == \A c \in Cases : Used(c) => (~c.rpanic \/ KF_PmsiRender(c) \/ KF_VplsRender(c))
C05_NoOverRead_KF ==
  \A c \in Cases : \/ OverReadOk(c) \/ KF_BodyIgnoresHdrLen(c) \/ KF_EncapShort(c)
                    \/ KF_PrefixSidTail(c) \/ KF_TunnelEncapTail(c) \/ KF_VplsLength(c)

C05_KfCount ==
  /\ KfNote("KF-C05-pmsi-render", "C05_RenderSafe", \E c \in Cases : Used(c) /\ KF_PmsiRender(c))
  /\ KfNote("KF-C05-body-ignores-header-len", "C05_NoOverRead",
            \E c \in Cases : ~OverReadOk(c) /\ KF_BodyIgnoresHdrLen(c))
  /\ KfNote("KF-C05-encap-short", "C05_NoOverRead", \E c \in Cases : ~OverReadOk(c) /\ KF_EncapShort(c))
  /\ KfNote("KF-C05-prefixsid-tail", "C05_NoOverRead", \E c \in Cases : ~OverReadOk(c) /\ KF_PrefixSidTail(c))
  /\ KfNote("KF-C05-tunnelencap-tail", "C05_NoOverRead", \E c \in Cases : ~OverReadOk(c) /\ KF_TunnelEncapTail(c))
  /\ KfNote("KF-C05-vpls-length-ignored", "C05_NoOverRead", \E c \in Cases : ~OverReadOk(c) /\ KF_VplsLength(c))
  /\ KfNote("KF-C05-vpls-length-ignored", "C05_RenderSafe", \E c \in Cases : Used(c) /\ KF_VplsRender(c))
=============================================================================
