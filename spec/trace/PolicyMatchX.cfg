SPECIFICATION TraceSpec
CONSTANTS
  RemoveIgnoresSubtype = FALSE
CONSTRAINT TraceConstraint
POSTCONDITION TraceAccepted
CHECK_DEADLOCK FALSE
INVARIANTS
  X_SpecVsRegexp
