------------------------------ MODULE FsmTrace ------------------------------
(* Validates executions of the REAL BgpServer recorded by harness/c07/c07_test.go.
   One line = one environment event + the observation after synctest.Wait():
     {"ev":..., args..., "obs":{t, st, admin, wev, dial, ci, co, cx, ribg, riba, ...}}
   The trace spec keeps only the PROPERTY-LAYER history h (FsmRfc.tla: computed from the inputs
   and from which connections the speaker closed) and judges every step with the C07_* invariants.
   Strict cfg FsmTrace.cfg lists C07_*, FsmKF.cfg lists the *_KF weakenings (known findings). *)
EXTENDS FsmMech, TraceUtil

VARIABLES l, h, ph, pe, po, mm
tvars == <<l, h, ph, pe, po, mm>>

EvOf(r) == [ev |-> r.ev, c |-> r.c, kind |-> r.kind, hold |-> r.hold, d |-> r.d, n |-> r.n,
            code |-> r.code, sub |-> r.sub, comm |-> r.comm]
NoConnObs == [known |-> FALSE, closed |-> FALSE, pend |-> 0, msgs |-> <<>>]
NoObs == [t |-> 0, ms |-> 0, st |-> "Active", admin |-> "Up", wev |-> <<>>, dial |-> FALSE,
          ci |-> NoConnObs, co |-> NoConnObs, cx |-> NoConnObs, ribg |-> <<>>, riba |-> <<>>,
          admflag |-> FALSE, done |-> TRUE]
NoCfg == [passive |-> TRUE, hold |-> 9, peer |-> "lo", maxpfx |-> 0, nbit |-> FALSE, retry |-> 4]

TraceInit == /\ l = 1 /\ h = HInit(NoCfg, NoObs) /\ ph = HInit(NoCfg, NoObs) /\ pe = NoEv /\ po = NoObs
             /\ mm = Finish(MInit(NoCfg))

IsLine == l <= TLen /\ l' = l + 1

TReset == /\ IsLine /\ Trace[l].ev = "Reset"
          /\ LET o == Trace[l].obs IN
               /\ h' = HInit(Trace[l].cfg, o)
               /\ ph' = HInit(Trace[l].cfg, o)
               /\ pe' = NoEv
               /\ po' = o
               /\ mm' = Finish(MInit(Trace[l].cfg))

(* a message the speaker never read (outside the suspended two-connection situation) is a
   conformance gap *)
Consumable(r) == h.susp \/ (r.obs.ci.pend = 0 /\ r.obs.co.pend = 0)
(* an event the harness could not carry out (no dial pending, no such connection, API error) was
   never delivered to the speaker: it is judged as "nothing was done" *)
Noop == [NoEv EXCEPT !.ev = "Noop"]

TStep == /\ IsLine /\ Trace[l].ev # "Reset"
         /\ Consumable(Trace[l])
         /\ LET e == IF Trace[l].obs.done THEN EvOf(Trace[l]) ELSE Noop
                o == Trace[l].obs
            IN /\ h' = HNext(h, e, o)
               /\ ph' = h
               /\ pe' = e
               /\ po' = o
               /\ mm' = MStep(mm, e)          \* the mechanism model runs alongside (Conf_* only)
               /\ NoteIf(e.ev # "Noop", <<h.cfg, h.st, Top(h), e.ev, e.c, e.kind, StepClass(h, e, o)>>)

TraceNext == TReset \/ TStep
TraceSpec == TraceInit /\ [][TraceNext]_tvars
TraceConstraint == Hwm(l)
TraceAccepted == Accepted

J == pe.ev # "Reset"          \* a step is there to be judged
S == ph.susp                  \* judgement suspended (KF only): unresolved collision, see KF-C07-collision

---------------------------------------------------------------------------
C07_Collision == J => P_Collision(ph, pe, po, h)
C07_Transitions == J => P_Transitions(ph, pe, po)
C07_EstablishedOnlyAfterOpenKeepalive == J => P_EstablishedOnlyAfterOpenKeepalive(ph, pe, po, h)
C07_Notification == J => (P_Notification(ph, pe, po) /\ P_NoHardResetWithoutN(ph, pe, po))
C07_Notif_OpenConfirmUnexpected == J => P_NotifClass("OCUnexpected", ph, pe, po)
C07_Notif_EstablishedOpen == J => P_NotifClass("EstOpen", ph, pe, po)
C07_Notif_UnsupportedOptParam == J => P_NotifClass("UnsupOpt", ph, pe, po)
C07_Notif_KeepaliveLength == J => P_NotifClass("KaLen", ph, pe, po)
C07_Notif_OpenWhileIdle == J => P_NotifClass("IdleOpen", ph, pe, po)
C07_Notif_ManualStopEarly == J => P_NotifClass("ManualStopEarly", ph, pe, po)
C07_Notif_NoSpurious == J => P_NotifClass("Spurious", ph, pe, po)
C07_TimerInstant == J => P_TimerInstant(ph, pe, po, LargeHold)
C07_Timer_OpenConfirm == J => P_Timer_OpenConfirm(ph, pe, po, LargeHold)
C07_NoRibEffectBeforeEstablished == J => P_NoRibEffectBeforeEstablished(ph, pe, po)
C07_ReportedMatchesReal == J => P_ReportedMatchesReal(ph, pe, po, h)

(* ---- known findings: each *_KF tolerates exactly the recorded deviation ------------------- *)
KFClass(cls, dev) == J => (S \/ StepClass(ph, pe, po) # cls \/ NotifOK(ph, pe, po) \/ dev)

C07_Collision_KF == TRUE       \* KF-C07-collision: collisions are never resolved (loser kept open)
C07_Transitions_KF == J => (S \/ P_Transitions(ph, pe, po))
C07_EstablishedOnlyAfterOpenKeepalive_KF == J => (S \/ P_EstablishedOnlyAfterOpenKeepalive(ph, pe, po, h))
C07_Notification_KF == J => (S \/ (P_Notification(ph, pe, po) /\ P_NoHardResetWithoutN(ph, pe, po)))
C07_Notif_OpenConfirmUnexpected_KF == J => (S \/ P_NotifClass("OCUnexpected", ph, pe, po))   \* repaired: strict unless suspended
C07_Notif_EstablishedOpen_KF == J => (S \/ P_NotifClass("EstOpen", ph, pe, po))   \* repaired: strict unless suspended
C07_Notif_UnsupportedOptParam_KF == J => (S \/ P_NotifClass("UnsupOpt", ph, pe, po))   \* repaired: strict unless suspended
C07_Notif_KeepaliveLength_KF == J => (S \/ P_NotifClass("KaLen", ph, pe, po))   \* repaired: strict unless suspended
C07_Notif_OpenWhileIdle_KF == KFClass("IdleOpen", Dev_IdleOpen(ph, pe, po))
C07_Notif_ManualStopEarly_KF == KFClass("ManualStopEarly", Dev_ManualStopEarly(ph, pe, po))
C07_Notif_NoSpurious_KF == J => (S \/ P_NotifClass("Spurious", ph, pe, po))   \* repaired: strict unless suspended
C07_TimerInstant_KF == J => (S \/ P_TimerInstant(ph, pe, po, LargeHold))
C07_Timer_OpenConfirm_KF ==
  J => (S \/ P_Timer_OpenConfirm(ph, pe, po, LargeHold) \/ Dev_Timer_OpenConfirm(ph, pe, po, LargeHold))
C07_NoRibEffectBeforeEstablished_KF == J => (S \/ P_NoRibEffectBeforeEstablished(ph, pe, po))
(* KF-C07-collision, second face: the FSM goroutine adopts the outgoing connection but blocks in
   the OpenSent handler's deferred wait on the incoming one, still reporting OpenSent *)
C07_ReportedMatchesReal_KF == J => (S \/ h.susp \/ Dev_DownButOutgoing(ph, pe, po, h))

(* ---- informational: the real code follows the MECHANISM model (FsmMech.tla) exactly ---------- *)
ConfConn(a, b) == /\ a.known = b.known /\ a.closed = b.closed
                  /\ NotifPairs(a.msgs) = NotifPairs(b.msgs)
                  /\ Count(a.msgs, "OPEN") = Count(b.msgs, "OPEN")
                  /\ Count(a.msgs, "KEEPALIVE") - Count(b.msgs, "KEEPALIVE") \in {-1, 0, 1}
Conf_State == J => (mm.o.st = po.st /\ mm.o.admin = po.admin /\ mm.o.t = po.t)
Conf_Stream == J => [i \in 1..Len(mm.o.wev) |-> mm.o.wev[i].st] = [i \in 1..Len(po.wev) |-> po.wev[i].st]
Conf_Conns == J => (ConfConn(mm.o.ci, po.ci) /\ ConfConn(mm.o.co, po.co) /\ ConfConn(mm.o.cx, po.cx))
Conf_Dial == J => mm.o.dial = po.dial
Conf_Rib == J => (mm.o.ribg = po.ribg /\ mm.o.riba = po.riba)
=============================================================================
