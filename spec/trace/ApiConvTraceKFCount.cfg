SPECIFICATION TraceSpec
CONSTRAINT TraceConstraint
POSTCONDITION KfReport
CHECK_DEADLOCK FALSE
INVARIANTS
  C18_KfCount
