SPECIFICATION TraceSpec
CONSTANTS
  MaxSeg = 255
CONSTRAINT TraceConstraint
POSTCONDITION TraceAccepted
CHECK_DEADLOCK FALSE
INVARIANTS
  Conf_Down
  Conf_Up
  Conf_Rfc
