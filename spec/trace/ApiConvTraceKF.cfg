SPECIFICATION TraceSpec
CONSTRAINT TraceConstraint
POSTCONDITION TraceAccepted
CHECK_DEADLOCK FALSE
INVARIANTS
  Gap_Built
  Gap_Proto
  Gap_Pre
  C18_NoPanic_KF
  C18_Convertible
  C18_ApiFaithful_KF
  C18_ImageAccepted_KF
  C18_NativeRoundTrip_KF
  C18_WireEqual_KF
  C18_ApiRoundTrip_KF
  C18_ApiValueRoundTrip_KF
  C18_ApiValueDenotes_KF
  C18_ListedAsAdded_KF
  C18_DeletedGone
  C18_CanonicalAccepted
  C18_CfgRoundTrip_KF
  C18_CfgFixpoint
