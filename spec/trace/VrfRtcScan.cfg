SPECIFICATION TraceSpec
CONSTANTS
  Defects = {"D1", "D2", "D3", "D4"}
CONSTRAINT ScanConstraint
POSTCONDITION ScanAccepted
CHECK_DEADLOCK FALSE
INVARIANTS
  Gap_Sessions
  Gap_Clock
