SPECIFICATION TraceSpec
CONSTRAINT TraceConstraint
POSTCONDITION TraceAccepted
CHECK_DEADLOCK FALSE
INVARIANTS
  C06_MandatoryLocalPref_KF
  C06_NeverWeaker_KF
  C06_TawRemovesAll_KF
  C06_NeverInstalledMalformed
  C06_MandatoryPresent
  C06_ResetOnlyIfCalledFor
  C06_Code
  C06_ResetRemovesAll
  C06_WellFormedNotPenalised
