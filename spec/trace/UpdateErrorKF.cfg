SPECIFICATION TraceSpec
CONSTRAINT TraceConstraint
POSTCONDITION TraceAccepted
CHECK_DEADLOCK FALSE
INVARIANTS
  C06_MandatoryLocalPref_KF
  C06_NeverWeaker_KF
  C06_TawRemovesAll_KF
  C06_NeverInstalledMalformed_KF
  C06_MandatoryPresent_KF
  C06_ResetOnlyIfCalledFor_KF
  C06_Code_KF
  C06_ResetRemovesAll
  C06_WellFormedNotPenalised_KF
