SPECIFICATION TraceSpec
CONSTANTS
  Caches <- CacheNames
  PfxInfo <- PfxTable
  Fix <- NoFix
CONSTRAINT TraceConstraint
POSTCONDITION TraceAccepted
CHECK_DEADLOCK FALSE
INVARIANTS
  C16_TableNothingMissing
  C16_TableWithdrawnInResponse
  C16_TableReloadSameSession
  C16_TableNoOtherStale
  C16_Validate
  C16_ValidateLocalAS
  C16_PolicyAgrees
