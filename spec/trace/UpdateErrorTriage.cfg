SPECIFICATION TraceSpec
CONSTRAINT TraceConstraint
POSTCONDITION TraceAccepted
CHECK_DEADLOCK FALSE
INVARIANTS
  Triage
  TriageConf
