---------------------------- MODULE UpdateErrorTrace ----------------------------
(* Validates executions of the real code (harness/c06) against UpdateError.
   A trace = Reset (peer type, treat-as-withdraw switch, base message, replayer),
             Pre   (the peer has installed routes for all of AllPfx),
             Upd   (the message under test: abstract faults, what its valid part says, and what the
                    speaker did: NOTIFICATION, session, routes per prefix and per table).
   mode "e2e": real BgpServer in a bubble; views adjin / glob / n2 (what a second neighbour was sent)
   mode "wb" : real receive loop + real handleUpdate; view adjin only; the session teardown itself is
               not run, so after a reset all routes count as gone.
   The C06_* invariants compare the recorded observation with the PROPERTY layer of UpdateError. *)
EXTENDS UpdateError, TraceUtil, Integers

VARIABLES l, cfg, phase, cur
tvars == <<l, cfg, phase, cur>>

NoCfg == [mode |-> "none", pt |-> "ebgp", taw |-> TRUE, base |-> "v4", id |-> 0]
NoCur == [faults |-> <<>>, good |-> [x \in {"_"} |-> ""],
          obs |-> [sess |-> "up", code |-> -1, sub |-> -1, hand |-> "none"]]

TraceInit == l = 1 /\ cfg = NoCfg /\ phase = "init" /\ cur = NoCur

IsEvent(e) == l <= TLen /\ Trace[l].ev = e /\ l' = l + 1

TReset == /\ IsEvent("Reset")
          /\ Trace[l].mode \in {"e2e", "wb"} /\ Trace[l].pt \in PeerTypes /\ Trace[l].base \in Bases
          /\ cfg' = [mode |-> Trace[l].mode, pt |-> Trace[l].pt, taw |-> Trace[l].taw, base |-> Trace[l].base,
                     id |-> Trace[l].id]
          /\ phase' = "reset" /\ cur' = NoCur

(* the preparation must have worked, else the harness (not the speaker) is at fault: no action *)
TPre == /\ IsEvent("Pre")
        /\ phase = "reset"
        /\ Trace[l].obs.sess = "up"
        /\ Trace[l].obs.nold = Cardinality(AllPfx) * (IF cfg.mode = "e2e" THEN 3 ELSE 1)
        /\ Trace[l].obs.nold = Trace[l].obs.nviews
        /\ phase' = "pre" /\ UNCHANGED <<cfg, cur>>

FSof(seq) == {[a |-> seq[i].a, k |-> seq[i].k] : i \in 1..Len(seq)}

TUpd == /\ IsEvent("Upd")
        /\ phase = "pre"
        /\ \A i \in 1..Len(Trace[l].faults) :
              /\ <<Trace[l].faults[i].a, Trace[l].faults[i].k>> \in Kinds
              /\ Applies(Trace[l].faults[i].a, Trace[l].faults[i].k, cfg.base, cfg.pt)
        /\ DOMAIN Trace[l].obs.views = AllPfx
        /\ cur' = [faults |-> Trace[l].faults, good |-> Trace[l].good, obs |-> Trace[l].obs]
        /\ NoteIf(Real(FSof(Trace[l].faults), cfg.pt) # {},
                  <<cfg.mode, cfg.pt, cfg.taw, cfg.base, FSof(Trace[l].faults)>>)
        /\ phase' = "upd" /\ UNCHANGED cfg

TraceNext == TReset \/ TPre \/ TUpd
TraceSpec == TraceInit /\ [][TraceNext]_tvars

TraceConstraint == Hwm(l)
TraceAccepted == Accepted

---------------------------------------------------------------------------
(* observation *)
Judged   == phase = "upd"
FS       == FSof(cur.faults)
Pt       == cfg.pt
Taw      == cfg.taw
Obs      == cur.obs
Good     == cur.good
ObsReset == Obs.sess = "down"
Vs(p)    == SeqToSet(Obs.views[p])
(* wb does not run the teardown: after a reset every route of the peer counts as gone *)
St(v)    == IF cfg.mode = "wb" /\ ObsReset THEN "gone" ELSE v.st
Named    == Ann(cfg.base) \cup Wd(cfg.base)
(* what the message names AS RECEIVED (differs from Named only for shifted framing, see UpdateError) *)
NamedRcv == NamedAsReceived(FS, cfg.base)
NewViews == UNION {{<<p, v>> : v \in {w \in Vs(p) : St(w) = "new"}} : p \in AllPfx}
Has2(r, k) == k \in DOMAIN r

NoNewFor(ps)  == \A p \in ps : \A v \in Vs(p) : St(v) # "new"
AllGone(ps)   == \A p \in ps : \A v \in Vs(p) : St(v) = "gone"

(* the reaction is at least the strongest class any fault calls for (containment):
   reset-class => the session is reset; treat-as-withdraw-class => reset, or no announced prefix of
   the message is installed anywhere.  (discard-class: C06_NeverInstalledMalformed.) *)
NeverWeakerFor(fs) ==
  LET lo == Lo(fs, Pt, Taw) IN
  /\ lo = ResetC   => ObsReset
  /\ lo = Withdraw => (ObsReset \/ NoNewFor(Ann(cfg.base)))
C06_NeverWeaker == Judged => NeverWeakerFor(FS)

(* treat-as-withdraw removes EVERY prefix the message names from that peer's routes: the announced
   ones (NLRI, MP_REACH_NLRI) and the explicitly withdrawn ones; a route installed earlier for such a
   prefix must not survive *)
TawRemovesAllFor(fs, excused) ==
  (/\ Lo(fs, Pt, Taw) = Withdraw \/ Obs.hand = "withdraw"
   /\ ~ObsReset
   /\ NoNewFor(Ann(cfg.base))) => AllGone(NamedRcv \ excused)
C06_TawRemovesAll == Judged => TawRemovesAllFor(FS, {})

(* no installed or propagated route carries an attribute that arrived malformed: for every faulted
   attribute type, a route of the new message either lacks it or carries the valid FIRST occurrence
   (RFC 7606 3.g); no attribute type occurs twice *)
(* RFC 6793 4.2.3: AS_PATH / AGGREGATOR are legitimately rebuilt from AS4_PATH / AS4_AGGREGATOR when
   those are in the message: their installed value is then not comparable with what was sent *)
Rebuilt(k) == \/ (k = "t2" /\ \E f \in FS : f.a = "AS4_PATH")
              \/ (k = "t7" /\ \E f \in FS : f.a = "AS4_AGGREGATOR")
NotMalformed(v, fs) ==
  /\ v.ndup = 0
  /\ \A f \in Real(fs, Pt) :
       LET k == TypeKey(f.a, f.k) IN
       (k # "none" /\ Has2(v.attrs, k)) =>
          /\ Has2(Good, k)
          /\ (v.v # "n2" /\ ~Rebuilt(k)) => v.attrs[k] = Good[k]
C06_NeverInstalledMalformed == Judged => \A pv \in NewViews : NotMalformed(pv[2], FS)

(* no installed route lacks a mandatory attribute: ORIGIN, AS_PATH, NEXT_HOP (MP next hop for v6) *)
Mandatory(p) == {"t1", "t2"} \cup (IF IsV4(p) THEN {"t3"} ELSE {"t14"})
C06_MandatoryPresent ==
  Judged => \A pv \in NewViews : Mandatory(pv[1]) \subseteq DOMAIN pv[2].attrs
(* ... and LOCAL_PREF on a route received from an internal peer (RFC 4271 5.1.5) *)
C06_MandatoryLocalPref ==
  (Judged /\ Pt = "ibgp") => \A pv \in NewViews : pv[2].v \in {"adjin", "glob"} => Has2(pv[2].attrs, "t5")

(* a session reset (every route of the peer is lost) only if some fault is of reset class or revised
   error handling is off; a NOTIFICATION only with a reset *)
C06_ResetOnlyIfCalledFor ==
  Judged => ((ObsReset \/ Obs.code >= 0) => ResetJustified(FS, Pt, Taw))

(* the reset is announced by a NOTIFICATION whose code/subcode are those of a fault that is present
   and calls for the reset *)
C06_Code == (Judged /\ ObsReset) => (Obs.code >= 0 /\ <<Obs.code, Obs.sub>> \in OkCodes(FS, Pt, Taw))

(* after a reset nothing of the peer is left (end to end only) *)
C06_ResetRemovesAll == (Judged /\ ObsReset /\ cfg.mode = "e2e") => AllGone(AllPfx)

(* a fault-free message is applied: session up, announced prefixes installed with the attributes
   sent, withdrawn prefixes gone, everything else untouched *)
Kept == {"t1", "t2", "t3", "t4", "t5", "t99"}
C06_WellFormedNotPenalised ==
  (Judged /\ Real(FS, Pt) = {}) =>
     /\ ~ObsReset /\ Obs.code < 0
     /\ \A p \in Ann(cfg.base) : \A v \in Vs(p) :
          /\ St(v) = "new"
          /\ (v.v # "n2") => (\A k \in (Kept \cap DOMAIN Good) :
                                 \/ (k = "t5" /\ Pt # "ibgp")   \* LOCAL_PREF of a non-iBGP peer is stripped on ingress
                                 \/ (Has2(v.attrs, k) /\ v.attrs[k] = Good[k]))
          /\ (v.v = "n2" /\ Has2(Good, "t99")) => Has2(v.attrs, "t99")
     /\ AllGone(Wd(cfg.base))
     /\ \A p \in AllPfx \ Named : \A v \in Vs(p) : St(v) = "old"

---------------------------------------------------------------------------
(* KNOWN FINDINGS (predicates in UpdateError.tla, section "KNOWN FINDING predicates"): the weakened
   invariants judge a message by the faults the pinned speaker is not known to ignore (FSU).
   Outside the predicates they coincide with the strict invariants. *)
IsMasked == Masked(FS, Pt, Taw)
FSU      == Unmasked(FS, Pt, Taw)

C06_NeverWeaker_KF   == Judged => NeverWeakerFor(FSU)
(* a masked duplicate MP_REACH / MP_UNREACH: table.ProcessMessage uses the LAST one only *)
MaskedMpDupPfx ==
  (IF IsMasked /\ Has(FS, "MP_REACH", "dup") THEN {p \in Ann(cfg.base) : ~IsV4(p)} ELSE {})
  \cup (IF IsMasked /\ Has(FS, "MP_UNREACH", "dup") THEN {p \in Wd(cfg.base) : ~IsV4(p)} ELSE {})
C06_TawRemovesAll_KF == Judged => TawRemovesAllFor(FSU, MaskedMpDupPfx)
C06_MandatoryLocalPref_KF == KF_LocalPref(FS) \/ C06_MandatoryLocalPref

---------------------------------------------------------------------------
(* triage (always TRUE): one line per judged message that fails some strict invariant, naming the
   strict and the KF-weakened invariants it fails.  Lets the driver send only the failing traces
   through the one-by-one violation / known-finding path of the framework. *)
StrictInv == [C06_MandatoryLocalPref |-> C06_MandatoryLocalPref, C06_NeverWeaker |-> C06_NeverWeaker,
              C06_TawRemovesAll |-> C06_TawRemovesAll,
              C06_NeverInstalledMalformed |-> C06_NeverInstalledMalformed,
              C06_MandatoryPresent |-> C06_MandatoryPresent,
              C06_ResetOnlyIfCalledFor |-> C06_ResetOnlyIfCalledFor, C06_Code |-> C06_Code,
              C06_ResetRemovesAll |-> C06_ResetRemovesAll,
              C06_WellFormedNotPenalised |-> C06_WellFormedNotPenalised]
KFInv == [C06_MandatoryLocalPref |-> C06_MandatoryLocalPref_KF, C06_NeverWeaker |-> C06_NeverWeaker_KF,
          C06_TawRemovesAll |-> C06_TawRemovesAll_KF,
          C06_NeverInstalledMalformed |-> C06_NeverInstalledMalformed,
          C06_MandatoryPresent |-> C06_MandatoryPresent,
          C06_ResetOnlyIfCalledFor |-> C06_ResetOnlyIfCalledFor, C06_Code |-> C06_Code,
          C06_ResetRemovesAll |-> C06_ResetRemovesAll,
          C06_WellFormedNotPenalised |-> C06_WellFormedNotPenalised]
FailsOf(S) == {n \in DOMAIN S : ~S[n]}
Triage == (Judged /\ FailsOf(StrictInv) # {}) =>
             PrintT("VPOUT " \o ToJson([triage |-> [id |-> cfg.id, strict |-> FailsOf(StrictInv),
                                                      kf |-> FailsOf(KFInv),
                                                      tags |-> KFTags(FS, Pt, Taw)]]))

(* informational: the recorded handling class is the one the mechanism layer predicts (wb only) *)
ClassName(c) == CASE c = None -> "none" [] c = Discard -> "discard" [] c = Withdraw -> "withdraw" [] OTHER -> "reset"
(* shifted framing: whether the octets taken for NLRI parse (withdraw) or not (reset) depends on the
   octets, which the abstract description does not carry *)
Conf_Handling == (Judged /\ cfg.mode = "wb") =>
                    \/ Obs.hand = ClassName(MechClass(FS, Pt, Taw, FALSE))
                    \/ (Shifted(FS) /\ Obs.hand \in {"withdraw", "reset"})
(* always TRUE: reports the mismatches in the triage pass instead of failing one by one *)
TriageConf == Conf_Handling \/ PrintT("VPOUT " \o ToJson([conf |-> [id |-> cfg.id, hand |-> Obs.hand,
                                              mech |-> ClassName(MechClass(FS, Pt, Taw, FALSE))]]))
=============================================================================
