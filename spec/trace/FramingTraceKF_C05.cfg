SPECIFICATION TraceSpec
CONSTRAINT TraceConstraint
POSTCONDITION TraceAccepted
CHECK_DEADLOCK FALSE
INVARIANTS
  C05_NoPanic
  C05_Terminates
  C05_BufferUntouched
  C05_NoOverRead_KF
  C05_RenderSafe_KF
  C05_BoundedAlloc
