SPECIFICATION TraceSpec
CONSTRAINT TraceConstraint
POSTCONDITION TraceAccepted
CHECK_DEADLOCK FALSE
ALIAS Compact
INVARIANTS
  C11_SenderUndisturbed
  C11_Fits_KF
  C11_Homogeneous
  C11_OversizeSkipped
  C11_EffectNearLimit_KF
  C11_EorKept
  C11_Effect_KF
