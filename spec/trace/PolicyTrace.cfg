SPECIFICATION TraceSpec
CONSTRAINT TraceConstraint
POSTCONDITION TraceAccepted
CHECK_DEADLOCK FALSE
INVARIANTS
  C10_ConfigNoCrash
  C10_ReadBack_NoDangling
  C10_Verdict
  C10_Attrs
  C10_StoredUnchanged
  C10_ReadBack
