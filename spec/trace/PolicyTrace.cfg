SPECIFICATION TraceSpec
CONSTRAINT TraceConstraint
POSTCONDITION TraceAccepted
CHECK_DEADLOCK FALSE
INVARIANTS
  C10_ConfigNoCrash_MultiCut
  C10_ReadBack_NoDangling
  C10_Eval_StaleSet
  C10_Eval_CorruptStmt
  C10_Verdict_DefaultUnset
  C10_Attrs_ExtRemove
  C10_StoredUnchanged_LargeAdd
  C10_ReadBack_CorruptStmt
  C10_ReadBack_DefaultUnset
  C10_ReadBack_ApiOrigin
  C10_ReadBack_ApiCommAct
  C10_ConfigNoCrash
  C10_Verdict
  C10_Attrs
  C10_StoredUnchanged
  C10_ReadBack
