SPECIFICATION TraceSpec
CONSTANTS
  Defects = {"D1", "D2", "D3", "D4"}
CONSTRAINT TraceConstraint
POSTCONDITION TraceAccepted
CHECK_DEADLOCK FALSE
INVARIANTS
  Gap_Sessions
  Gap_Clock
  Gap_Junk
  Gap_GlobalVpn
  C17_ListVrf
  C17_VrfVisible
  C17_VrfExport
  C17_CeExport_KF
  C17_CeComplete_KF
  C17_RtcExact_KF
