SPECIFICATION TraceSpec
CONSTANTS
  LargeHold = 240
  PeerHolds = {0, 3, 9}
  Ticks = {1}
CONSTRAINT TraceConstraint
POSTCONDITION TraceAccepted
CHECK_DEADLOCK FALSE
INVARIANTS
  C07_Collision_KF
  C07_Notif_OpenConfirmUnexpected_KF
  C07_Notif_EstablishedOpen_KF
  C07_Notif_UnsupportedOptParam_KF
  C07_Notif_KeepaliveLength_KF
  C07_Notif_OpenWhileIdle_KF
  C07_Notif_ManualStopEarly_KF
  C07_Notif_NoSpurious_KF
  C07_Timer_OpenConfirm_KF
  C07_Notification_KF
  C07_TimerInstant_KF
  C07_Transitions_KF
  C07_EstablishedOnlyAfterOpenKeepalive_KF
  C07_NoRibEffectBeforeEstablished_KF
  C07_ReportedMatchesReal_KF
