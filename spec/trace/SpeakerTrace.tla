---------------------------- MODULE SpeakerTrace ----------------------------
(* Validates executions of the real BgpServer (harness/c01) against the property layer of
   Speaker.tla.  One line = one input step applied to the running server, followed by exact
   quiescence, with the observation taken then:
     views[p][x]  what neighbour p holds (fold of every UPDATE written to its connection)
     rib[x]       global table listing (ListPath), best first
     adjin[p][x]  p's Adj-RIB-In (white box), with the rejected flag
     ctr[p]       ListPeer counters, sess[p] reported session state.
   A neighbour that is stalled (not reading) or held (between table transfer and publication of
   Established) is not required to be up to date until it is resumed / released. *)
EXTENDS Speaker, SpeakerDom, TraceUtil

VARIABLES l, stalled, held, obs, hasObs, pobs, pcur, gone
tvars == <<up, inr, loc, impPol, expPol, inrPol, expEff, l, stalled, held, obs, hasObs, pobs, pcur, gone>>

TraceInit == PInit /\ l = 1 /\ stalled = {} /\ held = {} /\ obs = [none |-> TRUE] /\ hasObs = FALSE /\ pobs = [none |-> TRUE] /\ pcur = {} /\ gone = {}

IsEvent(e) == l <= TLen /\ Trace[l].ev = e /\ l' = l + 1
Row == Trace[l]
TakeObs == /\ pobs' = obs
           /\ pcur' = {p \in Peers : up[p] /\ p \notin stalled /\ p \notin held}   \* current BEFORE this step
           /\ IF "obs" \in DOMAIN Row THEN obs' = Row.obs /\ hasObs' = TRUE
              ELSE obs' = obs /\ hasObs' = FALSE     \* free-running mode: only the final state is observed

TReset == /\ IsEvent("Reset")
          /\ up' = [p \in Peers |-> FALSE]
          /\ inr' = [p \in Peers |-> [x \in Prefixes |-> NoRoute]]
          /\ loc' = [x \in Prefixes |-> NoRoute]
          /\ impPol' = "acc" /\ expPol' = "acc"
          /\ inrPol' = [p \in Peers |-> [x \in Prefixes |-> "acc"]]
          /\ expEff' = [p \in Peers |-> "acc"]
          /\ stalled' = {} /\ held' = {} /\ obs' = [none |-> TRUE] /\ hasObs' = FALSE /\ pobs' = [none |-> TRUE] /\ pcur' = {} /\ gone' = {}

TUp      == IsEvent("Up") /\ PUp(Row.p) /\ TakeObs /\ UNCHANGED <<stalled, held>>
TUpHold  == IsEvent("UpHold") /\ PUp(Row.p) /\ held' = held \cup {Row.p} /\ TakeObs /\ UNCHANGED stalled
TRelease == IsEvent("Release") /\ held' = held \ {Row.p} /\ TakeObs /\ UNCHANGED <<up, inr, loc, polvars, stalled>>
TDown    == IsEvent("Down") /\ PDown(Row.p) /\ stalled' = stalled \ {Row.p} /\ held' = held \ {Row.p} /\ TakeObs
TAnn     == IsEvent("Ann") /\ PAnn(Row.p, Row.x, Row.r) /\ TakeObs /\ UNCHANGED <<stalled, held>>
TWd      == IsEvent("Wd") /\ PWd(Row.p, Row.x) /\ TakeObs /\ UNCHANGED <<stalled, held>>
TApiAdd  == IsEvent("ApiAdd") /\ PApiAdd(Row.x, Row.r) /\ TakeObs /\ UNCHANGED <<stalled, held>>
TApiDel  == IsEvent("ApiDel") /\ PApiDel(Row.x) /\ TakeObs /\ UNCHANGED <<stalled, held>>
TStall   == IsEvent("Stall") /\ stalled' = stalled \cup {Row.p} /\ TakeObs /\ UNCHANGED <<up, inr, loc, polvars, held>>
TResume  == IsEvent("Resume") /\ stalled' = stalled \ {Row.p} /\ TakeObs /\ UNCHANGED <<up, inr, loc, polvars, held>>
TTick    == IsEvent("Tick") /\ TakeObs /\ UNCHANGED <<up, inr, loc, polvars, stalled, held>>
TSettle  == IsEvent("Settle") /\ stalled' = {} /\ held' = {} /\ TakeObs /\ UNCHANGED <<up, inr, loc, polvars>>

(* peer removal / re-addition: removal ends the session (if any) and everything learned on it *)
TDelPeer == /\ IsEvent("DelPeer")
            /\ (IF up[Row.p] THEN PDown(Row.p) ELSE UNCHANGED pvars)
            /\ stalled' = stalled \ {Row.p} /\ held' = held \ {Row.p} /\ TakeObs
            /\ gone' = gone \cup {Row.p}
TAddPeer == IsEvent("AddPeer") /\ TakeObs /\ gone' = gone \ {Row.p} /\ UNCHANGED <<up, inr, loc, polvars, stalled, held>>

TargetOf(n) == IF n = "all" THEN Peers ELSE {n}
TSetImp  == IsEvent("SetImp") /\ PSetImp(Row.pol) /\ TakeObs /\ UNCHANGED <<stalled, held>>
TSetExp  == IsEvent("SetExp") /\ PSetExp(Row.pol) /\ TakeObs /\ UNCHANGED <<stalled, held>>
TResetIn == IsEvent("ResetIn") /\ PResetIn(TargetOf(Row.p)) /\ TakeObs /\ UNCHANGED <<stalled, held>>
TResetOut == IsEvent("ResetOut") /\ PResetOut(TargetOf(Row.p)) /\ TakeObs /\ UNCHANGED <<stalled, held>>
TResetBoth == IsEvent("ResetBoth") /\ PResetBoth(TargetOf(Row.p)) /\ TakeObs /\ UNCHANGED <<stalled, held>>
TRefresh == IsEvent("Refresh") /\ PResetOut({Row.p}) /\ TakeObs /\ UNCHANGED <<stalled, held>>

(* C20: chaos operations (free-running mode) leave the property-layer state alone; the final
   Health line carries what the run-time oracles saw *)
TOp     == IsEvent("Op") /\ TakeObs /\ UNCHANGED <<up, inr, loc, polvars, stalled, held>>
THealth == IsEvent("Health") /\ obs' = [health |-> Row] /\ hasObs' = FALSE /\ pobs' = obs /\ pcur' = {}
           /\ UNCHANGED <<up, inr, loc, polvars, stalled, held>>

TraceNext == \/ TDelPeer \/ TAddPeer \/ TReset
             \/ /\ UNCHANGED gone
                /\ \/ TOp \/ THealth \/ TSetImp \/ TSetExp \/ TResetIn \/ TResetOut \/ TResetBoth \/ TRefresh \/ TUp \/ TUpHold
                   \/ TRelease \/ TDown \/ TAnn \/ TWd \/ TApiAdd \/ TApiDel \/ TStall \/ TResume \/ TTick \/ TSettle
TraceSpec == TraceInit /\ [][TraceNext]_tvars


---------------------------------------------------------------------------
Current(p) == up[p] /\ p \notin stalled /\ p \notin held

(* harness sanity, NOT a property verdict: the sessions are in the state the schedule drove them to *)
Gap_Sessions == hasObs => \A p \in Peers \ held : (obs.sess[p] = "up") = up[p]

(* C01: every established, reading neighbour holds exactly the current export *)
C01_ExportExact ==
  hasObs => \A p \in Peers : (Current(p) /\ CleanIn /\ CleanOut(p) /\ SendMax(p) = 0) =>
               \A x \in Prefixes : obs.views[p][x] = ExportOf(p, x)

(* ADD-PATH neighbours: what they hold per prefix is a set of entries [id, ...exported route].
   Every entry is an eligible route, no route and no identifier twice, and the quota is used:
   min(send-max, number of eligible routes) entries. *)
Strip(o) == [v |-> o.v, src |-> o.src, aspath |-> o.aspath, nh |-> o.nh, med |-> o.med, lp |-> o.lp,
             origid |-> o.origid, clist |-> o.clist, cm |-> o.cm]
MinOf(a, b) == IF a < b THEN a ELSE b
C01_AddPathExact ==
  hasObs => \A p \in Peers : (Current(p) /\ CleanIn /\ CleanOut(p) /\ SendMax(p) > 0) =>
     \A x \in Prefixes :
        LET O == obs.mviews[p][x]
            E == EligibleSet(p, x)
        IN /\ \A i \in 1..Len(O) : Strip(O[i]) \in E
           /\ \A i, j \in 1..Len(O) : i # j => (O[i].id # O[j].id /\ O[i].src # O[j].src)
           /\ Len(O) = MinOf(SendMax(p), Cardinality(E))
C15_AddPathAsIfFresh == C01_AddPathExact
(* each advertised route keeps ONE identifier for as long as it stays advertised: judged between two
   consecutive observations of a neighbour that was reading at both (a stalled neighbour sees
   several events at once, among them possibly a withdrawal and a new announcement of a source) *)
C01_StableIds ==
  (hasObs /\ "mviews" \in DOMAIN pobs /\ l > 1) =>
    \A p \in Peers : (SendMax(p) > 0 /\ up[p] /\ p \in pcur /\ Current(p)
                      /\ ~(Trace[l - 1].ev \in {"Up", "UpHold", "Down"} /\ Trace[l - 1].p = p)) =>
       \A x \in Prefixes : \A i \in 1..Len(obs.mviews[p][x]) : \A j \in 1..Len(pobs.mviews[p][x]) :
          obs.mviews[p][x][i].src = pobs.mviews[p][x][j].src
             => obs.mviews[p][x][i].id = pobs.mviews[p][x][j].id

(* C15: once the soft reset matching a policy change has been done, the Loc-RIB and what every
   neighbour holds equal a fresh evaluation under the CURRENT policy (ExportOf / LocRibExpected
   are defined from the current policy and the route history only).  A repeated reset is one
   more step at which the same equality is required: it changes nothing. *)
C15_ExportAsIfFresh == C01_ExportExact

(* C02: Adj-RIB-In = last un-withdrawn route per prefix of the CURRENT session, nothing from an
   ended one; rejected flag for routes failing the loop check *)
AdjInRec(r) == IF r = NoRoute THEN NoRoute ELSE [src |-> r.src, v |-> r.v, rej |-> r.loop]
C02_AdjInExact ==
  hasObs => \A p \in Peers : \A x \in Prefixes : obs.adjin[p][x] = AdjInRec(inr[p][x])

(* C02: Loc-RIB = usable routes + local routes, one per source, best first *)
RibRec(s) == [i \in 1..Len(s) |-> [src |-> s[i].src, v |-> s[i].v, best |-> (i = 1)]]
C02_LocRibExact ==
  (hasObs /\ CleanIn) => \A x \in Prefixes : obs.rib[x] = RibRec(Ordered(LocRibExpected(x)))
C15_LocRibAsIfFresh == C02_LocRibExact
(* counts the C15-relevant states: a policy other than "acc" is configured and in force *)
C15_Nontrivial == hasObs /\ CleanIn /\ (impPol # "acc" \/ expPol # "acc") /\ \E p \in Peers : Current(p) /\ CleanOut(p)

(* C02: the best-path notification stream, folded in order, reproduces the current best table *)
BestRec(x) == IF LocRibExpected(x) = {} THEN NoRoute
              ELSE LET b == BestOf(LocRibExpected(x)) IN [src |-> b.src, v |-> b.v]
C02_BestStream ==
  (hasObs /\ CleanIn /\ "beststream" \in DOMAIN obs) => \A x \in Prefixes : obs.beststream[x] = BestRec(x)

(* C02: exact / longer / shorter lookups agree with the table content.  The pool is nested:
   x2 (10.1.0.128/25) inside x1 (10.1.0.0/24) inside 10.1.0.0/16 *)
PresentPfx == {x \in Prefixes : LocRibExpected(x) # {}}
C02_Lookups ==
  (hasObs /\ CleanIn /\ "lookup" \in DOMAIN obs) =>
     /\ SeqToSet(obs.lookup.exactx1)  = PresentPfx \cap {"x1"}
     /\ SeqToSet(obs.lookup.longerx1) = PresentPfx \cap {"x1", "x2"}
     /\ SeqToSet(obs.lookup.longer16) = PresentPfx \cap {"x1", "x2"}
     /\ SeqToSet(obs.lookup.shortx2)  = PresentPfx \cap {"x1", "x2"}
     (* a host address inside x2: the most specific prefix the table HOLDS A ROUTE for (a destination
        that lingers without a route, e.g. after an API delete, must not hide the covering prefix) *)
     /\ ("host" \in DOMAIN obs.lookup =>
           SeqToSet(obs.lookup.host) = (IF "x2" \in PresentPfx THEN {"x2"}
                                       ELSE IF "x1" \in PresentPfx THEN {"x1"} ELSE {}))

(* C02: received / accepted counters agree with that content *)
(* a removed neighbour is not listed at all (the harness then records -1), a configured one always is *)
C02_Counters ==
  hasObs => \A p \in Peers :
     IF p \in gone THEN obs.ctr[p].received = -1 /\ obs.ctr[p].accepted = -1
     ELSE /\ obs.ctr[p].received = Cardinality({x \in Prefixes : inr[p][x] # NoRoute})
          /\ obs.ctr[p].accepted = Cardinality({x \in Prefixes : Usable(inr[p][x])})

(* C20: the run-time oracles of a concurrent execution, as recorded in its Health line *)
HasHealth == "health" \in DOMAIN obs
C20_NoDataRace  == HasHealth => obs.health.races = 0
C20_NoGoroutineLeak == HasHealth => ~obs.health.leak
C20_NoDeadlock  == HasHealth => ~obs.health.deadlock
C20_CallsReturn == HasHealth => obs.health.stuck = 0

TraceConstraint == Hwm(l) /\ NoteIf(HasHealth, <<"c20", l>>) /\ NoteIf(C15_Nontrivial, <<"c15", up, inr, loc, polvars>>) /\ NoteIf(hasObs /\ \E x \in Prefixes : Cardinality(LocRibExpected(x)) >= 2
                                     /\ \E p \in Peers : up[p],
                                    <<up, inr, loc, polvars, stalled, held>>)
TraceAccepted == Accepted

(* debugging aid (tools/explain.py): what is shown in a counterexample state *)
Explain == [l |-> l, ev |-> IF l > 1 THEN Trace[l - 1].ev ELSE "init", up |-> up, stalled |-> stalled, held |-> held,
            expect |-> [p \in Peers |-> ExportView(p)],
            got |-> IF hasObs THEN obs.views ELSE <<>>,
            rib |-> [x \in Prefixes |-> RibRec(Ordered(LocRibExpected(x)))],
            gotrib |-> IF hasObs THEN obs.rib ELSE <<>>]
=============================================================================
