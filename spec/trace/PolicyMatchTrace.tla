---------------------------- MODULE PolicyMatchTrace ----------------------------
(* Validates executions of the real community matchers (harness/c13/c13_test.go) against
   PolicyMatch.  One trace = one defined set of /repo's internal/pkg/table:
     Reset   the pattern pool (abstract terms + what the harness configured), the value pool,
             the probe routes; per (pattern, value): `single` = verdict of the REAL
             Condition.Evaluate for the one-pattern set {pattern} on a route carrying just that
             value, `re` = Go regexp.MatchString(configured regular expression, canonical text
             of the value)  [reference semantics named by the property text];
     Define  NewCommunitySet / NewExtCommunitySet / NewLargeCommunitySet(list);
     Edit    Append / Remove / Replace on that set object;
   after Define and every Edit: `obs` = the list the set reports and the verdicts of the three
   Conditions (any / all / invert) bound to the set for every probe route.

   Verdict invariants (the only place a C13 verdict is made):
     C13_EditedList         the set holds the edited pattern list
     C13_MatchesDenotation  code verdict = Matches(edited list, option, route) by Den   [shape]
     C13_RegexpAgrees       code verdict = the same any/all/invert combination of the logged
                            regexp verdicts                                   [shape + near-miss]
   NOT a verdict (own cfg, failure = machinery error): X_SpecVsRegexp, Den against Go's regexp
   on the text the harness rendered - a disagreement means the denotation or the renderer is
   wrong.  Informational: Conf_Mode, Conf_Fast (code follows the mechanism layer). *)
EXTENDS PolicyMatchDom, TraceUtil

VARIABLES l, kind, gen, pats, vals, routes, re, single, obs
tvars == <<plist, compiled, l, kind, gen, pats, vals, routes, re, single, obs>>

NoObs == [list |-> <<>>, any |-> <<>>, all |-> <<>>, inv |-> <<>>, fast |-> <<>>]

TraceInit == /\ Init /\ l = 1 /\ kind = "none" /\ gen = "none" /\ pats = <<>> /\ vals = <<>>
             /\ routes = <<>> /\ re = <<>> /\ single = <<>> /\ obs = NoObs

IsEvent(e) == l <= TLen /\ Trace[l].ev = e /\ l' = l + 1

Val(v) == [k |-> v.k, st |-> v.st, n |-> v.n]               \* drop the logged text
Comms(r) == {Val(vals[r[j]]) : j \in DOMAIN r}
Args(ix) == [i \in DOMAIN ix |-> pats[ix[i]]]
Keys(list) == [i \in DOMAIN list |-> list[i].key]

(* distinct non-trivial cases: a non-empty route probed against a non-empty list in which at
   least one pattern was promoted to a compiled (non-regexp) matcher [large communities have no
   compiler: any non-empty list] *)
NonTrivial(list, r) == /\ list # <<>> /\ r # <<>>
                       /\ (kind = "large" \/ \E i \in DOMAIN list : list[i].mode # "regexp")
Note(list) == \A i \in DOMAIN routes :
                NoteIf(NonTrivial(list, routes[i]), <<kind, gen, Keys(list), Comms(routes[i])>>)

TReset ==
  /\ IsEvent("Reset")
  /\ kind' = Trace[l].kind /\ gen' = Trace[l].gen /\ pats' = Trace[l].pats /\ vals' = Trace[l].vals
  /\ routes' = Trace[l].routes /\ re' = Trace[l].re /\ single' = Trace[l].single
  /\ plist' = <<>> /\ compiled' = Compile(<<>>) /\ obs' = NoObs
  /\ Assert(\A i \in DOMAIN Trace[l].pats :
               IsShape(Trace[l].pats[i]) \/ Trace[l].pats[i].norm = Trace[l].pats[i].text,
            "harness: configured near-miss text was altered by the configuration front end")
  /\ Assert(\A i \in DOMAIN Trace[l].vals :
               Val(Trace[l].vals[i]) \in StdValues \cup TwoValues \cup FourValues \cup Ip4Values \cup LargeValues,
            "generator: value outside the value domain")

TDefine ==
  /\ IsEvent("Define")
  /\ DoDefine(Args(Trace[l].args))
  /\ Note(Args(Trace[l].args))
  /\ obs' = Trace[l].obs
  /\ UNCHANGED <<kind, gen, pats, vals, routes, re, single>>

TEdit ==
  /\ IsEvent("Edit")
  /\ LET a == Args(Trace[l].args) IN
       CASE Trace[l].op = "Append"  -> DoAppend(a)  /\ Note(AppendTo(plist, a))
         [] Trace[l].op = "Remove"  -> DoRemove(a)  /\ Note(RemoveFrom(plist, a))
         [] Trace[l].op = "Replace" -> DoReplace(a) /\ Note(ReplaceWith(plist, a))
  /\ obs' = Trace[l].obs
  /\ UNCHANGED <<kind, gen, pats, vals, routes, re, single>>

TraceNext == TReset \/ TDefine \/ TEdit
TraceSpec == TraceInit /\ [][TraceNext]_tvars

TraceConstraint == Hwm(l)
TraceAccepted == Accepted

---------------------------------------------------------------------------
PIdx(p) == CHOOSE i \in DOMAIN pats : pats[i] = p

(* what the code answered for probe route r under option o *)
Code(o, r) == CASE o = "any" -> obs.any[r] [] o = "all" -> obs.all[r] [] o = "invert" -> obs.inv[r]
Probed == DOMAIN obs.any

(* the regular expression's verdict on one value: the sub-type prefix of an extended pattern
   is not part of the regular expression (documentation), it selects the sub-type *)
StOk(p, v) == p.st \in {"std", "large"} \/ p.st = v.st
ReHit(p, j) == StOk(p, vals[j]) /\ re[PIdx(p)][j]

Combine(list, o, r, hit(_, _)) ==
  LET one(i) == \E j \in DOMAIN r : hit(list[i], r[j]) IN
  CASE o = "any"    -> \E i \in DOMAIN list : one(i)
    [] o = "all"    -> \A i \in DOMAIN list : one(i)
    [] o = "invert" -> ~\E i \in DOMAIN list : one(i)

C13_EditedList == obs.list = Keys(plist)

C13_MatchesDenotation ==
  gen = "shape" =>
    /\ \A i \in DOMAIN pats : \A j \in DOMAIN vals : single[i][j] = (Val(vals[j]) \in Den(pats[i]))
    /\ \A r \in Probed : \A o \in Opts :
         Determined(plist, o) => (Code(o, r) = Matches(plist, o, Comms(routes[r])))

C13_RegexpAgrees ==
  /\ \A i \in DOMAIN pats : \A j \in DOMAIN vals : single[i][j] = ReHit(pats[i], j)
  /\ \A r \in Probed : \A o \in Opts :
       Determined(plist, o) => (Code(o, r) = Combine(plist, o, routes[r], ReHit))

(* Den against Go's regexp on the rendered text: machinery cross-check, never a verdict *)
X_SpecVsRegexp ==
  gen = "shape" =>
    \A i \in DOMAIN pats : \A j \in DOMAIN vals : ReHit(pats[i], j) = (Val(vals[j]) \in Den(pats[i]))

---------------------------------------------------------------------------
(* KNOWN FINDINGS (proposed, findings_proposed/C13-*.md)

   KF-C13-lenient-parse: the compiler reads numbers with strconv.ParseUint / TrimSpace and
   recognises the wildcard by a suffix test, so a non-canonical spelling (leading zeros, blanks
   inside an alternation, a further colon before the wildcard) is promoted to the matcher of
   its LenientReading although its regular expression matches no canonical community text (or
   a different set).  The weakened invariant tolerates exactly: the verdict obtained when every
   lenient pattern is replaced by its lenient reading.

   KF-C13-ext-remove-subtype: ExtCommunitySet.Remove compares the regular expressions only, so
   removing soo:X also removes rt:X.  Tolerated by the cfg constant RemoveIgnoresSubtype = TRUE
   (the spec then edits the list the way the code does; all invariants unchanged). *)

KfHit(p, j) == IF IsLenient(p) THEN Val(vals[j]) \in Den(LenientReading(p)) ELSE ReHit(p, j)

C13_RegexpAgrees_KF ==
  /\ \A i \in DOMAIN pats : \A j \in DOMAIN vals :
       single[i][j] = ReHit(pats[i], j) \/ single[i][j] = KfHit(pats[i], j)
  /\ \A r \in Probed : \A o \in Opts :
       Determined(plist, o) =>
          \/ Code(o, r) = Combine(plist, o, routes[r], ReHit)
          \/ Code(o, r) = Combine(plist, o, routes[r], KfHit)

---------------------------------------------------------------------------
(* informational: the code follows the mechanism layer *)
Conf_Mode == gen = "shape" => \A i \in DOMAIN pats : pats[i].mode = Mode(pats[i])
Conf_Fast == (gen = "shape" /\ obs.fast # <<>>) =>
               obs.fast[1] = (IF kind = "std" THEN StdFast(compiled, "any")
                              ELSE IF kind = "ext" THEN ExtFast(compiled, "any") ELSE FALSE)
Conf_Mech == gen = "shape" =>
               \A r \in Probed : \A o \in Opts : Code(o, r) = MechEval(kind, compiled, o, Comms(routes[r]))
=============================================================================
