---------------------------- MODULE MonitorTrace ----------------------------
(* C19 (A): validates executions of the real BgpServer with a BMP station and the MRT dumpers attached
   (harness/c19/c19mon_test.go) against the observer model of Monitor.tla.

   One line = one input step applied to the running server, followed by exact quiescence.  The line
   carries what the station and the MRT files received during the step, split by the packages' own
   stream splitters and parsed back by the packages' own parsers (projected to abstract records):
     bmp    the BMP records, in order          upd    the BGP4MP records of the updates dumper, in order
     dumps  (Dump steps) the TABLE_DUMPv2 groups written by the table dumper
     obs    sessions and Adj-RIB-In as seen white-box (harness sanity only, the Gap_ invariants).
   The spec folds the records (Monitor!StFold, UpdFold) and the C19_* invariants compare the folded
   tables with the speaker model's tables at every quiescent point. *)
EXTENDS Monitor, SpeakerDom, TraceUtil

VARIABLES l, st, mu, muviol, dumps, isDump, obs, hasObs, must
tvars == <<up, inr, loc, impPol, expPol, inrPol, expEff, l, st, mu, muviol, dumps, isDump, obs, hasObs, must>>

IsEvent(e) == l <= TLen /\ Trace[l].ev = e /\ l' = l + 1
Row == Trace[l]

EmptyPeerTbl == [x \in Prefixes |-> NoRoute]

---------------------------------------------------------------------------
(* BGP4MP (RFC 6396 4.4) replay: per neighbour, per prefix.  The updates dumper writes no state-change
   records, so the replayed table of a neighbour is emptied by the spec when its session ends / starts *)
UpdHdrOk(m, p) == m.pas = PInfo[p].as /\ m.las = LocalAS /\ m.laddr = "self" /\ m.type = 16 /\ m.sub = 4

UpdFold1(s, m) ==
  IF m.perr # "" \/ ~m.isupd THEN [s EXCEPT !.viol = @ \cup {"parse-upd"}]
  ELSE IF m.peer \notin Peers THEN [s EXCEPT !.viol = @ \cup {"upd-unknown-peer"}]
  ELSE LET p  == m.peer
           v1 == IF UpdHdrOk(m, p) THEN {} ELSE {"upd-header"}
           v2 == IF m.declen = m.toklen THEN {} ELSE {"upd-framing"}
           v3 == IF UnknownPfx(m) THEN {"upd-unknown-prefix"} ELSE {}
       IN [tbl |-> IF m.eor THEN s.tbl ELSE ApplyAnn(ApplyWd(s.tbl, p, m.wd, 1), p, m.ann, 1),
           viol |-> s.viol \cup v1 \cup v2 \cup v3]
RECURSIVE UpdFold(_, _, _)
UpdFold(s, ms, i) == IF i > Len(ms) THEN s ELSE UpdFold(UpdFold1(s, ms[i]), ms, i + 1)

(* common part of every step: fold what arrived, copy the observation.  clr = neighbours whose
   BGP4MP replay starts afresh; stBase = the station before the records of this step *)
(* fresh = the (neighbour, prefix) pairs announced by this step: recorded as "announced after the current
   monitoring session was opened" unless the session was opened during this very step (input fact for the
   weakened invariants) *)
TakeF(stBase, off, clr, fresh) ==
  /\ LET s1 == [StFold(stBase, Row.bmp, 1) EXCEPT !.initial = FALSE]
         s2 == IF s1.sess = stBase.sess THEN [s1 EXCEPT !.fresh = @ \cup fresh] ELSE s1
     IN st' = IF off THEN StOff(s2) ELSE s2
  /\ LET base == [p \in Peers |-> IF p \in clr THEN EmptyPeerTbl ELSE mu[p]]
         r    == UpdFold([tbl |-> base, viol |-> muviol], Row.upd, 1)
     IN mu' = r.tbl /\ muviol' = r.viol
  /\ IF "dumps" \in DOMAIN Row THEN dumps' = Row.dumps /\ isDump' = TRUE ELSE dumps' = <<>> /\ isDump' = FALSE
  /\ obs' = Row.obs /\ hasObs' = TRUE
Take(stBase, off, clr) == TakeF(stBase, off, clr, {})

TraceInit == PInit /\ l = 1 /\ st = StInit /\ mu = NoTbl /\ muviol = {} /\ dumps = <<>> /\ isDump = FALSE
             /\ obs = [none |-> TRUE] /\ hasObs = FALSE /\ must = FALSE

TReset == /\ IsEvent("Reset")
          /\ up' = [p \in Peers |-> FALSE]
          /\ inr' = [p \in Peers |-> [x \in Prefixes |-> NoRoute]]
          /\ loc' = [x \in Prefixes |-> NoRoute]
          /\ impPol' = "acc" /\ expPol' = "acc"
          /\ inrPol' = [p \in Peers |-> [x \in Prefixes |-> "acc"]]
          /\ expEff' = [p \in Peers |-> "acc"]
          /\ st' = StInit /\ mu' = NoTbl /\ muviol' = {} /\ dumps' = <<>> /\ isDump' = FALSE
          /\ obs' = [none |-> TRUE] /\ hasObs' = FALSE /\ must' = FALSE

(* must: this step makes the daemon write to the station whatever the monitoring policy (a session is
   established or an established session ends: Peer Up / Peer Down), so a lost connection is noticed and a
   new monitoring session is opened during the step *)
TUp      == IsEvent("Up") /\ PUp(Row.p) /\ Take(st, FALSE, {Row.p}) /\ must' = st.on
TDown    == IsEvent("Down") /\ PDown(Row.p) /\ Take(st, FALSE, {Row.p}) /\ must' = st.on
TAnn     == IsEvent("Ann") /\ PAnn(Row.p, Row.x, Row.r) /\ TakeF(st, FALSE, {}, {<<Row.p, Row.x>>}) /\ must' = FALSE
TWd      == IsEvent("Wd") /\ PWd(Row.p, Row.x) /\ Take(st, FALSE, {}) /\ must' = FALSE
TApiAdd  == IsEvent("ApiAdd") /\ PApiAdd(Row.x, Row.r) /\ Take(st, FALSE, {}) /\ must' = FALSE
TApiDel  == IsEvent("ApiDel") /\ PApiDel(Row.x) /\ Take(st, FALSE, {}) /\ must' = FALSE
TDelPeer == /\ IsEvent("DelPeer")
            /\ must' = (st.on /\ up[Row.p])
            /\ (IF up[Row.p] THEN PDown(Row.p) ELSE UNCHANGED pvars)
            (* input fact for the weakened invariants: de-configured while its bracket was open *)
            /\ Take(IF Row.p \in st.up THEN [st EXCEPT !.ghost = @ \cup {Row.p}] ELSE st, FALSE, {Row.p})
TAddPeer == IsEvent("AddPeer") /\ Take(st, FALSE, {}) /\ UNCHANGED pvars /\ must' = FALSE
TBmpOn   == IsEvent("BmpOn") /\ Take(StOn(st, Row.pol), FALSE, {}) /\ UNCHANGED pvars /\ must' = TRUE
TBmpOff  == IsEvent("BmpOff") /\ Take(st, TRUE, {}) /\ UNCHANGED pvars /\ must' = FALSE
(* the station closes the connection; the daemon notices at its next write *)
TBmpDrop == IsEvent("BmpDrop") /\ Take(StDrop(st), FALSE, {}) /\ UNCHANGED pvars /\ must' = FALSE
TDump    == IsEvent("Dump") /\ Take(st, FALSE, {}) /\ UNCHANGED pvars /\ must' = FALSE
TSettle  == IsEvent("Settle") /\ Take(st, TRUE, {}) /\ UNCHANGED pvars /\ must' = FALSE

TraceNext == TReset \/ TUp \/ TDown \/ TAnn \/ TWd \/ TApiAdd \/ TApiDel \/ TDelPeer \/ TAddPeer
             \/ TBmpOn \/ TBmpOff \/ TBmpDrop \/ TDump \/ TSettle
TraceSpec == TraceInit /\ [][TraceNext]_tvars

---------------------------------------------------------------------------
(* harness sanity, NOT property verdicts: the schedule drove the server where the model is *)
Gap_Sessions == hasObs => \A p \in Peers : (obs.sess[p] = "up") = up[p]
AdjInRec(r) == IF r = NoRoute THEN NoRoute ELSE [src |-> r.src, v |-> r.v]
Gap_AdjIn == hasObs => \A p \in Peers : \A x \in Prefixes : obs.adjin[p][x] = AdjInRec(inr[p][x])
Gap_Dump == isDump => Len(dumps) >= 1

---------------------------------------------------------------------------
(* C19, BMP *)
Noted(T) == Tags(st) \cap T # {}

(* every record the station received parses back, and is exactly as long as its header says *)
C19_BmpParses == ~Noted({"parse-rm", "parse-up", "parse-down", "parse-other", "framing"})

(* one Initiation opens a monitoring session, Termination (or the loss of the connection) closes it *)
Live == st.on /\ st.started
C19_BmpSession == /\ ~Noted({"init-twice", "term-before-init", "before-init"})
                  /\ (st.on /\ ~st.dropped) => st.started
                  /\ st.started => (st.on /\ ~st.dropped)
(* after the connection was lost, a new monitoring session exists at the latest once a step has made the
   daemon write (Peer Up / Peer Down); everything the new session must contain is demanded by the
   invariants below, which hold for every live session *)
C19_BmpReconnect == must => st.started

(* no route monitoring, statistics or Peer Down for a neighbour outside a Peer Up .. Peer Down
   bracket; the brackets open at quiescence are exactly the established sessions *)
C19_BmpBracket ==
  /\ ~Noted({"bracket-rm", "bracket-up-twice", "bracket-down-without-up", "bracket-stats", "bracket-rm-unknown-peer",
             "bracket-up-unknown-peer", "bracket-down-unknown-peer", "peer-type"})
  /\ Live => st.up \ st.ghost = {p \in Peers : up[p]}
(* ... also for a neighbour that is de-configured while established (its bracket must be closed) *)
C19_BmpBracket_Deconfigured == ~Noted({"bracket-up-twice-ghost"}) /\ (Live => st.ghost = {})
(* ... and no post-policy route monitoring under an all-zero peer header (locally originated routes)
   that no Peer Up ever announced *)
C19_BmpBracket_LocalPost == ~Noted({"bracket-rm-local-post"})
C19_BmpLocRibBracket ==
  /\ ~Noted({"bracket-locrib-rm", "bracket-locrib-up-twice", "bracket-locrib-down"})
  /\ Live => st.locup = WantsLoc(st.pol)

(* per-peer header (address, AS, BGP identifier) and the OPENs of Peer Up are the session's *)
C19_BmpPeerHeader == ~Noted({"hdr-rm", "hdr-up", "hdr-up-open", "hdr-down", "hdr-locrib-rm", "hdr-locrib-up", "hdr-locrib-down"})
C19_BmpPeerUpLocalAddress == ~Noted({"up-local-address", "up-local-address-unset"})
(* weakened for KF-C19-bmp-peerup-local-address: the session's address or the (unset) configured one *)
C19_BmpPeerUpLocalAddress_KF == ~Noted({"up-local-address"})

(* the pre-policy stream, folded, IS the Adj-RIB-In of every neighbour *)
AdjInOk(P) == (Live /\ WantsPre(st.pol)) =>
                 /\ ~Noted({"unknown-prefix"})
                 /\ \A p \in P : \A x \in Prefixes : PreOk(st.pre[p][x], p, x)
C19_BmpAdjInExact    == AdjInOk(Peers)
C19_BmpAdjInExact_KF == AdjInOk(Peers \ st.ghost)          \* KF-C19-bmp-deconfigured-no-peerdown
(* the post-policy stream, folded, is the Adj-RIB-In after inbound processing *)
(* Cached(p, x): the route of (p, x) was reported post-policy on an EARLIER monitoring session of this station,
   the neighbour announced it (again) after the current session was opened, and the station does not have it
   (KF-C19-bmp-ribout-survives-reconnect); a route that did not change since before the current session was
   opened is NOT covered: it belongs to the initial dump *)
Cached(p, x) == <<p, x>> \in st.old /\ <<p, x>> \in st.fresh /\ st.post[p][x] = NoRoute
PostPolicyOk(P, tolerateInitial, tolerateCached) ==
  (Live /\ WantsPost(st.pol)) =>
     \A p \in P : \A x \in Prefixes : \/ (tolerateInitial /\ <<p, x>> \in st.ip)
                                       \/ (tolerateCached /\ Cached(p, x))
                                       \/ PostOk(st.post[p][x], p, x)
C19_BmpPostPolicy    == PostPolicyOk(Peers, FALSE, FALSE)
C19_BmpPostPolicy_KF == PostPolicyOk(Peers \ st.ghost, TRUE, TRUE)  \* + KF-C19-bmp-post-withdraw-after-initial-dump
(* the Loc-RIB stream, folded under the capabilities its own Peer Up announces, IS the set of selected routes *)
C19_BmpLocRibExact ==
  (Live /\ WantsLoc(st.pol) /\ st.locup) => \A x \in Prefixes : LocOk(st.loc, x)
(* weakened for KF-C19-bmp-locrib-stale-pathid: the same stream folded by prefix only *)
C19_BmpLocRibExact_KF ==
  (Live /\ WantsLoc(st.pol) /\ st.locup) => \A x \in Prefixes : LocpOk(st.locp, x)

---------------------------------------------------------------------------
(* C19, MRT TABLE_DUMPv2: the LAST group written during a Dump step is the table at that quiescent point *)
WellFormedGroup(g) == "peers" \in DOMAIN g
HasDump == isDump /\ Len(dumps) >= 1 /\ WellFormedGroup(dumps[Len(dumps)])
G == dumps[Len(dumps)]
HasLocal == \E x \in Prefixes : loc[x] # NoRoute

(* every record of the dump parses back and is exactly as long as its header says *)
MrtParsesOk(toleratePit) ==
  isDump => \A i \in 1..Len(dumps) :
              /\ WellFormedGroup(dumps[i]) /\ dumps[i].bad = <<>> /\ dumps[i].hlenok
              /\ (dumps[i].piterr = "" \/ toleratePit)
              /\ \A j \in 1..Len(dumps[i].ribs) : dumps[i].ribs[j].hlenok
C19_MrtParses    == MrtParsesOk(FALSE)
(* weakened for KF-C19-mrt-peerindex-local-route: the peer index table does not parse back when the
   table holds a locally originated route *)
C19_MrtParses_KF == MrtParsesOk(HasLocal)

MaxEnt == 8
EntIdx(x) == {ij \in (1..Len(G.ribs)) \X (1..MaxEnt) :
                 ij[2] <= Len(G.ribs[ij[1]].entries) /\ G.ribs[ij[1]].x = x}
Ent(ij) == G.ribs[ij[1]].entries[ij[2]]

(* the peer index table is consistent: distinct peers, every entry's index resolves, and resolves to
   the neighbour the route was learned from (address, BGP identifier, AS); collector = this router *)
SrcAddr(s) == IF s = LOCSRC THEN "zero" ELSE s
SrcAs(s)   == IF s = LOCSRC THEN 0 ELSE PInfo[s].as
PeerIdxOk(withAs) ==
  (HasDump /\ G.piterr = "") =>
     /\ G.collector = "self"
     /\ \A i, j \in 1..Len(G.peers) : i # j => G.peers[i].peer # G.peers[j].peer
     /\ \A i \in 1..Len(G.ribs) : \A j \in 1..Len(G.ribs[i].entries) :
          LET e == G.ribs[i].entries[j] IN
            /\ e.pi + 1 <= Len(G.peers)
            /\ e.pi + 1 <= Len(G.peers) =>
                 LET q == G.peers[e.pi + 1] IN
                   /\ q.peer = SrcAddr(e.r.src)
                   /\ q.rid = SrcAddr(e.r.src)
                   /\ withAs => q.as = SrcAs(e.r.src)
C19_MrtPeerIndex == PeerIdxOk(TRUE)
(* weakened for KF-C19-mrt-peer-as-zero: everything but the AS column *)
C19_MrtPeerIndex_KF == PeerIdxOk(FALSE)

(* the RIB records hold exactly the routes of the table (one entry per source), attributes equal on
   the projection; sequence numbers count the records *)
C19_MrtTableExact ==
  HasDump =>
     /\ \A i \in 1..Len(G.ribs) : G.ribs[i].x \in Prefixes /\ G.ribs[i].seq = i - 1
     /\ \A x \in Prefixes :
          /\ Cardinality(EntIdx(x)) = Cardinality(LocRibExpected(x))
          /\ \A r \in LocRibExpected(x) : \E ij \in EntIdx(x) : SameStored(Ent(ij).r, r)

(* C19, MRT BGP4MP: the update records replay to the Adj-RIB-In of every established neighbour *)
C19_MrtUpdParses == muviol \cap {"parse-upd", "upd-framing"} = {}
C19_MrtUpdHeader == muviol \cap {"upd-header", "upd-unknown-peer", "upd-unknown-prefix"} = {}
C19_MrtUpdReplay == \A p \in Peers : up[p] => \A x \in Prefixes : PreOk(mu[p][x], p, x)

---------------------------------------------------------------------------
(* pass 2 (checks/c19.py): where a STRICT invariant fails on a state that the weakened one accepts, the
   finding that explains it is recorded as <<finding id, strict invariant, line>> in register 3 *)
ASSUME TLCSet(3, {})
Hit(strict, weak, id, name) ==
  IF strict \/ ~weak THEN TRUE ELSE TLCSet(3, TLCGet(3) \cup {<<id, name, l>>})
KfHits ==
  /\ Hit(C19_BmpPeerUpLocalAddress, C19_BmpPeerUpLocalAddress_KF, "KF-C19-bmp-peerup-local-address", "C19_BmpPeerUpLocalAddress")
  /\ Hit(C19_BmpBracket_Deconfigured, TRUE, "KF-C19-bmp-deconfigured-no-peerdown", "C19_BmpBracket_Deconfigured")
  /\ Hit(C19_BmpAdjInExact, C19_BmpAdjInExact_KF, "KF-C19-bmp-deconfigured-no-peerdown", "C19_BmpAdjInExact")
  /\ Hit(C19_BmpBracket_LocalPost, TRUE, "KF-C19-bmp-post-initial-local-routes", "C19_BmpBracket_LocalPost")
  /\ Hit(C19_BmpPostPolicy, C19_BmpPostPolicy_KF,
         IF PostPolicyOk(Peers \ st.ghost, FALSE, FALSE) THEN "KF-C19-bmp-deconfigured-no-peerdown"
         ELSE IF PostPolicyOk(Peers \ st.ghost, FALSE, TRUE) THEN "KF-C19-bmp-ribout-survives-reconnect"
         ELSE "KF-C19-bmp-post-withdraw-after-initial-dump", "C19_BmpPostPolicy")
  /\ Hit(C19_BmpLocRibExact, C19_BmpLocRibExact_KF, "KF-C19-bmp-locrib-stale-pathid", "C19_BmpLocRibExact")
  /\ Hit(C19_MrtParses, C19_MrtParses_KF, "KF-C19-mrt-peerindex-local-route", "C19_MrtParses")
  /\ Hit(C19_MrtPeerIndex, C19_MrtPeerIndex_KF, "KF-C19-mrt-peer-as-zero", "C19_MrtPeerIndex")
KfReport == PrintT("VPOUT " \o ToJson([kf |-> TLCGet(3)])) /\ Accepted
KfConstraint == Hwm(l) /\ KfHits

SomeRoute == \E p \in Peers : \E x \in Prefixes : inr[p][x] # NoRoute
TraceConstraint ==
  /\ Hwm(l)
  /\ NoteIf(hasObs /\ Live /\ SomeRoute, <<"bmp", st.pol, up, inr, loc>>)
  /\ NoteIf(hasObs /\ must /\ l > 1 /\ Trace[l - 1].ev # "BmpOn" /\ SomeRoute /\ st.n > 0 /\ Len(Trace[l - 1].bmp) > 0
              /\ Trace[l - 1].bmp[1].t = "init", <<"reconnect", st.pol, up, inr, loc>>)
  /\ NoteIf(HasDump /\ (SomeRoute \/ \E x \in Prefixes : loc[x] # NoRoute), <<"mrt", up, inr, loc>>)
  /\ NoteIf(hasObs /\ SomeRoute, <<"upd", up, inr>>)
  /\ NoteIf(HasDump /\ G.piterr = "" /\ \E x \in Prefixes : Cardinality(LocRibExpected(x)) >= 2, <<"mrt2", up, inr, loc>>)
TraceAccepted == Accepted
=============================================================================
