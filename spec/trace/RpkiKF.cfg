SPECIFICATION TraceSpec
CONSTANTS
  Caches <- CacheNames
  PfxInfo <- PfxTable
  Fix <- AllFix
CONSTRAINT TraceConstraint
POSTCONDITION TraceAccepted
CHECK_DEADLOCK FALSE
INVARIANTS
  C16_TableNothingMissing
  C16_Table_KF
  C16_Validate
  C16_ValidateLocalAS_KF
  C16_PolicyAgrees
