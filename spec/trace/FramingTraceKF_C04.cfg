SPECIFICATION TraceSpec
CONSTRAINT TraceConstraint
POSTCONDITION TraceAccepted
CHECK_DEADLOCK FALSE
INVARIANTS
  C04_NoPanic
  C04_FramingWellFormed_KF
  C04_SizeCap
  C04_LenAgrees_KF
  C04_LenAgreesDec
  C04_ShapeRoundTrip_KF
  C04_NextHopLen
  C04_ExtFlag
  C04_RawAccepted
  C04_Fixpoint_KF
  C04_Equal_KF
