SPECIFICATION TraceSpec
CONSTANTS
  RemoveIgnoresSubtype = FALSE
CONSTRAINT TraceConstraint
POSTCONDITION TraceAccepted
CHECK_DEADLOCK FALSE
INVARIANTS
  Conf_Mode
  Conf_Fast
  Conf_Mech
