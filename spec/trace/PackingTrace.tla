---------------------------- MODULE PackingTrace ----------------------------
(* Validates executions of the real packer (harness/c11/c11_test.go) against Packing.
   One trace = one call of table.CreateUpdateMsgFromPaths:
     Reset  session configuration (ADD-PATH per family, extended message => limit)
     Pack   the input: the list of route changes (sizes and digests measured on the real paths)
     Msg    one emitted message after send(): serialised length of the REAL bytes, and what an
            independent receiver (bgp.ParseBGPMessage) found in those bytes
     Done   end of the pass (or the panic that ended it)
   The C11_* invariants compare the receiver's view with the PROPERTY layer of Packing
   (Expected = last action per wire key wins), never with the packer's own arithmetic. *)
EXTENDS Packing, PackingDom, TraceUtil

VARIABLES l,          \* next trace line
          sess,       \* [ap, limit]
          changes,    \* the input list
          exp,        \* Expected(sess, changes)
          own,        \* Own(sess, changes)
          ei,         \* EorIn(changes)
          view,       \* receiver model: state of every key after the messages so far
          strays,     \* keys touched by the output that no change mentions / unparsable output
          reported,   \* keys inside messages that were dropped and reported
          eo,         \* first End-of-RIB per family in the output (message index, 0 = none)
          grown,      \* keys inside messages pushed over the limit by the 2-octet-AS rewriting
          nmsg, lastmsg, tight, done, panic
tvars == <<l, sess, changes, exp, own, ei, view, strays, reported, eo, grown, nmsg, lastmsg, tight, done, panic>>

NoMsg  == [sent |-> TRUE, len |-> 0, packed |-> 0, wd |-> <<>>, ann |-> <<>>, dig |-> "", eor |-> "", err |-> "", perr |-> ""]
NoSess == [ap |-> [f \in Families |-> FALSE], limit |-> 4096, as2 |-> FALSE]
NoEo   == [f \in Families |-> 0]

Clear == /\ changes' = <<>> /\ exp' = <<>> /\ own' = <<>> /\ ei' = NoEo /\ view' = <<>> /\ strays' = {}
         /\ reported' = {} /\ eo' = NoEo /\ grown' = {} /\ nmsg' = 0 /\ lastmsg' = NoMsg /\ tight' = FALSE
         /\ done' = FALSE /\ panic' = ""

TraceInit == /\ l = 1 /\ sess = NoSess /\ changes = <<>> /\ exp = <<>> /\ own = <<>> /\ ei = NoEo /\ view = <<>>
             /\ strays = {} /\ reported = {} /\ eo = NoEo /\ grown = {} /\ nmsg = 0 /\ lastmsg = NoMsg
             /\ tight = FALSE /\ done = FALSE /\ panic = ""

IsEvent(e) == l <= TLen /\ Trace[l].ev = e /\ l' = l + 1

TReset == /\ IsEvent("Reset")
          /\ sess' = [ap |-> Trace[l].cfg.ap, limit |-> Trace[l].limit, as2 |-> Trace[l].cfg.as2]
          /\ Assert(Trace[l].limit = (IF Trace[l].cfg.ext THEN 65535 ELSE 4096),
                    "session limit is not the one of RFC 4271 / RFC 8654")
          /\ Clear

TPack == /\ IsEvent("Pack")
         /\ ~done /\ changes = <<>> /\ nmsg = 0
         /\ LET ch == Trace[l].changes IN
              \* soundness cross-check: the sizes measured on the real bytes are the ones the
              \* RFC framing formulas of PackingDom give (else: conformance gap, not a verdict)
              /\ \A i \in 1..Len(ch) : MeasuredAgree(sess.ap, sess.as2, ch[i])
              /\ changes' = ch
              /\ LET kf == KeyFacts(sess, ch) IN exp' = ExpectedF(ch, kf) /\ own' = OwnF(kf)
              /\ ei' = EorIn(ch)
              /\ view' = InitView(KeySet(sess, ch))
         /\ UNCHANGED <<sess, strays, reported, eo, grown, nmsg, lastmsg, tight, done, panic>>

(* the message fitted as packed and was pushed over the limit by what send() does for a peer
   without the 4-octet AS capability (AS4_PATH added after packing) - known finding, see below *)
As2Pushed(m) == sess.as2 /\ ~m.sent /\ m.packed <= sess.limit /\ m.len > sess.limit

TMsg == /\ IsEvent("Msg")
        /\ ~done
        /\ LET m == Trace[l] IN
             /\ m.i = nmsg + 1
             /\ nmsg' = nmsg + 1
             /\ lastmsg' = m
             /\ view' = ApplyMsg(view, m, nmsg + 1)
             /\ strays' = strays
                    \cup (IF m.sent THEN MsgKeys(m) \ DOMAIN view ELSE {})
                    \cup (IF m.perr # "" THEN {<<"unparsable", nmsg + 1, 0, 0>>} ELSE {})
                    \cup (IF m.eor \notin Families \cup {""} THEN {<<m.eor, 0, 0, 0>>} ELSE {})
             /\ reported' = reported \cup (IF m.sent THEN {} ELSE MsgKeys(m))
             /\ grown' = grown \cup (IF As2Pushed(m) THEN MsgKeys(m) ELSE {})
             /\ eo' = IF m.sent /\ m.eor \in Families /\ eo[m.eor] = 0
                      THEN [eo EXCEPT ![m.eor] = nmsg + 1] ELSE eo
             /\ tight' = (tight \/ ~m.sent \/ m.len > sess.limit - 18)
        /\ UNCHANGED <<sess, changes, exp, own, ei, done, panic>>

Sig == <<sess, [i \in 1..(IF Len(changes) < 40 THEN Len(changes) ELSE 40) |->
                  <<changes[i].fam, changes[i].pfx, changes[i].lid, changes[i].kind,
                    changes[i].attrs, changes[i].ab, changes[i].nh>>], Len(changes)>>

(* the antecedent of the property really exercised: a repeated wire key (last action wins had
   something to decide), a message within two worst-case NLRI of the limit or dropped, or a
   route that cannot fit / fits by less than one NLRI *)
NonTrivial == \/ Cardinality(DOMAIN exp) < Cardinality({i \in 1..Len(changes) : IsRoute(changes[i])})
              \/ tight
              \/ \E k \in DOMAIN exp : ~Roomy(sess, exp[k])

TDone == /\ IsEvent("Done")
         /\ ~done
         /\ Trace[l].nmsg = nmsg
         /\ done' = TRUE
         /\ panic' = Trace[l].panic
         /\ NoteIf(NonTrivial, Sig)
         /\ UNCHANGED <<sess, changes, exp, own, ei, view, strays, reported, eo, grown, nmsg, lastmsg, tight>>

TraceNext == TReset \/ TPack \/ TMsg \/ TDone
TraceSpec == TraceInit /\ [][TraceNext]_tvars

TraceConstraint == Hwm(l)
TraceAccepted == Accepted

---------------------------------------------------------------------------
(* a pass that panicked produced nothing: it is judged by C11_SenderUndisturbed alone *)
Completed == done /\ panic = ""

(* "... without disturbing the other routes, the sender or the session" *)
C11_SenderUndisturbed == panic = ""

(* each message fits the session's maximum size (length of the real serialised bytes) *)
C11_Fits == FitsMsg(sess, own, lastmsg)

(* routes share a message only when their attribute sets and next hops are identical *)
C11_Homogeneous == HomogeneousMsg(own, lastmsg)

(* a route too large for any message is skipped AND reported (it is inside a message that
   Serialize refused), and is not in the receiver's view *)
C11_OversizeSkipped ==
  Completed => \A k \in DOMAIN exp :
     Oversize(sess, exp[k]) => /\ k \in reported
                               /\ ~(view[k].st = "route" /\ view[k].dig = exp[k].dig)

(* the messages, applied in order by a receiver, have exactly the effect of applying the changes
   one at a time; every announced prefix carries precisely its own route's attributes and next
   hop(s).  Stated for the routes that fit with room to spare ... *)
C11_Effect ==
  Completed => /\ strays = {}
               /\ \A k \in DOMAIN exp : Roomy(sess, exp[k]) => Same(view[k], exp[k])

(* ... and for the routes that fit by less than one worst-case NLRI (the boundary clause) *)
C11_EffectNearLimit ==
  Completed => \A k \in DOMAIN exp : NearLimit(sess, exp[k]) => Same(view[k], exp[k])

C11_EorKept == Completed => EorKeptP(ei, exp, view, eo)

---------------------------------------------------------------------------
(* KNOWN FINDING KF-C11-as2-growth (= findings_proposed/C08-as2-overflow.md, found by C08): the
   packer fills messages to the limit computed on the 4-octet form of the attributes; send() then
   rewrites them for a 2-octet-AS peer, AS4_PATH is added, Serialize refuses the message and all
   its routes are lost although each fits.  Tolerated: exactly the messages that fitted as packed
   (As2Pushed) and the keys inside them. *)
C11_Fits_KF == FitsMsg(sess, own, lastmsg) \/ As2Pushed(lastmsg)
C11_Effect_KF ==
  Completed => /\ strays = {}
               /\ \A k \in DOMAIN exp : Roomy(sess, exp[k]) => (Same(view[k], exp[k]) \/ k \in grown)

C11_EffectNearLimit_KF ==
  Completed => \A k \in DOMAIN exp : NearLimit(sess, exp[k]) => (Same(view[k], exp[k]) \/ k \in grown)

(* what TLC prints of a state in a counterexample (the full state holds the whole input list) *)
Compact == [l |-> l, nmsg |-> nmsg, done |-> done, panic |-> panic, sess |-> sess, strays |-> strays,
            msg |-> [sent |-> lastmsg.sent, len |-> lastmsg.len, eor |-> lastmsg.eor, err |-> lastmsg.err]]
=============================================================================
