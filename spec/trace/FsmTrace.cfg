SPECIFICATION TraceSpec
CONSTANTS
  LargeHold = 240
  PeerHolds = {0, 3, 9}
  Ticks = {1}
CONSTRAINT TraceConstraint
POSTCONDITION TraceAccepted
CHECK_DEADLOCK FALSE
INVARIANTS
  C07_Collision
  C07_Notif_OpenConfirmUnexpected
  C07_Notif_EstablishedOpen
  C07_Notif_UnsupportedOptParam
  C07_Notif_KeepaliveLength
  C07_Notif_OpenWhileIdle
  C07_Notif_ManualStopEarly
  C07_Notif_NoSpurious
  C07_Timer_OpenConfirm
  C07_Notification
  C07_TimerInstant
  C07_Transitions
  C07_EstablishedOnlyAfterOpenKeepalive
  C07_NoRibEffectBeforeEstablished
  C07_ReportedMatchesReal
