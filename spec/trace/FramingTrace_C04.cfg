SPECIFICATION TraceSpec
CONSTRAINT TraceConstraint
POSTCONDITION TraceAccepted
CHECK_DEADLOCK FALSE
INVARIANTS
  C04_NoPanic
  C04_FramingWellFormed
  C04_SizeCap
  C04_LenAgrees
  C04_LenAgreesDec
  C04_ShapeRoundTrip
  C04_NextHopLen
  C04_ExtFlag
  C04_RawAccepted
  C04_Fixpoint
  C04_Equal
