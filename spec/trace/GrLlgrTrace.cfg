SPECIFICATION TraceSpec
CONSTANTS
  Prefixes = {"x1", "x2", "y1", "y2"}
  KF = {}
  Triage = FALSE
CONSTRAINT TraceConstraint
POSTCONDITION TraceAccepted
CHECK_DEADLOCK FALSE
INVARIANTS
  Gap_Sessions
  Gap_Clock
  C12_PrefixLimitRemovesAll
  C12_CurrentSessionCapsDecide
  C12_NoGrRemovesAll
  C12_NonQualifyingRemovesAll
  C12_FamilySplit
  C12_PurgeOnReestablish
  C12_PurgeNotEarly
  C12_SecondLoss
  C12_LlgrDepreferencedAndRestricted
  C12_StaleUsableMarked
  C12_ReannouncedAreFresh
  C12_PurgeExactlyWhen
  C12_NoForeignRoutes
  C12_DeferralWithholds
