SPECIFICATION TraceSpec
CONSTANTS
  RemoveIgnoresSubtype = FALSE
CONSTRAINT TraceConstraint
POSTCONDITION TraceAccepted
CHECK_DEADLOCK FALSE
INVARIANTS
  C13_EditedList
  C13_MatchesDenotation
  C13_RegexpAgrees
