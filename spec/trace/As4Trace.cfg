SPECIFICATION TraceSpec
CONSTANTS
  MaxSeg = 255
CONSTRAINT TraceConstraint
POSTCONDITION TraceAccepted
CHECK_DEADLOCK FALSE
INVARIANTS
  C14_DownWellFormed
  C14_DownAggregator
  C14_RoundTrip
  C14_RoundTripConfed
  C14_RoundTripAggregator
  C14_NoEmptyOrOverlong
  C14_NoLengthening
  C14_NoLengtheningConfed
  C14_IgnoreLongerAs4
  C14_IgnoreLongerAs4Confed
  C14_GroupInputIntact
  C14_SharedListUnchanged
