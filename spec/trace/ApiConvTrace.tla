---------------------------- MODULE ApiConvTrace ----------------------------
(* Validates executions of the real converters (harness/c18/*_test.go, compiled into pkg/server)
   against the property layer of ApiConv.
     Conv line : one path attribute / NLRI / capability through chain A (native built by the
                 library's constructors -> API -> native -> API) and chain B (API value built by the
                 protobuf library -> native -> API), renderings and octets recorded.
     Path line : one API path through AddPath / ListPath / DeletePath of a real BgpServer (bubble).
     Cfg line  : one defined set / statement (policy store of a real server) or neighbour
                 configuration (newNeighborFromAPIStruct -> defaults -> NewPeerFromConfigStruct).
   The C18_* invariants are the laws of ApiConv applied to the line consumed last.  Gap_* are
   harness sanity checks (machinery, never a verdict). *)
EXTENDS ApiConv, TraceUtil

VARIABLES l
tvars == <<l>>

TraceInit == l = 1
IsEvent(e) == l <= TLen /\ Trace[l].ev = e /\ l' = l + 1

Ev     == Trace[l - 1]                      \* the line consumed last
IsConv == l > 1 /\ Ev.ev = "Conv"
IsPath == l > 1 /\ Ev.ev = "Path"
IsCfg  == l > 1 /\ Ev.ev = "Cfg"
NonCanon == IsCfg /\ HintOf(Ev, "noncanon") # ""

TReset == IsEvent("Reset")
TConv  == /\ IsEvent("Conv")
          /\ LET e == Trace[l] IN
             NoteIf(Back(e), <<e.k, e.name, e.val, e.hint>>)
TPath  == /\ IsEvent("Path")
          /\ LET e == Trace[l] IN NoteIf(PathAccepted(e), <<"path", e.val, e.hint>>)
TCfg   == /\ IsEvent("Cfg")
          /\ LET e == Trace[l] IN NoteIf(CfgAccepted(e), <<e.k, e.val>>)

TraceNext == TReset \/ TConv \/ TPath \/ TCfg
TraceSpec == TraceInit /\ [][TraceNext]_tvars
TraceConstraint == Hwm(l)
TraceAccepted == Accepted

---------------------------------------------------------------------------
(* machinery: the harness could build what the schedule asked for *)
Gap_Built == IsConv => Ev.builderr = ""
Gap_Proto == /\ IsConv => Ev.b.perr = ""
             /\ (IsPath \/ IsCfg) => Ev.perr = ""
Gap_Pre   == IsCfg => Ev.preerr = ""

---------------------------------------------------------------------------
(* C18: the laws *)
C18_NoPanic           == (IsConv \/ IsPath \/ IsCfg) => Ev.panic = ""
C18_Convertible       == IsConv => L_Convertible(Ev)
C18_ApiFaithful       == IsConv => L_ApiFaithful(Ev)
C18_ImageAccepted     == IsConv => L_ImageAccepted(Ev)
C18_NativeRoundTrip   == IsConv => L_NativeRoundTrip(Ev)
C18_WireEqual         == IsConv => L_WireEqual(Ev)
C18_ApiRoundTrip      == IsConv => L_ApiRoundTrip(Ev)
C18_ApiValueRoundTrip == IsConv => L_ApiValueRoundTrip(Ev)
C18_ApiValueDenotes   == IsConv => L_ApiValueDenotes(Ev)
C18_ListedAsAdded     == IsPath => L_ListedAsAdded(Ev)
C18_DeletedGone       == IsPath => L_DeletedGone(Ev)
C18_CfgRoundTrip      == (IsCfg /\ ~NonCanon) => L_CfgRoundTrip(Ev)
C18_CfgFixpoint       == IsCfg => L_CfgFixpoint(Ev)
(* a value of the vocabulary written in the canonical form is accepted (otherwise the round-trip
   laws would hold vacuously) *)
C18_CanonicalAccepted == (IsCfg /\ ~NonCanon /\ Ev.perr = "" /\ Ev.preerr = "" /\ Ev.panic = "") => Ev.rej = ""

---------------------------------------------------------------------------
(* KNOWN FINDINGS (known_findings.jsonl).  Each predicate identifies exactly one recorded defect of
   the pinned tree by the SHAPE OF THE INPUT; the *_KF invariants tolerate that and nothing else.
   KfNote records <<finding id, strict invariant, line>> in TLC register 3 whenever the strict
   invariant fails on a line that the predicate covers; the driver turns the records into
   KNOWN-FINDING lines (or into violations when the id is not listed in known_findings.jsonl). *)
ASSUME TLCSet(3, {})
KfNote(id, inv, cond) == IF cond THEN TLCSet(3, TLCGet(3) \cup {<<id, inv, l - 1>>}) ELSE TRUE
KfReport == PrintT("VPOUT " \o ToJson([kf |-> TLCGet(3)]))

IsAttrK(k) == IsConv /\ Ev.k = "attr" /\ Has(Ev.val, k)
IsNlriK(k) == IsConv /\ Ev.k = "nlri" /\ Has(Ev.val.nlri, k)
IsExN(S)   == IsConv /\ Ev.k = "ex" /\ Ev.name \in S
MpOf       == IF Has(Ev.val, "mp_reach") THEN Ev.val.mp_reach ELSE Ev.val.mp_unreach

(* KF-C18-srpolicy-nlri-length: MarshalNLRI copies SRPolicyNLRI.Length (octets) into the API field
   that UnmarshalNLRI / NewSRPolicy read as BITS: 96 -> 12 -> 1, and Serialize of the result slices
   out of range. *)
KF_SrPolicyLen ==
  \/ IsNlriK("sr_policy")
  \/ (IsAttrK("mp_reach") \/ IsAttrK("mp_unreach")) /\ MpOf.family.safi = "SAFI_SR_POLICY"
  \/ IsExN({"nlri:srpolicy-parsed"})
(* KF-C18-seglist-noweight-panic: NewTunnelEncapAttributeFromNative dereferences the optional Weight
   sub-TLV of an SR policy segment list. *)
KF_SegListNoWeight == IsExN({"attr:srpolicy-noweight"})
(* KF-C18-srbsid-shift: NewBSID turns a label VALUE into the label FIELD (<< 12); MarshalSRBSID emits the
   field and UnmarshalSRBSID runs it through NewBSID again. *)
KF_SrBsidShift == IsExN({"attr:srpolicy-full", "attr:srpolicy-parsed"})
(* KF-C18-srv6bsid-unconverted: the SRv6 Binding SID sub-TLV has no case in NewTunnelEncapAttributeFromNative;
   an empty sub-TLV message is emitted, which UnmarshalAttribute refuses. *)
KF_Srv6Bsid == IsExN({"attr:srpolicy-srv6bsid"})
(* KF-C18-mpreach-nexthop: UnmarshalAttribute reads the link-local next hop only for AFI_IP6, and
   NewMpReachNLRIAttributeFromNative un-maps an IPv4-mapped next hop of every family. *)
KF_MpNextHop ==
  /\ IsAttrK("mp_reach") /\ Ev.val.mp_reach.family.afi # "AFI_IP6"
  /\ (Len(Ev.val.mp_reach.next_hops) = 2 \/ HintOf(Ev, "nhform") = "mapped")
(* KF-C18-evpn-ipmsi-unconverted: EVPN route type 9 has an API message but no case in MarshalNLRI /
   UnmarshalNLRI: an empty NLRI message is emitted without error. *)
KF_EvpnIpmsi == IsNlriK("evpn_i_pmsi") \/ IsExN({"nlri:evpn-ipmsi-parsed"})
(* KF-C18-prefixsid: UnmarshalPrefixSID knows the L3 service TLV only (the L2 one is emitted by
   MarshalSRv6TLVs), and UnmarshalSubTLVs counts the service TLV's reserved octet once per sub-TLV. *)
PsTlvs == Ev.val.prefix_sid.tlvs
PsInfoCount(t) == LET s == IF Has(t, "l3_service") THEN t.l3_service.sub_tlvs ELSE t.l2_service.sub_tlvs
                  IN IF Has(s, "1") THEN Len(s["1"].tlvs) ELSE 0
KF_PrefixSidL2 == \/ IsAttrK("prefix_sid") /\ \E i \in DOMAIN PsTlvs : Has(PsTlvs[i], "l2_service")
                  \/ IsExN({"attr:prefixsid-l2-parsed"})
KF_PrefixSidLen == IsAttrK("prefix_sid") /\ \E i \in DOMAIN PsTlvs : PsInfoCount(PsTlvs[i]) # 1
(* KF-C18-mpunreach-eor: an MP_UNREACH_NLRI without NLRI (End-of-RIB) converts to an API value that
   UnmarshalNLRIs refuses ("no nlri values"). *)
KF_MpUnreachEor == IsExN({"attr:mpunreach-eor"})
(* KF-C18-ls-presence: the API form of BGP-LS node descriptors / attributes has no presence for
   OSPF area-id, BGP-LS id, reserved flag bits, and shares the router-id TLVs between node and link. *)
KF_Ls == IsExN({"attr:ls-node", "attr:ls-link", "attr:ls-prefix", "nlri:ls-node", "nlri:ls-link", "nlri:ls-prefix4",
                "nlri:ls-prefix6", "nlri:ls-srv6sid"})

C18_NoPanic_KF           == C18_NoPanic \/ KF_SrPolicyLen \/ KF_SegListNoWeight
C18_ApiFaithful_KF       == C18_ApiFaithful \/ KF_SrPolicyLen \/ KF_EvpnIpmsi
C18_ImageAccepted_KF     == C18_ImageAccepted \/ KF_Srv6Bsid \/ KF_EvpnIpmsi \/ KF_PrefixSidL2 \/ KF_MpUnreachEor
C18_NativeRoundTrip_KF   == C18_NativeRoundTrip \/ KF_SrBsidShift \/ KF_MpNextHop \/ KF_Ls
C18_WireEqual_KF         == C18_WireEqual \/ KF_SrBsidShift \/ KF_MpNextHop \/ KF_PrefixSidLen \/ KF_Ls
C18_ApiRoundTrip_KF      == C18_ApiRoundTrip \/ KF_SrBsidShift \/ KF_MpNextHop \/ KF_Ls
C18_ApiValueRoundTrip_KF == C18_ApiValueRoundTrip \/ KF_SrPolicyLen \/ KF_MpNextHop
C18_ApiValueDenotes_KF   == C18_ApiValueDenotes \/ KF_SrPolicyLen \/ KF_MpNextHop \/ KF_PrefixSidLen

(* L4.  KF-C18-mpreach-nexthop (same finding, server side): apiutil2Path rebuilds MP_REACH_NLRI from the
   first next hop only. *)
KF_PathLinkLocal ==
  IsPath /\ \E i \in DOMAIN Ev.val.pattrs : Has(Ev.val.pattrs[i], "mp_reach") /\ Len(Ev.val.pattrs[i].mp_reach.next_hops) = 2
C18_ListedAsAdded_KF == C18_ListedAsAdded \/ KF_PathLinkLocal

(* L5 *)
IsStmt == IsCfg /\ Ev.k = "stmt"
StA == Ev.val.statement.actions
StC == Ev.val.statement.conditions
(* KF-C18-stmt-zero-values: toStatementApi treats the value 0 as "not set" (local-pref action, local-pref-eq
   and med-eq conditions), prints a MED modification by 0 as a replacement, and drops a community
   replacement by the empty list. *)
KF_StmtZero ==
  IsStmt /\ \/ Has(StA, "local_pref") /\ StA.local_pref.value = "0"
            \/ Has(StA, "med") /\ StA.med.type = "TYPE_MOD" /\ StA.med.value = "0"
            \/ Has(StA, "community") /\ StA.community.communities = <<>>
            \/ Has(StC, "local_pref_eq") /\ StC.local_pref_eq.value = "0"
            \/ Has(StC, "med_eq") /\ StC.med_eq.value = "0"
(* KF-C18-nexthop-in-list-prefix: the next-hop condition accepts prefixes but lists their addresses only. *)
NhPrefixes == {"10.0.0.0/24"}
KF_NextHopPrefix == IsStmt /\ Has(StC, "next_hop_in_list") /\ \E i \in DOMAIN StC.next_hop_in_list : StC.next_hop_in_list[i] \in NhPrefixes
(* KF-C18-extcomm-as-overflow: ParseExtendedCommunity parses "<as>:<n>" with a 16-bit ParseUint whose range
   error is ignored: AS 65536 becomes 65535. *)
OverflowComms == {"rt:65536:1"}
KF_ExtCommOverflow ==
  IsStmt /\ Has(StA, "ext_community") /\ StA.ext_community.type \in {"TYPE_ADD", "TYPE_REPLACE"}
         /\ \E i \in DOMAIN StA.ext_community.communities : StA.ext_community.communities[i] \in OverflowComms
(* KF-C18-peer-mai: newNeighborFromAPIStruct reads timers.config.minimum_advertisement_interval,
   NewPeerFromConfigStruct never writes it. *)
KF_PeerMai == IsCfg /\ Ev.k = "peer" /\ Has(Ev.val, "timers") /\ Ev.val.timers.config.minimum_advertisement_interval # "0"

C18_CfgRoundTrip_KF == C18_CfgRoundTrip \/ KF_StmtZero \/ KF_NextHopPrefix \/ KF_ExtCommOverflow \/ KF_PeerMai

C18_KfCount ==
  /\ KfNote("KF-C18-srpolicy-nlri-length", "C18_NoPanic", ~C18_NoPanic /\ KF_SrPolicyLen)
  /\ KfNote("KF-C18-srpolicy-nlri-length", "C18_ApiFaithful", ~C18_ApiFaithful /\ KF_SrPolicyLen)
  /\ KfNote("KF-C18-srpolicy-nlri-length", "C18_ApiValueRoundTrip", ~C18_ApiValueRoundTrip /\ KF_SrPolicyLen)
  /\ KfNote("KF-C18-srpolicy-nlri-length", "C18_ApiValueDenotes", ~C18_ApiValueDenotes /\ KF_SrPolicyLen)
  /\ KfNote("KF-C18-seglist-noweight-panic", "C18_NoPanic", ~C18_NoPanic /\ KF_SegListNoWeight)
  /\ KfNote("KF-C18-srbsid-shift", "C18_NativeRoundTrip", ~C18_NativeRoundTrip /\ KF_SrBsidShift)
  /\ KfNote("KF-C18-srbsid-shift", "C18_WireEqual", ~C18_WireEqual /\ KF_SrBsidShift)
  /\ KfNote("KF-C18-srbsid-shift", "C18_ApiRoundTrip", ~C18_ApiRoundTrip /\ KF_SrBsidShift)
  /\ KfNote("KF-C18-srv6bsid-unconverted", "C18_ImageAccepted", ~C18_ImageAccepted /\ KF_Srv6Bsid)
  /\ KfNote("KF-C18-mpreach-nexthop", "C18_NativeRoundTrip", ~C18_NativeRoundTrip /\ KF_MpNextHop)
  /\ KfNote("KF-C18-mpreach-nexthop", "C18_WireEqual", ~C18_WireEqual /\ KF_MpNextHop)
  /\ KfNote("KF-C18-mpreach-nexthop", "C18_ApiRoundTrip", ~C18_ApiRoundTrip /\ KF_MpNextHop)
  /\ KfNote("KF-C18-mpreach-nexthop", "C18_ApiValueRoundTrip", ~C18_ApiValueRoundTrip /\ KF_MpNextHop)
  /\ KfNote("KF-C18-mpreach-nexthop", "C18_ApiValueDenotes", ~C18_ApiValueDenotes /\ KF_MpNextHop)
  /\ KfNote("KF-C18-mpreach-nexthop", "C18_ListedAsAdded", ~C18_ListedAsAdded /\ KF_PathLinkLocal)
  /\ KfNote("KF-C18-evpn-ipmsi-unconverted", "C18_ApiFaithful", ~C18_ApiFaithful /\ KF_EvpnIpmsi)
  /\ KfNote("KF-C18-evpn-ipmsi-unconverted", "C18_ImageAccepted", ~C18_ImageAccepted /\ KF_EvpnIpmsi)
  /\ KfNote("KF-C18-prefixsid-l2-rejected", "C18_ImageAccepted", ~C18_ImageAccepted /\ KF_PrefixSidL2)
  /\ KfNote("KF-C18-prefixsid-length", "C18_WireEqual", ~C18_WireEqual /\ KF_PrefixSidLen)
  /\ KfNote("KF-C18-prefixsid-length", "C18_ApiValueDenotes", ~C18_ApiValueDenotes /\ KF_PrefixSidLen)
  /\ KfNote("KF-C18-mpunreach-eor", "C18_ImageAccepted", ~C18_ImageAccepted /\ KF_MpUnreachEor)
  /\ KfNote("KF-C18-ls-presence", "C18_NativeRoundTrip", ~C18_NativeRoundTrip /\ KF_Ls)
  /\ KfNote("KF-C18-ls-presence", "C18_WireEqual", ~C18_WireEqual /\ KF_Ls)
  /\ KfNote("KF-C18-ls-presence", "C18_ApiRoundTrip", ~C18_ApiRoundTrip /\ KF_Ls)
  /\ KfNote("KF-C18-stmt-zero-values", "C18_CfgRoundTrip", ~C18_CfgRoundTrip /\ KF_StmtZero)
  /\ KfNote("KF-C18-nexthop-in-list-prefix", "C18_CfgRoundTrip", ~C18_CfgRoundTrip /\ KF_NextHopPrefix)
  /\ KfNote("KF-C18-extcomm-as-overflow", "C18_CfgRoundTrip", ~C18_CfgRoundTrip /\ KF_ExtCommOverflow)
  /\ KfNote("KF-C18-peer-mai", "C18_CfgRoundTrip", ~C18_CfgRoundTrip /\ KF_PeerMai)
=============================================================================
