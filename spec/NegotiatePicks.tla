---------------------------- MODULE NegotiatePicks ----------------------------
(* The cases NegotiateGen expands.  This file is a SAMPLE: checks/c08.py overwrites it (in the
   scratch copy of the spec tree only) with the picks of the covering suites it computes. *)
Picks == { <<1,1,5,2,1,3,1,1,1,6,5,2,1,1,2,1,1,1,1>>,
           <<2,2,1,1,1,1,1,4,2,4,1,1,1,1,1,1,1,1,1>>,
           <<1,1,1,1,2,6,1,2,2,3,1,1,1,1,1,1,1,1,2>> }
=============================================================================
