---------------------------- MODULE ApiConvCfgDom ----------------------------
(* C18 vocabulary, second part: API paths (L4: AddPath / ListPath / DeletePath on a running
   server), policy objects (defined sets, statements) and neighbour configuration.  Same
   conventions as ApiConvDom: records in the shape of the protobuf JSON mapping, numbers as
   decimal strings, enums by name. *)
EXTENDS ApiConvDom

(* ------------------------------- paths (L4) -------------------------------------------------- *)
PathV(f, n, attrs, id) == [family |-> f, nlri |-> n, pattrs |-> attrs, identifier |-> id]
PBase == <<A_Origin("0"), A_AsPath(<<Seg("TYPE_AS_SEQUENCE", <<"65001", "65002">>)>>)>>

(* the attribute that carries the next hop of a route of family f, as an API client writes it *)
NhAttr(f, n) ==
  CASE f = F_V4UC -> A_NextHop("10.0.0.1")
    [] f.safi \in {"SAFI_FLOW_SPEC_UNICAST", "SAFI_FLOW_SPEC_VPN"} -> A_MpReach(f, <<>>, <<n>>)
    [] f.afi = "AFI_IP6" -> A_MpReach(f, <<"2001:db8::1">>, <<n>>)
    [] OTHER -> A_MpReach(f, <<"10.0.0.1">>, <<n>>)

PathFamilies == {F_V4UC, F_V6UC, F_V4LB, F_V4VPN, F_V6VPN, F_EVPN, F_RTC, F_V4FS, F_V6FS, F_V4FSVPN, F_OPAQUE, F_V4MUP, F_VPLS}
MoreFamilies == {F_V4MC, F_V6MC, F_V6LB, F_V4ENC, F_V6ENC, F_V6FSVPN, F_V6MUP}
OptAttrs ==
  {A_Med("0"), A_Med("4294967295"), A_LocalPref("200"), A_Atomic, A_Aggregator("65001", "10.0.0.9"),
   A_Communities(<<"4259840100", "4294967041">>), A_Originator("10.0.0.7"), A_ClusterList(<<"10.0.0.7", "10.0.0.8">>),
   A_ExtComm(<<RTBase, EC_Color("100")>>), A_Large(<<LC("65000", "1", "2")>>), A_Aigp(<<AG_Metric("100")>>),
   A_Unknown("192", "99", B3), A_Pmsi("0", "6", "100", B4), A_TunnelEncap(<<TE_Tlv("8", <<TS_Color("100"), TS_UdpPort("4789")>>)>>),
   A_Ip6ExtComm(<<EC6(TRUE, "2", "2001:db8::1", "1")>>), A_As4Path(<<Seg("TYPE_AS_SEQUENCE", <<"65536">>)>>),
   A_As4Aggregator("65536", "10.0.0.9")}
PathVals(th) ==
  {PathV(f, NlriOf(f), PBase \o <<NhAttr(f, NlriOf(f))>>, "0") : f \in PathFamilies \cup (IF th THEN MoreFamilies ELSE {})}
  \cup {PathV(F_V4UC, N_Prefix("10.1.2.0", "24"), PBase \o <<A_NextHop("10.0.0.1"), a>>, "0") : a \in OptAttrs}
  \cup {PathV(F_V6UC, N_Prefix("2001:db8:1::", "64"), PBase \o <<NhAttr(F_V6UC, N_Prefix("2001:db8:1::", "64")), a>>, "0") :
          a \in (IF th THEN OptAttrs ELSE {A_Med("0"), A_ExtComm(<<RTBase, EC_Color("100")>>)})}
  (* path identifier; attribute order as given by the client; next hop variants *)
  \cup {PathV(F_V4UC, N_Prefix(p[1], p[2]), PBase \o <<A_NextHop("10.0.0.1")>>, id) :
          p \in {<<"10.1.2.0", "24">>, <<"0.0.0.0", "0">>, <<"10.1.2.3", "32">>}, id \in {"0", "1", "4294967295"}}
  \cup {PathV(F_V4UC, N_Prefix("10.1.2.0", "24"), <<A_NextHop("10.0.0.1"), A_Med("5")>> \o PBase, "0"),
        PathV(F_V4UC, N_Prefix("10.1.2.0", "24"), PBase \o <<A_MpReach(F_V4UC, <<"10.0.0.1">>, <<N_Prefix("10.1.2.0", "24")>>)>>, "0"),
        PathV(F_V4UC, N_Prefix("10.1.2.0", "24"), PBase \o <<A_MpReach(F_V4UC, <<"2001:db8::1">>, <<N_Prefix("10.1.2.0", "24")>>)>>, "0"),
        PathV(F_V6UC, N_Prefix("2001:db8:1::", "64"),
              PBase \o <<A_MpReach(F_V6UC, <<"2001:db8::1", "fe80::1">>, <<N_Prefix("2001:db8:1::", "64")>>)>>, "0"),
        PathV(F_V4UC, N_Prefix("10.1.2.0", "24"), <<A_NextHop("10.0.0.1")>>, "0")}
  (* FlowSpec NLRI whose component items carry their operand in more octets than the value needs *)
  \cup {PathV(F_V4FS, N_Flow(<<FS_Comp("5", <<FS_ItemL(TRUE, FALSE, l, 1, <<"80", 0>>)>>)>>), PBase \o <<A_MpReach(F_V4FS, <<>>,
                <<N_Flow(<<FS_Comp("5", <<FS_ItemL(TRUE, FALSE, l, 1, <<"80", 0>>)>>)>>)>>)>>, "0") : l \in 0..3}
  \cup {PathV(f, n, PBase \o <<A_MpReach(f, <<>>, <<n>>)>>, "0") :
          f \in {F_V4FSVPN}, n \in {N_FlowVpn(RDBase, <<FS_Prefix("1", "10.1.2.0", "24", "0"),
                                                          FS_Comp("4", <<FS_ItemL(FALSE, FALSE, 1, 3, <<"80", 0>>), FS_ItemL(TRUE, TRUE, 2, 5, <<"8080", 1>>)>>),
                                                          FS_Comp("9", <<FS_ItemL(TRUE, FALSE, 1, 1, <<"18", 0>>)>>)>>)}}
  \cup {PathV(F_V6FS, n, PBase \o <<A_MpReach(F_V6FS, <<>>, <<n>>)>>, "0") :
          n \in {N_Flow(<<FS_Comp("13", <<FS_ItemL(TRUE, FALSE, 3, 1, <<"1048575", 2>>)>>)>>)}}
  \cup {PathV(F_V4VPN, n, PBase \o <<A_MpReach(F_V4VPN, <<"10.0.0.1">>, <<n>>)>>, "0") : n \in {N_Vpn(<<"16">>, RDBase, "10.1.255.3", "20")}}

RandPathVal(x) ==
  LET f == RandomElement(PathFamilies \cup MoreFamilies)
      k == RandomElement(0..3)
      opt == [i \in 1..k |-> RandomElement(OptAttrs)]
      (* at most one attribute of each kind: the API rejects duplicates *)
      distinct == \A i, j \in 1..k : i # j => KindOf(opt[i]) # KindOf(opt[j])
  IN PathV(f, NlriOf(f), PBase \o <<NhAttr(f, NlriOf(f))>> \o (IF distinct THEN opt ELSE <<>>),
           RandomElement({"0", "7"}))

(* ------------------------------- defined sets ------------------------------------------------ *)
DSet(t, n, l, ps) == [defined_type |-> t, name |-> n, list |-> l, prefixes |-> ps]
Pfx(p, lo, hi) == [ip_prefix |-> p, rtc_prefix |-> "", mask_length_min |-> lo, mask_length_max |-> hi]
(* canonical forms: what ListDefinedSet gives back.  Community-like sets are lists of regular
   expressions; a plain value is listed back anchored. *)
DsetVals ==
  {DSet("DEFINED_TYPE_PREFIX", "ps1", <<>>, ps) :
     ps \in {<<Pfx("10.0.0.0/8", "8", "32")>>, <<Pfx("10.0.0.0/8", "8", "8")>>, <<Pfx("10.1.2.0/24", "24", "32"), Pfx("10.1.0.0/16", "16", "24")>>,
             <<Pfx("0.0.0.0/0", "0", "32")>>, <<Pfx("2001:db8::/32", "32", "128")>>, <<Pfx("2001:db8::/32", "64", "64"), Pfx("2001:db8:1::/48", "48", "128")>>}}
  \cup {DSet("DEFINED_TYPE_NEIGHBOR", "ns1", l, <<>>) :
          l \in {<<"10.0.0.1/32">>, <<"10.0.0.0/24", "192.0.2.1/32">>, <<"2001:db8::1/128">>, <<"0.0.0.0/0">>}}
  \cup {DSet("DEFINED_TYPE_AS_PATH", "as1", l, <<>>) :
          l \in {<<"^65001">>, <<"65001$">>, <<"^65001$">>, <<"^65001$", "^65002">>, <<"^6500[1-3]$">>, <<"^65001 65002$">>}}
  \cup {DSet("DEFINED_TYPE_COMMUNITY", "cs1", l, <<>>) :
          l \in {<<"^65000:100$">>, <<"^65000:100$", "^65000:200$">>, <<"^65000:.*$">>, <<"^65535:65281$">>, <<"65000:1[0-9]0">>}}
  \cup {DSet("DEFINED_TYPE_EXT_COMMUNITY", "es1", l, <<>>) :
          l \in {<<"rt:^65000:100$">>, <<"soo:^65000:100$">>, <<"rt:^10.0.0.1:100$">>, <<"rt:^65536:100$">>, <<"rt:^65000:.*$">>,
                 <<"rt:^65000:100$", "soo:^65001:200$">>}}
  \cup {DSet("DEFINED_TYPE_LARGE_COMMUNITY", "ls1", l, <<>>) :
          l \in {<<"^65000:1:2$">>, <<"^4294967295:4294967295:4294967295$">>, <<"^65000:.*:.*$">>, <<"^65000:1:2$", "^65000:3:4$">>}}
(* accepted spellings that are listed back in another (the canonical) form: only acceptance and the
   fixpoint law are demanded of them *)
DsetNonCanon ==
  {DSet("DEFINED_TYPE_AS_PATH", "as1", l, <<>>) : l \in {<<"^65001_65002$">>, <<"_65001_">>, <<"^6500[1-3]_.*$">>}}
  \cup {DSet("DEFINED_TYPE_COMMUNITY", "cs1", l, <<>>) : l \in {<<"65000:100">>, <<"no-export">>, <<"4259840100">>}}
  \cup {DSet("DEFINED_TYPE_EXT_COMMUNITY", "es1", l, <<>>) : l \in {<<"rt:65000:100">>, <<"soo:10.0.0.1:100">>}}
  \cup {DSet("DEFINED_TYPE_LARGE_COMMUNITY", "ls1", l, <<>>) : l \in {<<"65000:1:2">>}}

(* ------------------------------- statements --------------------------------------------------- *)
MatchSet(t, n) == [type |-> t, name |-> n]
SetPS == DSet("DEFINED_TYPE_PREFIX", "ps1", <<>>, <<Pfx("10.0.0.0/8", "8", "32")>>)
SetNS == DSet("DEFINED_TYPE_NEIGHBOR", "ns1", <<"10.0.0.1/32">>, <<>>)
SetAS == DSet("DEFINED_TYPE_AS_PATH", "as1", <<"^65001">>, <<>>)
SetCS == DSet("DEFINED_TYPE_COMMUNITY", "cs1", <<"65000:100">>, <<>>)
SetES == DSet("DEFINED_TYPE_EXT_COMMUNITY", "es1", <<"rt:65000:100">>, <<>>)
SetLS == DSet("DEFINED_TYPE_LARGE_COMMUNITY", "ls1", <<"65000:1:2">>, <<>>)
AllSets == <<SetPS, SetNS, SetAS, SetCS, SetES, SetLS>>

Stmt(c, a) == [sets |-> AllSets, statement |-> [name |-> "st1", conditions |-> c, actions |-> a]]
Accept == [route_action |-> "ROUTE_ACTION_ACCEPT"]
NoCond == Empty
(* one condition at a time (with the accept action), one action at a time (without condition) *)
CondVals ==
  {[prefix_set |-> MatchSet(t, "ps1")] : t \in {"TYPE_ANY", "TYPE_INVERT"}}
  \cup {[neighbor_set |-> MatchSet(t, "ns1")] : t \in {"TYPE_ANY", "TYPE_INVERT"}}
  \cup {[as_path_set |-> MatchSet(t, "as1")] : t \in {"TYPE_ANY", "TYPE_ALL", "TYPE_INVERT"}}
  \cup {[community_set |-> MatchSet(t, "cs1")] : t \in {"TYPE_ANY", "TYPE_ALL", "TYPE_INVERT"}}
  \cup {[ext_community_set |-> MatchSet(t, "es1")] : t \in {"TYPE_ANY", "TYPE_ALL", "TYPE_INVERT"}}
  \cup {[large_community_set |-> MatchSet(t, "ls1")] : t \in {"TYPE_ANY", "TYPE_ALL", "TYPE_INVERT"}}
  \cup {[as_path_length |-> [type |-> t, length |-> n]] : t \in {"COMPARISON_EQ", "COMPARISON_GE", "COMPARISON_LE"}, n \in {"0", "1", "255"}}
  \cup {[community_count |-> [type |-> t, count |-> n]] : t \in {"COMPARISON_EQ", "COMPARISON_GE", "COMPARISON_LE"}, n \in {"0", "3"}}
  \cup {[rpki_result |-> r] : r \in {"VALIDATION_STATE_VALID", "VALIDATION_STATE_INVALID", "VALIDATION_STATE_NOT_FOUND"}}
  \cup {[route_type |-> r] : r \in {"ROUTE_TYPE_INTERNAL", "ROUTE_TYPE_EXTERNAL", "ROUTE_TYPE_LOCAL"}}
  \cup {[next_hop_in_list |-> l] : l \in {<<"10.0.0.1">>, <<"10.0.0.1", "2001:db8::1">>, <<"10.0.0.0/24">>}}
  \cup {[afi_safi_in |-> l] : l \in {<<F_V4UC>>, <<F_V4UC, F_V6UC>>, <<F_EVPN>>}}
  \cup {[origin |-> o] : o \in {"ORIGIN_TYPE_IGP", "ORIGIN_TYPE_EGP", "ORIGIN_TYPE_INCOMPLETE"}}
  \cup {[local_pref_eq |-> [value |-> v]] : v \in {"0", "100", "4294967295"}}
  \cup {[med_eq |-> [value |-> v]] : v \in {"0", "100", "4294967295"}}
  \cup {[prefix_set |-> MatchSet("TYPE_ANY", "ps1"), neighbor_set |-> MatchSet("TYPE_INVERT", "ns1"),
         community_set |-> MatchSet("TYPE_ALL", "cs1"), as_path_length |-> [type |-> "COMPARISON_LE", length |-> "10"]]}
CommAct(t, l) == [type |-> t, communities |-> l]
ActVals ==
  {[route_action |-> r] : r \in {"ROUTE_ACTION_ACCEPT", "ROUTE_ACTION_REJECT"}}
  (* added / replacing communities are values, removed ones are regular expressions *)
  \cup {[community |-> CommAct(t, l)] : t \in {"TYPE_ADD", "TYPE_REPLACE"}, l \in {<<"65000:100">>, <<"65000:100", "65535:65281">>}}
  \cup {[community |-> CommAct("TYPE_REMOVE", l)] : l \in {<<"^65000:100$">>, <<"^65000:.*$", "^65535:65281$">>}}
  \cup {[community |-> CommAct("TYPE_REPLACE", <<>>)]}
  \cup {[ext_community |-> CommAct(t, l)] : t \in {"TYPE_ADD", "TYPE_REPLACE"}, l \in {<<"rt:65000:100">>, <<"soo:10.0.0.1:5", "rt:65536:1">>,
                                                                                         <<"soo:10.0.0.1:5", "rt:1.0:1">>}}
  \cup {[ext_community |-> CommAct("TYPE_REMOVE", l)] : l \in {<<"rt:^65000:100$">>, <<"soo:^10.0.0.1:5$", "rt:^65536:1$">>}}
  \cup {[large_community |-> CommAct(t, l)] : t \in {"TYPE_ADD", "TYPE_REPLACE"}, l \in {<<"65000:1:2">>}}
  \cup {[large_community |-> CommAct("TYPE_REMOVE", l)] : l \in {<<"^65000:1:2$">>}}
  \cup {[med |-> [type |-> t, value |-> v]] : t \in {"TYPE_MOD", "TYPE_REPLACE"}, v \in {"0", "100", "4294967295"}}
  \cup {[med |-> [type |-> "TYPE_MOD", value |-> "-100"]]}
  \cup {[as_prepend |-> [asn |-> a, repeat |-> r, use_left_most |-> FALSE]] : a \in {"65000", "4200000001"}, r \in {"1", "255"}}
  \cup {[as_prepend |-> [asn |-> "0", repeat |-> "3", use_left_most |-> TRUE]]}
  \cup {[nexthop |-> [address |-> a, self |-> FALSE, unchanged |-> FALSE, peer_address |-> FALSE]] : a \in {"10.0.0.1", "2001:db8::1"}}
  \cup {[nexthop |-> [address |-> "", self |-> x[1], unchanged |-> x[2], peer_address |-> x[3]]] :
          x \in {<<TRUE, FALSE, FALSE>>, <<FALSE, TRUE, FALSE>>, <<FALSE, FALSE, TRUE>>}}
  \cup {[local_pref |-> [value |-> v]] : v \in {"0", "100", "4294967295"}}
  \cup {[origin_action |-> [origin |-> o]] : o \in {"ORIGIN_TYPE_IGP", "ORIGIN_TYPE_EGP", "ORIGIN_TYPE_INCOMPLETE"}}
StmtVals == {Stmt(c, Accept) : c \in CondVals} \cup {Stmt(NoCond, a) : a \in ActVals}
StmtNonCanon ==
  {Stmt(NoCond, a) : a \in {[community |-> CommAct("TYPE_ADD", <<"65000:100", "no-export">>)],
                            [community |-> CommAct("TYPE_REMOVE", <<"65000:100">>)],
                            [ext_community |-> CommAct("TYPE_REMOVE", <<"rt:65000:100">>)],
                            [large_community |-> CommAct("TYPE_REMOVE", <<"65000:1:2">>)]}}

(* ------------------------------- neighbour configuration -------------------------------------- *)
Conf(addr, as, las, ty) ==
  [neighbor_address |-> addr, peer_asn |-> as, local_asn |-> las, type |-> ty, auth_password |-> "", description |-> "",
   peer_group |-> "", remove_private |-> "REMOVE_PRIVATE_UNSPECIFIED", route_flap_damping |-> FALSE, neighbor_interface |-> "",
   vrf |-> "", allow_own_asn |-> "0", replace_peer_asn |-> FALSE, admin_down |-> FALSE, send_software_version |-> FALSE,
   allow_aspath_loop_local |-> FALSE]
(* the server derives the peer type from the AS numbers and fills local_asn from the global AS
   (65000 in the harness): the vocabulary is written in that (listed) form *)
TypeOf(as, las) == IF as = las THEN "PEER_TYPE_INTERNAL" ELSE "PEER_TYPE_EXTERNAL"
ConfBase == Conf("10.0.0.2", "65001", "65000", "PEER_TYPE_EXTERNAL")
With(r, f, v) == [r EXCEPT ![f] = v]
ConfVals ==
  {Conf(a, as, las, TypeOf(as, las)) : a \in {"10.0.0.2", "2001:db8::2"}, as \in {"65000", "65001", "4200000001"}, las \in {"65000", "65099"}}
  \cup {With(ConfBase, "auth_password", "secret"), With(ConfBase, "description", "peer two"), With(ConfBase, "peer_group", "pg1"),
        With(ConfBase, "remove_private", "REMOVE_PRIVATE_ALL"), With(ConfBase, "remove_private", "REMOVE_PRIVATE_REPLACE"),
        With(ConfBase, "route_flap_damping", TRUE), With(ConfBase, "vrf", "red"), With(ConfBase, "allow_own_asn", "3"),
        With(ConfBase, "allow_own_asn", "255"), With(ConfBase, "replace_peer_asn", TRUE), With(ConfBase, "admin_down", TRUE),
        With(ConfBase, "send_software_version", TRUE), With(ConfBase, "allow_aspath_loop_local", TRUE)}
TimersV(cr, h, k, mai, idle) ==
  [config |-> [connect_retry |-> cr, hold_time |-> h, keepalive_interval |-> k, minimum_advertisement_interval |-> mai,
               idle_hold_time_after_reset |-> idle]]
TimersVals ==
  {TimersV("120", "90", "30", "0", "30"), TimersV("1", "3", "1", "0", "1"), TimersV("65535", "65535", "21845", "0", "65535"),
   TimersV("120", "90", "30", "30", "30")}
TransportV(la, lp, rp, pm, bi, mss, tos) ==
  [local_address |-> la, local_port |-> lp, remote_port |-> rp, passive_mode |-> pm, bind_interface |-> bi, tcp_mss |-> mss, ip_tos |-> tos]
TransportVals ==
  {TransportV(la, "0", rp, pm, "", "0", "0") : la \in {"10.0.0.100", "2001:db8::100"}, rp \in {"179", "1179", "65535"}, pm \in BOOLEAN}
  \cup {TransportV("10.0.0.100", "1790", "179", FALSE, "eth0", "1400", "192")}
AfV(f, en) == [family |-> f, enabled |-> en]
AfiSafiV(f, extra) == [config |-> AfV(f, TRUE)] @@ extra
AfExtras(f) ==
  {<<>>,
   [add_paths |-> [config |-> [receive |-> TRUE, send_max |-> "0"]]],
   [add_paths |-> [config |-> [receive |-> FALSE, send_max |-> "8"]]],
   [add_paths |-> [config |-> [receive |-> TRUE, send_max |-> "255"]]],
   [mp_graceful_restart |-> [config |-> [enabled |-> TRUE]]],
   [long_lived_graceful_restart |-> [config |-> [enabled |-> TRUE, restart_time |-> "3600"]]],
   [long_lived_graceful_restart |-> [config |-> [enabled |-> TRUE, restart_time |-> "16777215"]]],
   [prefix_limits |-> [family |-> f, max_prefixes |-> "1000", shutdown_threshold_pct |-> "80"]],
   [prefix_limits |-> [family |-> f, max_prefixes |-> "4294967295", shutdown_threshold_pct |-> "100"]],
   [route_target_membership |-> [config |-> [deferral_time |-> "360"]]],
   [use_multiple_paths |-> [config |-> [enabled |-> TRUE], ebgp |-> [config |-> [allow_multiple_asn |-> TRUE, maximum_paths |-> "8"]],
                            ibgp |-> [config |-> [maximum_paths |-> "4"]]]],
   [route_selection_options |-> [config |-> [always_compare_med |-> TRUE, ignore_as_path_length |-> TRUE, external_compare_router_id |-> TRUE,
                                             advertise_inactive_routes |-> TRUE, enable_aigp |-> TRUE, ignore_next_hop_igp_metric |-> TRUE,
                                             disable_best_path_selection |-> FALSE]]],
   [apply_policy |-> [import_policy |-> [name |-> "", direction |-> "POLICY_DIRECTION_IMPORT", policies |-> <<[name |-> "pol1", statements |-> <<>>]>>,
                                         default_action |-> "ROUTE_ACTION_REJECT"]]]}
PeerV(conf, extra) == [conf |-> conf] @@ extra
PeerExtras(th) ==
  {[timers |-> t] : t \in TimersVals}
  \cup {[transport |-> t] : t \in TransportVals}
  \cup UNION {{[afi_safis |-> <<AfiSafiV(f, x)>>] : x \in AfExtras(f)} :
                f \in (IF th THEN {F_V4UC, F_V6UC, F_EVPN, F_V4VPN, F_RTC} ELSE {F_V4UC, F_EVPN})}
  \cup {[afi_safis |-> <<AfiSafiV(F_V4UC, <<>>), AfiSafiV(F_V6UC, <<>>), AfiSafiV(F_EVPN, <<>>)>>]}
  \cup {[route_reflector |-> [route_reflector_client |-> TRUE, route_reflector_cluster_id |-> id]] : id \in {"10.0.0.100", "1.2.3.4"}}
  \cup {[route_server |-> [route_server_client |-> c, secondary_route |-> s]] : c \in BOOLEAN, s \in BOOLEAN}
  \cup {[ebgp_multihop |-> [enabled |-> e, multihop_ttl |-> t]] : e \in BOOLEAN, t \in {"1", "2", "255"}}
  \cup {[ttl_security |-> [enabled |-> e, ttl_min |-> t]] : e \in BOOLEAN, t \in {"1", "254", "255"}}
  \cup {[graceful_restart |-> [enabled |-> e, restart_time |-> rt, helper_only |-> h, deferral_time |-> dt, notification_enabled |-> n,
                               longlived_enabled |-> l]] :
          e \in BOOLEAN, rt \in {"1", "120", "4095"}, h \in BOOLEAN, dt \in {"1", "360"}, n \in BOOLEAN, l \in BOOLEAN}
  \cup {[apply_policy |-> [export_policy |-> [name |-> "", direction |-> "POLICY_DIRECTION_EXPORT",
                                              policies |-> <<[name |-> "pol1", statements |-> <<>>], [name |-> "pol2", statements |-> <<>>]>>,
                                              default_action |-> da]]] : da \in {"ROUTE_ACTION_ACCEPT", "ROUTE_ACTION_REJECT"}}
  \cup {[bfd |-> [enabled |-> TRUE, port |-> "3784", desired_minimum_tx_interval |-> "300000", required_minimum_receive |-> "300000",
                  detection_multiplier |-> "3"]]}
PeerVals(th) ==
  {PeerV(c, <<>>) : c \in ConfVals} \cup {PeerV(ConfBase, x) : x \in PeerExtras(th)}
=============================================================================
