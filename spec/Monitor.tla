---------------------------- MODULE Monitor ----------------------------
(* C19 (A): the monitoring records the daemon emits, seen by an OBSERVER of the speaker model.

   On top of the property layer of Speaker.tla (up / inr / loc: a function of the input history only)
   this module defines
     - the observer: a BMP station (RFC 7854 / RFC 9069) and an MRT reader (RFC 6396 / RFC 8050) as
       FOLDS over the parsed records: StFold (BMP), UpdFold (BGP4MP updates).  The folds are the
       station's side of the protocol, not the daemon's code:
         Initiation opens a monitoring session and forgets everything;
         Peer Up opens a bracket for a peer and empties its tables (RFC 7854 4.10: "a Peer Up must
           precede any Route Monitoring for that peer", 4.9: after Peer Down "all routes learned from
           the peer are implicitly withdrawn");
         Route Monitoring applies the UPDATE it carries to the table selected by the peer header
           (peer type 0 pre-/post-policy Adj-RIB-In, peer type 3 Loc-RIB, RFC 9069), keyed by prefix -
           and by (prefix, path identifier) when the Peer Up OPENs announced ADD-PATH (RFC 7911);
         Peer Down closes the bracket; Termination closes the session; a lost connection ends it
           too (StDrop), and the next Initiation opens a new session with empty tables.
       Anything that does not fit (route monitoring outside a bracket, a second Peer Up, an unknown
       peer or prefix, a header that is not the session's, an unparsable record) is NOTED in st.viol.
     - what the folded tables must equal (property layer): PreOk, PostOk (a sandwich), LocOk / LocpOk,
       and, in the trace spec, the MRT table and replay predicates - all from Speaker's inr / loc / up.
   The property text: "the BMP and MRT records the daemon emits for sessions and tables parse back to
   the same peers, routes and attributes".

   MECHANISM layer (spec/MCMonitor.tla, the documented emitter): which records a conforming daemon writes
   for each input event.  TLC checks exhaustively in small scope that folding the emitted records yields
   the expected tables and no note (emitter => property); the real daemon is judged on recorded traces
   by spec/trace/MonitorTrace.tla (code => property). *)
EXTENDS Speaker

NoTbl == [p \in Peers |-> [x \in Prefixes |-> NoRoute]]

(* the attribute projection of a route as it sits in p's Adj-RIB-In (as received on the wire) *)
RecvRec(r) ==
  [aspath |-> AsPath(r), clist |-> 0, extra |-> 0, lp |-> r.lp, med |-> r.med,
   nh |-> IF r.src = LOCSRC THEN "zero" ELSE r.src,
   origid |-> "none", origin |-> 0, src |-> r.src, v |-> r.v]

(* LOCAL_PREF received from an external neighbour has no meaning (RFC 4271 5.1.5); whether it is
   kept or removed once the route has been processed is not determined: not compared *)
LpFree(r) == r.src # LOCSRC /\ ~IsIBGPKind(Kind(r.src))
Norm(o) == [o EXCEPT !.lp = -1]
SameStored(o, r) == IF LpFree(r) THEN Norm(o) = Norm(RecvRec(r)) ELSE o = RecvRec(r)

---------------------------------------------------------------------------
(* the BMP station *)

EmptyLoc == [x \in Prefixes |-> NoRoute]
(* sess: number of monitoring sessions opened since the station was configured; old: (neighbour, prefix)
   pairs whose route was reported post-policy on an EARLIER session and not again since; fresh: pairs the
   neighbour announced after the current session was opened (maintained by the trace spec, an input fact).
   ghost: neighbours de-configured while their bracket was open (set by the trace spec, an INPUT fact);
   ip: (neighbour, prefix) pairs reported in the initial post-policy dump of this monitoring session.
   Both only serve the weakened (_KF) invariants. *)
StInit == [on |-> FALSE, pol |-> "none", started |-> FALSE, initial |-> FALSE, up |-> {}, locup |-> FALSE,
           pre |-> NoTbl, post |-> NoTbl, loc |-> {}, locp |-> EmptyLoc,
           ghost |-> {}, ip |-> {}, viol |-> {}, n |-> 0, dropped |-> FALSE,
           sess |-> 0, old |-> {}, fresh |-> {}]

WantsPre(pol)  == pol \in {"pre", "all"}
WantsPost(pol) == pol \in {"post", "all"}
WantsLoc(pol)  == pol \in {"local", "all"}

(* a note is <<tag, who>> *)
Note(st, tag, who) == [st EXCEPT !.viol = @ \cup {<<tag, who>>}]
NoteIfNot(st, cond, tag, who) == IF cond THEN st ELSE Note(st, tag, who)

(* peer header of a per-peer record = the session's: address (name), AS, BGP identifier *)
HdrOk(m, p) == m.as = PInfo[p].as /\ m.rid = p
LocHdrOk(m) == m.peer = "zero" /\ m.as = LocalAS /\ m.rid = "self"

RECURSIVE ApplyWd(_, _, _, _)
ApplyWd(tbl, p, wd, i) ==
  IF i > Len(wd) THEN tbl
  ELSE ApplyWd(IF wd[i].x \in Prefixes THEN [tbl EXCEPT ![p][wd[i].x] = NoRoute] ELSE tbl, p, wd, i + 1)
RECURSIVE ApplyAnn(_, _, _, _)
ApplyAnn(tbl, p, ann, i) ==
  IF i > Len(ann) THEN tbl
  ELSE ApplyAnn(IF ann[i].x \in Prefixes THEN [tbl EXCEPT ![p][ann[i].x] = ann[i].r] ELSE tbl, p, ann, i + 1)

(* Loc-RIB with ADD-PATH: entries [x, id, r]; a withdrawal removes (x, id), an announcement replaces it *)
RECURSIVE LocWd(_, _, _)
LocWd(S, wd, i) == IF i > Len(wd) THEN S
                   ELSE LocWd({e \in S : ~(e.x = wd[i].x /\ e.id = wd[i].id)}, wd, i + 1)
RECURSIVE LocAnn(_, _, _)
LocAnn(S, ann, i) == IF i > Len(ann) THEN S
                     ELSE LocAnn({e \in S : ~(e.x = ann[i].x /\ e.id = ann[i].id)}
                                   \cup {[x |-> ann[i].x, id |-> ann[i].id, r |-> ann[i].r]}, ann, i + 1)

(* the same stream folded by prefix only (what a station that ignores the announced ADD-PATH
   capability holds): a later announcement for a prefix replaces the earlier one *)
RECURSIVE PfxWd(_, _, _)
PfxWd(T, wd, i) == IF i > Len(wd) THEN T
                   ELSE PfxWd(IF wd[i].x \in Prefixes THEN [T EXCEPT ![wd[i].x] = NoRoute] ELSE T, wd, i + 1)
RECURSIVE PfxAnn(_, _, _)
PfxAnn(T, ann, i) == IF i > Len(ann) THEN T
                     ELSE PfxAnn(IF ann[i].x \in Prefixes THEN [T EXCEPT ![ann[i].x] = ann[i].r] ELSE T, ann, i + 1)

UnknownPfx(m) == \/ \E i \in 1..Len(m.ann) : m.ann[i].x \notin Prefixes
                 \/ \E j \in 1..Len(m.wd) : m.wd[j].x \notin Prefixes
AnnKeys(m, p) == {<<p, m.ann[i].x>> : i \in 1..Len(m.ann)}
OnlyLocal(m) == \A i \in 1..Len(m.ann) : m.ann[i].r.src = LOCSRC

StRm(st, m) ==
  IF m.perr # "" \/ ~m.isupd THEN Note(st, "parse-rm", "-")
  ELSE IF m.ptype = 3 THEN
    LET s1 == NoteIfNot(st, st.locup, "bracket-locrib-rm", "-")
        s2 == NoteIfNot(s1, LocHdrOk(m), "hdr-locrib-rm", "-")
        s3 == NoteIfNot(s2, ~UnknownPfx(m), "unknown-prefix", "-")
    IN [s3 EXCEPT !.loc = LocAnn(LocWd(@, m.wd, 1), m.ann, 1),
                  !.locp = PfxAnn(PfxWd(@, m.wd, 1), m.ann, 1)]
  ELSE IF m.ptype # 0 THEN Note(st, "peer-type", "-")
  ELSE IF m.peer \notin Peers THEN
    (* route monitoring for somebody who is not a neighbour: no Peer Up can have preceded it *)
    Note(st, IF m.post /\ m.peer = "zero" /\ m.as = 0 /\ Len(m.wd) = 0 /\ OnlyLocal(m)
             THEN "bracket-rm-local-post" ELSE "bracket-rm-unknown-peer", "-")
  ELSE
    LET p  == m.peer
        s1 == NoteIfNot(st, p \in st.up, "bracket-rm", p)
        s2 == NoteIfNot(s1, HdrOk(m, p), "hdr-rm", p)
        s3 == NoteIfNot(s2, ~UnknownPfx(m), "unknown-prefix", p)
    IN IF m.eor THEN s3
       ELSE IF m.post THEN [s3 EXCEPT !.post = ApplyAnn(ApplyWd(@, p, m.wd, 1), p, m.ann, 1),
                                      !.ip = IF st.initial THEN @ \cup AnnKeys(m, p) ELSE @ \ AnnKeys(m, p),
                                      !.old = (@ \ AnnKeys(m, p)) \ {<<p, m.wd[j].x>> : j \in 1..Len(m.wd)}]
       ELSE [s3 EXCEPT !.pre = ApplyAnn(ApplyWd(@, p, m.wd, 1), p, m.ann, 1)]

StUp(st, m) ==
  IF m.perr # "" THEN Note(st, "parse-up", "-")
  ELSE IF m.ptype = 3 THEN
    LET s1 == NoteIfNot(st, ~st.locup, "bracket-locrib-up-twice", "-")
        s2 == NoteIfNot(s1, LocHdrOk(m) /\ m.sent.as4 = LocalAS /\ m.sent.id = "self", "hdr-locrib-up", "-")
    IN [s2 EXCEPT !.locup = TRUE, !.loc = {}, !.locp = EmptyLoc]
  ELSE IF m.ptype # 0 THEN Note(st, "peer-type", "-")
  ELSE IF m.peer \notin Peers THEN Note(st, "bracket-up-unknown-peer", "-")
  ELSE
    LET p  == m.peer
        s1 == NoteIfNot(st, p \notin st.up, IF p \in st.ghost THEN "bracket-up-twice-ghost" ELSE "bracket-up-twice", p)
        s2 == NoteIfNot(s1, HdrOk(m, p), "hdr-up", p)
        (* the OPENs carried are the session's: ours (AS, identifier) and the neighbour's *)
        s3 == NoteIfNot(s2, m.sent.as4 = LocalAS /\ m.sent.id = "self"
                            /\ m.recv.as4 = PInfo[p].as /\ m.recv.id = p, "hdr-up-open", p)
        (* RFC 7854 4.10 Local Address: "the local IP address associated with the peering TCP session" *)
        s4 == NoteIfNot(s3, m.laddr = "self", IF m.laddr = "zero" THEN "up-local-address-unset" ELSE "up-local-address", p)
    IN [s4 EXCEPT !.up = @ \cup {p}, !.ghost = @ \ {p}, !.pre[p] = EmptyLoc, !.post[p] = EmptyLoc,
                  !.ip = {k \in @ : k[1] # p}]

StDown(st, m) ==
  IF m.perr # "" THEN Note(st, "parse-down", "-")
  ELSE IF m.ptype = 3 THEN
    LET s1 == NoteIfNot(st, st.locup, "bracket-locrib-down", "-")
        s2 == NoteIfNot(s1, LocHdrOk(m), "hdr-locrib-down", "-")
    IN [s2 EXCEPT !.locup = FALSE, !.loc = {}, !.locp = EmptyLoc]
  ELSE IF m.ptype # 0 THEN Note(st, "peer-type", "-")
  ELSE IF m.peer \notin Peers THEN Note(st, "bracket-down-unknown-peer", "-")
  ELSE
    LET p  == m.peer
        s1 == NoteIfNot(st, p \in st.up, "bracket-down-without-up", p)
        s2 == NoteIfNot(s1, HdrOk(m, p), "hdr-down", p)
    IN [s2 EXCEPT !.up = @ \ {p}, !.ghost = @ \ {p}, !.pre[p] = EmptyLoc, !.post[p] = EmptyLoc,
                  !.ip = {k \in @ : k[1] # p}]

Forget(s) == [s EXCEPT !.up = {}, !.locup = FALSE, !.pre = NoTbl, !.post = NoTbl, !.loc = {}, !.locp = EmptyLoc,
                       !.ghost = {}, !.ip = {}, !.fresh = {}]

StFold1(st0, m) ==
  LET st == [st0 EXCEPT !.n = @ + 1] IN
  (* every record is exactly as long as its header says (the token the splitter cut) *)
  LET s0 == IF "declen" \in DOMAIN m THEN NoteIfNot(st, m.declen = m.toklen, "framing", "-") ELSE st IN
  CASE m.t = "init" -> [Forget(NoteIfNot(s0, ~st.started, "init-twice", "-")) EXCEPT !.started = TRUE, !.dropped = FALSE, !.sess = @ + 1]
    [] m.t = "term" -> [Forget(NoteIfNot(s0, st.started, "term-before-init", "-")) EXCEPT !.started = FALSE]
    [] m.t \in {"up", "down", "rm"} ->
         LET s1 == NoteIfNot(s0, st.started, "before-init", "-")
         IN IF m.t = "up" THEN StUp(s1, m) ELSE IF m.t = "down" THEN StDown(s1, m) ELSE StRm(s1, m)
    [] m.t = "stats" -> NoteIfNot(s0, m.peer \in Peers /\ m.peer \in st.up, "bracket-stats", "-")
    [] OTHER -> Note(s0, "parse-other", "-")

RECURSIVE StFold(_, _, _)
StFold(st, ms, i) == IF i > Len(ms) THEN st ELSE StFold(StFold1(st, ms[i]), ms, i + 1)

(* the station is switched on / off by configuration (input) *)
StOn(st, pol) == [StInit EXCEPT !.on = TRUE, !.pol = pol, !.initial = TRUE, !.viol = st.viol, !.n = st.n]
StOff(st)     == [st EXCEPT !.on = FALSE]
(* the connection to the station is lost (the station closed it): the monitoring session is over and a
   station keeps nothing of it (RFC 7854 3.2); whatever the daemon sends next belongs to a NEW session,
   which starts from empty tables: Initiation, the Peer Up of every established neighbour, its tables *)
PostPairs(st)  == {k \in Peers \X Prefixes : st.post[k[1]][k[2]] # NoRoute}
StDrop(st)    == IF st.on THEN [Forget(st) EXCEPT !.started = FALSE, !.dropped = TRUE, !.old = @ \cup PostPairs(st)] ELSE st
Tags(st) == {k[1] : k \in st.viol}

---------------------------------------------------------------------------
(* what the station's tables must equal (property layer) *)

PreExpected(p, x) == IF inr[p][x] = NoRoute THEN NoRoute ELSE RecvRec(inr[p][x])
PreOk(o, p, x) == IF inr[p][x] = NoRoute THEN o = NoRoute ELSE o # NoRoute /\ SameStored(o, inr[p][x])

(* post-policy Adj-RIB-In: the routes that passed inbound processing.  Whether a route that fails
   the AS-loop check counts as "post-policy" is not determined by RFC 7854: sandwich *)
PostOk(o, p, x) ==
  LET r == Imported(p, x) IN
    IF inr[p][x] = NoRoute \/ r = NoRoute THEN o = NoRoute
    ELSE IF Usable(inr[p][x]) THEN o # NoRoute /\ SameStored(o, r)
    ELSE o = NoRoute \/ SameStored(o, r)

(* Loc-RIB (RFC 9069): the selected route of every prefix *)
LocRoutes(S, x) == {e.r : e \in {f \in S : f.x = x}}
LocOk(S, x) ==
  LET E == LocRibExpected(x) IN
    IF E = {} THEN LocRoutes(S, x) = {}
    ELSE /\ Cardinality({e \in S : e.x = x}) = 1
         /\ \A o \in LocRoutes(S, x) : SameStored(o, BestOf(E))
LocpOk(T, x) ==
  LET E == LocRibExpected(x) IN
    IF E = {} THEN T[x] = NoRoute ELSE T[x] # NoRoute /\ SameStored(T[x], BestOf(E))

=============================================================================
