SPECIFICATION Spec
CONSTANTS
  Peers = {"A", "C"}
  PInfo <- PI_ebgp3
  Prefixes <- Pfx2
  LocalAS = 65000
  ApPeers = {"A"}
  ApIds = {1, 2}
  Codes = {0, 2, 5}
  LocalCodes = {0, 1}
  MaxKeys = 2
INVARIANTS
  D_TypeOK
  D_NoGhost
  D_LocFromAdj
  D_Counters
  D_Maximal
  D_AgreesWithSpeaker
  D_Export
