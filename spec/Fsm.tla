--------------------------------- MODULE Fsm ---------------------------------
(* C07 SYSTEM SPEC: the mechanism layer (FsmMech.tla, shaped like pkg/server/fsm.go) driven by the
   environment (every event that can be carried out, FsmMech!Enabled), with the property-layer
   history (FsmRfc.tla) computed alongside.  Design-level result: "mechanism => property layer
   modulo the named deviations" = the D_* invariants, checked exhaustively by MCFsm. *)
EXTENDS FsmMech

CONSTANTS Cfgs,          \* set of configuration records [passive, hold, peer, maxpfx, nbit, retry]
          MaxSteps

VARIABLES m, hh, last, steps
vars == <<m, hh, last, steps>>

(* ---------------------------------------------------------------------------------------- *)
Init == \E cfg \in Cfgs :
          /\ m = Finish(MInit(cfg))
          /\ hh = HInit(cfg, Finish(MInit(cfg)).o)
          /\ last = [e |-> NoEv, h |-> HInit(cfg, Finish(MInit(cfg)).o), o |-> Finish(MInit(cfg)).o]
          /\ steps = 0

Step(e) == LET m2 == MStep(m, e) IN
           /\ m' = m2
           /\ hh' = HNext(hh, e, m2.o)
           /\ last' = [e |-> e, h |-> hh, o |-> m2.o]
           /\ steps' = steps + 1

Next == steps < MaxSteps /\ \E e \in Enabled(m) : Step(e)
Spec == Init /\ [][Next]_vars

(* ---------------------------------------------------------------------------------------- *)
(* design level: the mechanism satisfies the property layer except in the named deviations *)
DJ == last.e.ev # "Reset"
DS == last.h.susp
DKF(cls, dev) == DJ => (DS \/ StepClass(last.h, last.e, last.o) # cls \/ NotifOK(last.h, last.e, last.o) \/ dev)

D_C07_Transitions == DJ => (DS \/ P_Transitions(last.h, last.e, last.o))
D_C07_EstablishedOnlyAfterOpenKeepalive ==
  DJ => (DS \/ P_EstablishedOnlyAfterOpenKeepalive(last.h, last.e, last.o, hh))
D_C07_Notification == DJ => (DS \/ (P_Notification(last.h, last.e, last.o) /\ P_NoHardResetWithoutN(last.h, last.e, last.o)))
D_C07_Notif_OpenConfirmUnexpected == DJ => (DS \/ P_NotifClass("OCUnexpected", last.h, last.e, last.o))
D_C07_Notif_EstablishedOpen == DJ => (DS \/ P_NotifClass("EstOpen", last.h, last.e, last.o))
D_C07_Notif_UnsupportedOptParam == DJ => (DS \/ P_NotifClass("UnsupOpt", last.h, last.e, last.o))
D_C07_Notif_KeepaliveLength == DJ => (DS \/ P_NotifClass("KaLen", last.h, last.e, last.o))
D_C07_Notif_OpenWhileIdle == DKF("IdleOpen", Dev_IdleOpen(last.h, last.e, last.o))
D_C07_Notif_ManualStopEarly == DKF("ManualStopEarly", Dev_ManualStopEarly(last.h, last.e, last.o))
D_C07_Notif_NoSpurious == DJ => (DS \/ P_NotifClass("Spurious", last.h, last.e, last.o))
D_C07_TimerInstant == DJ => (DS \/ P_TimerInstant(last.h, last.e, last.o, LargeHold))
D_C07_Timer_OpenConfirm ==
  DJ => (DS \/ P_Timer_OpenConfirm(last.h, last.e, last.o, LargeHold) \/ Dev_Timer_OpenConfirm(last.h, last.e, last.o, LargeHold))
D_C07_NoRibEffectBeforeEstablished == DJ => (DS \/ P_NoRibEffectBeforeEstablished(last.h, last.e, last.o))
D_C07_ReportedMatchesReal == DJ => (DS \/ hh.susp \/ Dev_DownButOutgoing(last.h, last.e, last.o, hh))

(* sanity of the mechanism itself *)
D_TypeOK == /\ m.st \in {"Idle", "Active", "OpenSent", "OpenConfirm", "Established"}
            /\ m.admin \in {"Up", "Down", "PfxCt"}
            /\ m.cur \in {"none", CI, CO}
            /\ (m.st \in {"OpenSent", "OpenConfirm", "Established"} /\ ~m.deleted) => m.cur # "none"
            /\ (m.st = "Established" /\ ~m.deleted) => m[m.cur].live
            /\ m.ocm \in {"off", "wait", "dial", "opensent"}
            /\ m.cfg.passive => m.ocm = "off"
(* the mechanism's own belief agrees with the property layer's connection bookkeeping *)
D_HistoryAgrees == \A c \in ConnIds : (hh[c].live /\ hh[c].cs # "None") => m[c].live
=============================================================================
