---------------------------- MODULE AdjInApGen ----------------------------
(* Behaviour generator for the ADD-PATH receive part of C02: random schedules over the input
   alphabet of AdjInAp.  Every random draw is bound ONCE (\E v \in {RandomElement(..)}) and the next
   state is computed from the logged record by AdjInAp!Do, so the record that is printed is the step
   that was applied.  The schedule starts with every neighbour established (Warm), so that the
   random part is spent on routes; session loss, removal and re-establishment follow at random.
   One JSON schedule per behaviour is printed by the single Finish step. *)
EXTENDS AdjInAp, SpeakerDom, Json

CONSTANTS MaxSteps, Codes, LocalCodes,
          FloodEnds,  \* how a flood may be cut off: subset of {"Down", "DelPeer"}
          FloodOdds   \* an enabled flood is offered one time in FloodOdds

VARIABLES hist, done
gvars == <<up, inr, loc, gone, hist, done>>

SetToSeq(T) == LET RECURSIVE F(_)
                   F(U) == IF U = {} THEN <<>> ELSE LET m == CHOOSE a \in U : TRUE IN <<m>> \o F(U \ {m})
               IN F(T)

UpSteps == LET q == SetToSeq(Peers) IN [i \in 1..Len(q) |-> [ev |-> "Up", p |-> q[i]]]

GInit == /\ up = [p \in Peers |-> TRUE]
         /\ inr = [p \in Peers |-> Empty]
         /\ loc = [x \in Prefixes |-> NoRoute]
         /\ gone = {}
         /\ hist = UpSteps /\ done = FALSE

Apply(e) == Do(e) /\ hist' = Append(hist, e) /\ UNCHANGED done

Rt(p)     == MkRoute(PInfo, p, RandomElement(Codes))
RandKey(p) == Key(RandomElement(Prefixes), RandomElement(Ids(p)))
MsgRec(p, W, A, r) == [ev |-> "Msg", p |-> p, wd |-> SetToSeq(W), ann |-> SetToSeq(A), r |-> r]

(* single announcement: a new (x,id), an implicit replace (same (x,id) again, same identifier with
   different attributes), the same route under a second identifier - all by chance of the draw *)
GAnn(p) == up[p] /\ \E k \in {RandKey(p)} : \E r \in {Rt(p)} : Apply(MsgRec(p, {}, {k}, r))

(* re-announce under another identifier exactly the route that is already held under one *)
GTwin(p) == /\ up[p] /\ p \in ApPeers
            /\ \E k \in {RandKey(p)} : \E i \in {RandomElement(ApIds)} :
                 /\ inr[p][k.x][k.id] # NoRoute /\ i # k.id
                 /\ Apply(MsgRec(p, {}, {Key(k.x, i)}, inr[p][k.x][k.id]))

(* single withdrawal: of a held route, a second time, of an identifier never announced *)
HeldKeys(p) == {k \in Keys(p) : inr[p][k.x][k.id] # NoRoute}
GWd(p) == up[p] /\ \E k \in {IF HeldKeys(p) # {} /\ RandomElement(1..2) = 1 THEN RandomElement(HeldKeys(p)) ELSE RandKey(p)} :
                   Apply(MsgRec(p, {k}, {}, NoRoute))

(* an UPDATE burst: two to four keys of one neighbour in ONE message, split at random into
   withdrawn and announced routes (the announced ones share the attributes) *)
GBurst(p) == /\ up[p]
             /\ \E K \in {RandomElement({T \in SUBSET Keys(p) : Cardinality(T) \in 2..4})} :
                \E W \in {RandomElement(SUBSET K)} : \E r \in {Rt(p)} :
                  Apply(MsgRec(p, W, K \ W, r))

(* several UPDATEs written back to back, then the session is closed / the neighbour removed while
   the speaker may still be working on them.  hold: the harness parks the last UPDATE between the
   neighbour's receive loop and its handler until the session has been ended (already read, not yet
   handled - made exact); otherwise the interleaving is whatever the scheduler gives *)
FloodMsgs(p) == [j \in 1..RandomElement(2..4) |->
                   LET k == RandKey(p) IN
                     IF RandomElement(1..4) = 1 THEN [wd |-> <<k>>, ann |-> <<>>, r |-> NoRoute]
                     ELSE [wd |-> <<>>, ann |-> <<k>>, r |-> Rt(p)]]
GFlood(p) == /\ up[p] /\ FloodEnds # {} /\ RandomElement(1..FloodOdds) = 1
             /\ \E m \in {FloodMsgs(p)} : \E e \in {RandomElement(FloodEnds)} :
                \E h \in {RandomElement(BOOLEAN)} :
                  Apply([ev |-> "Flood", p |-> p, msgs |-> m, end |-> e, hold |-> h])

GUp(p)      == Apply([ev |-> "Up", p |-> p])
GDown(p)    == RandomElement(1..4) = 1 /\ Apply([ev |-> "Down", p |-> p])
GDelPeer(p) == RandomElement(1..5) = 1 /\ Apply([ev |-> "DelPeer", p |-> p])
GAddPeer(p) == Apply([ev |-> "AddPeer", p |-> p])
GResetIn    == RandomElement(1..2) = 1 /\
               \E t \in {RandomElement(Peers \cup {"all"})} : Apply([ev |-> "ResetIn", p |-> t])
GApiAdd     == \E x \in {RandomElement(Prefixes)} : \E c \in {RandomElement(LocalCodes)} :
                  Apply([ev |-> "ApiAdd", x |-> x, r |-> MkLocal(c)])
GApiDel     == RandomElement(1..2) = 1 /\
               \E x \in {RandomElement(Prefixes)} : Apply([ev |-> "ApiDel", x |-> x])

GNext == \/ /\ Len(hist) < MaxSteps /\ ~done
            /\ \/ \E p \in Peers : \/ GAnn(p) \/ GAnn(p) \/ GAnn(p) \/ GTwin(p) \/ GWd(p) \/ GWd(p)
                                   \/ GBurst(p) \/ GFlood(p)
                                   \/ GUp(p) \/ GDown(p) \/ GDelPeer(p) \/ GAddPeer(p)
               \/ GApiAdd \/ GApiDel \/ GResetIn
         \/ /\ Len(hist) = MaxSteps /\ ~done /\ done' = TRUE /\ UNCHANGED <<up, inr, loc, gone, hist>>

GSpec == GInit /\ [][GNext]_gvars

Emit == done =>
          PrintT("VPOUT " \o ToJson([peers |-> PInfo, localas |-> LocalAS, appeers |-> SetToSeq(ApPeers),
                                     steps |-> hist]))
=============================================================================
