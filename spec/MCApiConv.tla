------------------------------ MODULE MCApiConv ------------------------------
(* Design level for C18.  There is no mechanism model of the converters (they are pure functions
   over some hundred message types; the verdicts come from the real code only).  What TLC checks
   exhaustively here is that the property layer's inputs are what the laws of ApiConv take them
   to be - one state per generated behaviour of every deterministic sweep:
     D_WellTyped     every value is a record of exactly one known kind (attribute / NLRI /
                     capability oneof member), every catalogue name is known;
     D_FamilyMatches every NLRI - alone, inside MP_REACH / MP_UNREACH, in an API path - is of the
                     kind its address family carries (UnmarshalNLRI silently depends on it);
     D_HintSound     a native-only hint is only attached where the native form exists (2-octet AS
                     kind only when every AS number fits two octets, mapped form only for an IPv4
                     next hop);
     D_EveryKind     every member of the Attribute / NLRI / Capability oneofs of pkg/api is generated
                     by a sweep or named in the example catalogue ("a catalogue covering every type");
     D_Injective     the API projection is injective on the generated native values EXCEPT for the
                     declared native-only distinctions: two behaviours with the same API value
                     differ in a hint - so "equal API value" may be read as "equal value" by L0 / L2
                     everywhere else;
     D_Coverage      every kind that has fields is generated with at least two different values
                     (the "one field at a time" sweeps are not degenerate). *)
EXTENDS ApiConvGen

AllBehaviours ==
  SweepAttr \cup SweepNlri \cup SweepCap \cup SweepEx
  \cup {Beh("path", v, [del |-> "uuid"], "path") : v \in PathVals(Thorough)}
  \cup {Beh("dset", v, NoHint, "dset") : v \in DsetVals \cup DsetNonCanon}
  \cup {Beh("stmt", v, NoHint, "stmt") : v \in StmtVals \cup StmtNonCanon}
  \cup {Beh("peer", v, NoHint, "peer") : v \in PeerVals(Thorough)}

MCInit == beh \in AllBehaviours /\ step = 0
MCNext == UNCHANGED gv
Spec == MCInit /\ [][MCNext]_gv

AttrKinds == {"unknown", "origin", "as_path", "next_hop", "multi_exit_disc", "local_pref", "atomic_aggregate", "aggregator",
              "communities", "originator_id", "cluster_list", "mp_reach", "mp_unreach", "extended_communities", "as4_path",
              "as4_aggregator", "pmsi_tunnel", "tunnel_encap", "ip6_extended_communities", "aigp", "large_communities", "ls",
              "prefix_sid"}
NlriKinds == {"prefix", "labeled_prefix", "encapsulation", "vpls", "evpn_ethernet_ad", "evpn_macadv", "evpn_multicast",
              "evpn_ethernet_segment", "evpn_ip_prefix", "evpn_i_pmsi", "labeled_vpn_ip_prefix", "route_target_membership",
              "flow_spec", "vpn_flow_spec", "opaque", "ls_addr_prefix", "sr_policy", "mup_interwork_segment_discovery",
              "mup_direct_segment_discovery", "mup_type_1_session_transformed", "mup_type_2_session_transformed"}
CapKinds == {"unknown", "multi_protocol", "route_refresh", "carrying_label_info", "extended_nexthop", "graceful_restart",
             "four_octet_asn", "add_path", "enhanced_route_refresh", "long_lived_graceful_restart", "route_refresh_cisco",
             "fqdn", "software_version", "extended_message"}
ExtComKinds == {"unknown", "two_octet_as_specific", "ipv4_address_specific", "four_octet_as_specific", "link_bandwidth",
                "validation", "color", "encap", "default_gateway", "opaque", "esi_label", "es_import", "mac_mobility",
                "router_mac", "traffic_rate", "traffic_action", "redirect_two_octet_as_specific", "redirect_ipv4_address_specific",
                "redirect_four_octet_as_specific", "traffic_remark", "vpls", "etree", "multicast_flags",
                "mup_two_octet_as_specific", "mup_ipv4_address_specific", "mup_four_octet_as_specific"}
(* kinds that only the example catalogue covers *)
CatalogueAttrKinds == {"ls"}
CatalogueNlriKinds == {"ls_addr_prefix"}

OneKind(v, K) == Cardinality(DOMAIN v) = 1 /\ KindOf(v) \in K

(* the NLRI kinds an address family carries *)
KindsOfFamily(f) ==
  CASE f.safi \in {"SAFI_UNICAST", "SAFI_MULTICAST"} /\ f.afi \in {"AFI_IP", "AFI_IP6"} -> {"prefix"}
    [] f.safi = "SAFI_MPLS_LABEL" -> {"labeled_prefix"}
    [] f.safi \in {"SAFI_MPLS_VPN", "SAFI_MPLS_VPN_MULTICAST"} -> {"labeled_vpn_ip_prefix"}
    [] f.safi = "SAFI_ENCAPSULATION" -> {"encapsulation"}
    [] f.safi = "SAFI_EVPN" -> {"evpn_ethernet_ad", "evpn_macadv", "evpn_multicast", "evpn_ethernet_segment", "evpn_ip_prefix", "evpn_i_pmsi"}
    [] f.safi = "SAFI_VPLS" -> {"vpls"}
    [] f.safi = "SAFI_ROUTE_TARGET_CONSTRAINTS" -> {"route_target_membership"}
    [] f.safi = "SAFI_FLOW_SPEC_UNICAST" -> {"flow_spec"}
    [] f.safi = "SAFI_FLOW_SPEC_VPN" -> {"vpn_flow_spec"}
    [] f.safi = "SAFI_KEY_VALUE" -> {"opaque"}
    [] f.safi = "SAFI_SR_POLICY" -> {"sr_policy"}
    [] f.safi = "SAFI_MUP" -> {"mup_interwork_segment_discovery", "mup_direct_segment_discovery", "mup_type_1_session_transformed",
                               "mup_type_2_session_transformed"}
    [] f.safi = "SAFI_LS" -> {"ls_addr_prefix"}
    [] OTHER -> {}
NlriFits(f, n) == OneKind(n, KindsOfFamily(f))
MpFits(a) ==
  /\ ("mp_reach" \in DOMAIN a => \A i \in DOMAIN a.mp_reach.nlris : NlriFits(a.mp_reach.family, a.mp_reach.nlris[i]))
  /\ ("mp_unreach" \in DOMAIN a => \A i \in DOMAIN a.mp_unreach.nlris : NlriFits(a.mp_unreach.family, a.mp_unreach.nlris[i]))

D_WellTyped ==
  CASE beh.k = "attr" -> OneKind(beh.val, AttrKinds)
    [] beh.k = "nlri" -> DOMAIN beh.val = {"family", "nlri"} /\ OneKind(beh.val.nlri, NlriKinds)
    [] beh.k = "cap"  -> OneKind(beh.val, CapKinds)
    [] beh.k = "ex"   -> beh.name \in ExampleNames
    [] beh.k = "path" -> /\ DOMAIN beh.val = {"family", "nlri", "pattrs", "identifier"}
                         /\ \A i \in DOMAIN beh.val.pattrs : OneKind(beh.val.pattrs[i], AttrKinds)
                         (* at most one attribute of each type: the API refuses duplicates *)
                         /\ \A i, j \in DOMAIN beh.val.pattrs : i # j => KindOf(beh.val.pattrs[i]) # KindOf(beh.val.pattrs[j])
    [] beh.k = "dset" -> beh.val.name # "" /\ (beh.val.defined_type = "DEFINED_TYPE_PREFIX" <=> beh.val.list = <<>>)
    [] beh.k = "stmt" -> beh.val.statement.name # ""
    [] beh.k = "peer" -> "conf" \in DOMAIN beh.val
    [] OTHER -> FALSE

D_FamilyMatches ==
  CASE beh.k = "nlri" -> NlriFits(beh.val.family, beh.val.nlri)
    [] beh.k = "attr" -> MpFits(beh.val)
    [] beh.k = "path" -> NlriFits(beh.val.family, beh.val.nlri) /\ \A i \in DOMAIN beh.val.pattrs : MpFits(beh.val.pattrs[i])
    [] OTHER -> TRUE

TwoOctet == AS2 \cup {"0", "64512", "65001", "65002", "65003"}
SegsFit(segs) == \A i \in DOMAIN segs : \A j \in DOMAIN segs[i].numbers : segs[i].numbers[j] \in TwoOctet
D_HintSound ==
  /\ ("askind" \in DOMAIN beh.hint) =>
        /\ beh.k = "attr" /\ KindOf(beh.val) \in {"as_path", "aggregator"}
        /\ ("as_path" \in DOMAIN beh.val => SegsFit(beh.val.as_path.segments))
        /\ ("aggregator" \in DOMAIN beh.val => beh.val.aggregator.asn \in TwoOctet)
  /\ ("nhform" \in DOMAIN beh.hint) =>
        beh.k = "attr" /\ "mp_reach" \in DOMAIN beh.val /\ beh.val.mp_reach.next_hops # <<>> /\ beh.val.mp_reach.next_hops[1] \in V4

GenAttrKinds == {KindOf(b.val) : b \in SweepAttr}
GenNlriKinds == {KindOf(b.val.nlri) : b \in SweepNlri}
GenCapKinds  == {KindOf(b.val) : b \in SweepCap}
GenExtComKinds == {KindOf(c) : c \in ExtCommPool}
(* statements about the whole vocabulary are evaluated in one designated state only *)
Witness == CHOOSE b \in SweepCap : TRUE
D_EveryKind ==
  beh = Witness =>
  /\ AttrKinds = GenAttrKinds \cup CatalogueAttrKinds
  /\ NlriKinds = GenNlriKinds \cup CatalogueNlriKinds
  /\ CapKinds = GenCapKinds
  /\ ExtComKinds = GenExtComKinds
  /\ \A k \in CatalogueAttrKinds : \E n \in ExampleNames : n \in {"attr:ls-node", "attr:ls-link", "attr:ls-prefix"}
  /\ \A k \in CatalogueNlriKinds : \E n \in ExampleNames : n \in {"nlri:ls-node", "nlri:ls-link"}

NativeOnly == {"askind", "nhform"}
ConvBehaviours == SweepAttr \cup SweepNlri \cup SweepCap
D_Injective ==
  beh \in ConvBehaviours =>
  \A b1 \in ConvBehaviours :
     (b1.k = beh.k /\ b1.val = beh.val /\ b1 # beh) =>
        (b1.hint # beh.hint /\ (DOMAIN b1.hint \cup DOMAIN beh.hint) \ {"none"} \subseteq NativeOnly)

Fieldless == {"atomic_aggregate"}
FieldlessCaps == {"route_refresh", "carrying_label_info", "enhanced_route_refresh", "route_refresh_cisco", "extended_message"}
D_Coverage ==
  beh = Witness =>
  /\ \A k \in GenAttrKinds \ Fieldless : Cardinality({b.val : b \in {x \in SweepAttr : KindOf(x.val) = k}}) >= 2
  /\ \A k \in GenNlriKinds : Cardinality({b.val : b \in {x \in SweepNlri : KindOf(x.val.nlri) = k}}) >= 2
  /\ \A k \in GenCapKinds \ FieldlessCaps : Cardinality({b.val : b \in {x \in SweepCap : KindOf(x.val) = k}}) >= 2
=============================================================================
