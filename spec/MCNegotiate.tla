---------------------------- MODULE MCNegotiate ----------------------------
(* Design-level check of C08: exhaustive pools of (configuration, OPEN) pairs; the MECHANISM
   layer of Negotiate (code-shaped) must stay inside the PROPERTY layer, and the property layer
   must be sane in itself.  One behaviour = Init (a pair is chosen) ; Negotiate (the mechanism
   computes the session parameters). *)
EXTENDS Negotiate, NegotiateDom

CONSTANTS Pool,     \* "timers" | "fam46" | "fam4v" | "fam6v" | "as"
          Small      \* TRUE: the quick-tier cut of the family pools

(* P(...) = the pick with the pool's factors set and every other factor at its base value *)
P(las, pm, l4, l6, lv, lh, lk, lg, ra, rh, r4, r6, rv, ro, re, rg, ly, od) ==
  <<las, pm, l4, l6, lv, lh, lk, lg, ra, rh, r4, r6, rv, ro, re, rg, ly, od, 2, 1>>
N(i) == 1..FactorSizes[i]
PoolPicks ==
  CASE Pool = "timers" ->
         {P(1, pm, 2, 1, 1, lh, lk, 1, 1, rh, 2, 1, 1, 1, 1, 1, 1, 1) : pm \in N(2), lh \in N(6), lk \in N(7), rh \in N(10)}
    [] Pool = "fam46" ->
         {P(1, 1, l4, l6, 1, 1, 1, 1, 1, 6, r4, r6, 1, ro, 1, 1, ly, od) :
            l4 \in N(3), l6 \in N(4), r4 \in N(11), r6 \in N(12),
            ro \in (IF Small THEN {1, 2} ELSE N(14)), ly \in (IF Small THEN {1} ELSE N(17)), od \in N(18)}
    [] Pool = "fam4v" ->
         {P(1, 1, l4, 1, lv, 1, 1, 1, 1, 6, r4, 1, rv, ro, 1, 1, 1, od) :
            l4 \in N(3), lv \in N(5), r4 \in N(11), rv \in N(13), ro \in N(14), od \in N(18)}
    [] Pool = "fam6v" ->
         {P(1, 1, 1, l6, lv, 1, 1, 1, 1, 6, 1, r6, rv, ro, 1, 1, 1, od) :
            l6 \in N(4), lv \in N(5), r6 \in N(12), rv \in N(13), ro \in N(14), od \in N(18)}
    [] Pool = "as" ->
         {[P(las, pm, 2, 1, 1, 1, 1, lg, ra, 6, 2, 1, 1, 1, re, rg, ly, od) EXCEPT ![20] = af] :
            af \in N(20), las \in N(1), pm \in N(2), lg \in N(8), ra \in N(9), re \in N(15), rg \in N(16), ly \in N(17), od \in N(18)}

VARIABLES pick, cfg, open, res
vars == <<pick, cfg, open, res>>
None == [done |-> FALSE]

Init == pick \in PoolPicks /\ cfg = CfgOf(pick) /\ open = OpenOf(pick) /\ res = None
Negotiate ==
  /\ ~res.done
  /\ LET c == cfg  o == open
     IN res' = [done |-> TRUE, out |-> M_Outcome(c, o), hold |-> M_Hold(c, o), ka |-> M_Ka(c, o),
                ticker |-> M_Ticker(c, o), neg |-> M_Neg(c, o), two |-> M_TwoByte(c, o),
                ext |-> M_Ext(c, o), ptype |-> M_PeerType(c, o), sent |-> M_Open(c)]
  /\ UNCHANGED <<pick, cfg, open>>
Next == Negotiate
Spec == Init /\ [][Next]_vars

C == cfg
O == open
Ok == res.done /\ res.out = <<0, 0>>

(* the generator only produces OPENs whose 4-octet capabilities agree *)
D_WellFormed == WellFormedAS(O)
(* mechanism inside the property layer *)
D_Outcome == res.done => IF Accepts(C, O) THEN res.out = <<0, 0>> ELSE res.out \in RefuseReasons(C, O)
D_Hold == Ok => res.hold = Hold(C, O)
D_Keepalive == Ok => IF Hold(C, O) = 0 THEN res.ticker = 0 ELSE res.ticker \in KeepaliveAllowed(C, O)
D_Families == Ok => DOMAIN res.neg = Families(C, O)
D_AddPath == Ok => \A f \in DOMAIN res.neg :
                     /\ ApSendLower(C, O, f) => Bit(res.neg[f], 2)
                     /\ Bit(res.neg[f], 2) => ApSendUpper(C, O, f)
                     /\ ApRecvLower(C, O, f) => Bit(res.neg[f], 1)
                     /\ Bit(res.neg[f], 1) => ApRecvUpper(C, O, f)
D_FourOctet == Ok => res.two = ~FourOctet(C, O)
D_ExtMsg == Ok => res.ext = ExtMsg(C, O)
D_PeerType == Ok => res.ptype = PeerType(C, O)
D_OpenSent == res.done => OpenSentOK(C, res.sent)
(* sanity of the property layer itself *)
D_Sane ==
  /\ Families(C, O) \subseteq LFams(C)
  /\ \A f \in {"v4", "v6", "vpn4", "v4mc"} :
       /\ ApSendLower(C, O, f) => ApSendUpper(C, O, f)
       /\ ApRecvLower(C, O, f) => ApRecvUpper(C, O, f)
       /\ ApSendUpper(C, O, f) => f \in Families(C, O)
  /\ Hold(C, O) <= LHold(C) /\ Hold(C, O) <= O.hold
  /\ (Hold(C, O) > 0) => KeepaliveAllowed(C, O) # {}
  /\ \A k \in KeepaliveAllowed(C, O) : k >= 1 /\ (Hold(C, O) # LHold(C) => k <= Max(1, Hold(C, O) \div 3))
=============================================================================
