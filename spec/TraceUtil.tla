---------------------------- MODULE TraceUtil ----------------------------
(* Shared plumbing of the trace specifications.
   A trace file is ndjson; every line is an object with field "ev". Traces are concatenated;
   each starts with a line {"ev":"Reset",...}.
   Acceptance: high-water mark of consumed lines (register 1), checked by POSTCONDITION. *)
EXTENDS Naturals, Sequences, FiniteSets, TLC, Json

Trace == ndJsonDeserialize("trace.ndjson")
TLen  == Len(Trace)

ASSUME TLCSet(1, 0)
ASSUME TLCSet(2, {})

(* register 2 collects the DISTINCT non-trivial cases met while validating (for the evidence) *)
NoteIf(cond, x) == IF cond THEN TLCSet(2, TLCGet(2) \cup {x}) ELSE TRUE

(* used as CONSTRAINT: records the highest line index consumed so far *)
Hwm(l) == (IF l > TLCGet(1) THEN TLCSet(1, l) ELSE TRUE)

(* POSTCONDITION body: all lines consumed (l = TLen + 1 reached) *)
Accepted == IF TLCGet(1) = TLen + 1
            THEN PrintT("VPOUT " \o ToJson([nontrivial |-> [n |-> Cardinality(TLCGet(2))]]))
            ELSE PrintT("VPHWM " \o ToString(TLCGet(1))) /\ FALSE

Has(rec, f) == f \in DOMAIN rec
SeqToSet(s) == {s[i] : i \in 1..Len(s)}
=============================================================================
