------------------------------- MODULE Framing -------------------------------
(* An INDEPENDENT READER of the BGP framing rules over a sequence of octets (a TLA+ sequence of
   0..255).  It knows nothing about values: only where every length field lives, what it
   delimits and whether the delimited elements nest.  Sources transcribed:
     RFC 4271 4.1 (header: marker, length 19..4096, type), 4.2 (OPEN, optional parameters),
              4.3 (UPDATE: withdrawn routes length, total path attribute length, NLRI tail;
                   attribute flags / extended-length bit / type / length; <length, prefix>),
              4.5 (NOTIFICATION), 6.1 / 6.3 (length errors);
     RFC 5492 4 (capability TLVs inside optional parameter 2);
     RFC 4760 3,4 (MP_REACH_NLRI: AFI, SAFI, next-hop length, next hop, reserved, NLRI;
                   MP_UNREACH_NLRI: AFI, SAFI, withdrawn NLRI);
     RFC 7911 3 (ADD-PATH: 4-octet path identifier in front of every NLRI element);
     RFC 8654 4,6 (extended message: 65535 for UPDATE/NOTIFICATION/ROUTE-REFRESH only);
     RFC 8277 2 / RFC 4364 4.3.4 (labelled / VPN NLRI: the length octet counts labels (+RD) too);
     RFC 4684 4 (RTC), RFC 5512 3 (ENCAP), RFC 9830 2.1 (SR policy): <length in bits, value>;
     RFC 7432 7 (EVPN: type, length octet), RFC 4761 3.2.2 (VPLS: 2-octet length),
     RFC 8955 4.1 (FlowSpec: 1-octet length < 240, else 2 octets 0xfnnn),
     RFC 7752 3.2 (BGP-LS: 2-octet type, 2-octet length), draft-mpmz-bess-mup-safi 3.1 (MUP:
     architecture type, 2-octet route type, length octet); gobgp's private opaque family is one
     element per attribute (2-octet key length, key, value = rest).
     RFC 6793 3 / RFC 4271 4.3 (AS_PATH segments: type, count, count * 2|4 octets),
     RFC 9012 2 (tunnel encapsulation TLV: 2-octet type, 2-octet length), RFC 8669 3 (prefix
     SID TLV: type, 2-octet length), RFC 7311 3 (AIGP TLV: type, 2-octet length INCLUDING the
     3 header octets), RFC 7752 3.3 (BGP-LS attribute TLVs).
   Offsets are 0-based: the octet at offset o is b[o+1]; an element occupies [o, o+n). *)
EXTENDS Integers, Sequences, FiniteSets, TLC

B(b, o)      == b[o + 1]
U16(b, o)    == b[o + 1] * 256 + b[o + 2]
Ceil8(n)     == (n + 7) \div 8
HasBit(x, v) == (x \div v) % 2 = 1                 \* v is a power of two
Min(a, c)    == IF a < c THEN a ELSE c

HDR == 19

(* RFC 4271 4.1 + RFC 8654 4/6: per-type size cap with and without Extended Message *)
MaxMsgLen(type, ext) == IF ext /\ type \in {2, 3, 5} THEN 65535 ELSE 4096
(* RFC 4271 4.2-4.5, RFC 2918 3: minimum length per type *)
MinMsgLen(type) == CASE type = 1 -> 29 [] type = 2 -> 23 [] type = 3 -> 21
                     [] type = 5 -> 23 [] OTHER -> 19

MarkerOk(b) == \A i \in 1..16 : b[i] = 255

(* header of the message that starts at offset 0 of b *)
ParseHeader(b, ext) ==
  IF Len(b) < HDR THEN [ok |-> FALSE, len |-> 0, type |-> 0, have |-> FALSE]
  ELSE LET ln == U16(b, 16)
           ty == B(b, 18)
       IN [ok   |-> /\ MarkerOk(b) /\ ty \in 1..5
                    /\ ln >= MinMsgLen(ty) /\ ln <= MaxMsgLen(ty, ext)
                    /\ (ty = 4 => ln = 19),
           len  |-> ln, type |-> ty, have |-> TRUE]

----------------------------------------------------------------------------
(* Outer length rule of one element kind.  k is the kind, pre the number of octets in front of
   the element proper (4 when an ADD-PATH identifier precedes it).  LenField gives position and
   width of the length field, ElemLen the total extent (pre included) or -1 when the length
   field itself does not fit into [o, to). *)
LenField(k, pre, b, o) ==
  LET p == o + pre IN
  CASE k = "attr"   -> [o |-> o + 2, w |-> IF HasBit(B(b, o), 16) THEN 2 ELSE 1]
    [] k = "bits"   -> [o |-> p, w |-> 1]
    [] k = "t1l1"   -> [o |-> p + 1, w |-> 1]
    [] k = "seg2"   -> [o |-> p + 1, w |-> 1]
    [] k = "seg4"   -> [o |-> p + 1, w |-> 1]
    [] k = "l2"     -> [o |-> p, w |-> 2]
    [] k = "t2l2"   -> [o |-> p + 2, w |-> 2]
    [] k = "t1l2"   -> [o |-> p + 1, w |-> 2]
    [] k = "aigp"   -> [o |-> p + 1, w |-> 2]
    [] k = "mup"    -> [o |-> p + 3, w |-> 1]
    [] k = "fs"     -> [o |-> p, w |-> IF B(b, p) >= 240 THEN 2 ELSE 1]
    [] k = "rest"   -> [o |-> p, w |-> 2]

(* number of octets that must be present to read the length field of an element at o *)
HeadLen(k, pre, b, o, to) ==
  CASE k = "attr" -> IF o + 1 <= to /\ HasBit(B(b, o), 16) THEN 4 ELSE 3
    [] k = "fs"   -> IF o + pre + 1 <= to /\ B(b, o + pre) >= 240 THEN pre + 2 ELSE pre + 1
    [] k = "bits" -> pre + 1
    [] k \in {"t1l1", "seg2", "seg4", "l2", "rest"} -> pre + 2
    [] k \in {"t1l2", "aigp"} -> pre + 3
    [] k \in {"t2l2", "mup"}  -> pre + 4

ElemLen(k, pre, b, o, to) ==
  IF o + HeadLen(k, pre, b, o, to) > to THEN -1
  ELSE LET p == o + pre IN
    CASE k = "attr" -> IF HasBit(B(b, o), 16) THEN 4 + U16(b, o + 2) ELSE 3 + B(b, o + 2)
      [] k = "bits" -> pre + 1 + Ceil8(B(b, p))
      [] k = "t1l1" -> pre + 2 + B(b, p + 1)
      [] k = "seg2" -> pre + 2 + 2 * B(b, p + 1)
      [] k = "seg4" -> pre + 2 + 4 * B(b, p + 1)
      [] k = "l2"   -> pre + 2 + U16(b, p)
      [] k = "t2l2" -> pre + 4 + U16(b, p + 2)
      [] k = "t1l2" -> pre + 3 + U16(b, p + 1)
      [] k = "aigp" -> pre + (IF U16(b, p + 1) < 3 THEN 3 ELSE U16(b, p + 1))
      [] k = "mup"  -> pre + 4 + B(b, p + 3)
      [] k = "fs"   -> IF B(b, p) >= 240 THEN pre + 2 + (U16(b, p) - 61440) ELSE pre + 1 + B(b, p)
      [] k = "rest" -> IF pre + 2 + U16(b, p) > to - o THEN pre + 2 + U16(b, p) ELSE to - o

(* Tile the container [o, to) with elements of kind k.
   ok    : the elements fill the container exactly;
   over  : the last element's declared extent passes the end of the container;
   trunc : fewer octets are left than the length field of the next element needs.
   The recursion is cut into chunks of 64 elements (WalkN inside a chunk, WalkChunks across
   chunks) so that its depth stays in the hundreds for a 65535-octet message of one-octet
   elements: TLC's evaluation time grows steeply with the Java stack depth. *)
RECURSIVE WalkN(_, _, _, _, _, _)
WalkN(k, pre, b, o, to, cnt) ==
  IF o >= to THEN [els |-> <<>>, next |-> o, st |-> IF o = to THEN "end" ELSE "past"]
  ELSE IF cnt = 0 THEN [els |-> <<>>, next |-> o, st |-> "more"]
  ELSE LET n == ElemLen(k, pre, b, o, to) IN
       IF n < 0 THEN [els |-> <<>>, next |-> o, st |-> "trunc"]
       ELSE IF o + n > to
            THEN [els |-> <<[o |-> o, n |-> n]>>, next |-> o, st |-> "over"]
            ELSE LET r == WalkN(k, pre, b, o + n, to, cnt - 1)
                 IN [r EXCEPT !.els = <<[o |-> o, n |-> n]>> \o @]

RECURSIVE WalkChunks(_, _, _, _, _)
WalkChunks(k, pre, b, o, to) ==
  LET c == WalkN(k, pre, b, o, to, 64) IN
  IF c.st # "more" THEN c
  ELSE LET r == WalkChunks(k, pre, b, c.next, to) IN [r EXCEPT !.els = c.els \o @]

Walk(k, pre, b, o, to) ==
  LET c == WalkChunks(k, pre, b, o, to)
  IN [els |-> c.els, ok |-> c.st = "end", over |-> c.st = "over", trunc |-> c.st = "trunc"]

NoWalk == [els |-> <<>>, ok |-> TRUE, over |-> FALSE, trunc |-> FALSE]

----------------------------------------------------------------------------
(* families: outer rule by (AFI, SAFI); "none" = not known to this reader (opaque, no claim) *)
NlriKind(afi, safi) ==
  CASE afi \in {1, 2} /\ safi \in {1, 2, 4, 128, 129} -> "bits"
    [] afi = 1 /\ safi = 132                           -> "bits"     \* RTC
    [] afi \in {1, 2} /\ safi = 7                      -> "bits"     \* ENCAP
    [] afi \in {1, 2} /\ safi = 73                     -> "bits"     \* SR policy
    [] afi = 25 /\ safi = 70                           -> "t1l1"     \* EVPN
    [] afi = 25 /\ safi = 65                           -> "l2"       \* VPLS
    [] afi \in {1, 2, 25} /\ safi \in {133, 134}       -> "fs"       \* FlowSpec
    [] afi = 16388 /\ safi = 71                        -> "t2l2"     \* BGP-LS
    [] afi \in {1, 2} /\ safi = 85                     -> "mup"      \* MUP
    [] afi = 16397 /\ safi = 241                       -> "rest"     \* gobgp opaque
    [] OTHER                                           -> "none"

(* largest meaningful prefix-length octet for the core families (RFC 4271 6.3 "invalid network
   field"); 255 = no bound claimed *)
MaxBits(afi, safi) ==
  LET a == IF afi = 1 THEN 32 ELSE 128 IN
  CASE safi \in {1, 2} -> a
    [] OTHER -> 255

(* session options that change the wire grammar: ext (RFC 8654), as2 (2-octet AS_PATH),
   ap4 (ADD-PATH for IPv4 unicast = the body NLRI fields), apmp (ADD-PATH for every other family) *)
Pre(afi, safi, opts) == IF (IF afi = 1 /\ safi = 1 THEN opts.ap4 ELSE opts.apmp) THEN 4 ELSE 0

----------------------------------------------------------------------------
(* one path attribute element e = [o, n] of b: its header and, for the types whose value is
   itself a list of length-delimited elements, the inner tiling *)
AttrExt(b, e)   == HasBit(B(b, e.o), 16)
AttrType(b, e)  == B(b, e.o + 1)
AttrHdr(b, e)   == IF AttrExt(b, e) THEN 4 ELSE 3
AttrVFrom(b, e) == e.o + AttrHdr(b, e)
AttrVTo(b, e)   == e.o + e.n
AttrVLen(b, e)  == e.n - AttrHdr(b, e)

NoInner == [k |-> "none", ok |-> TRUE, over |-> FALSE, trunc |-> FALSE, ek |-> "none", pre |-> 0,
            afi |-> 0, safi |-> 0, nhl |-> 0, w |-> NoWalk, nfrom |-> 0]

AttrInner(b, e, opts) ==
  LET t  == AttrType(b, e)
      vf == AttrVFrom(b, e)
      vt == AttrVTo(b, e)
      Tlv(k, ek) == LET w == Walk(ek, 0, b, vf, vt)
                    IN [NoInner EXCEPT !.k = k, !.ek = ek, !.w = w, !.ok = w.ok, !.over = w.over,
                                       !.trunc = w.trunc, !.nfrom = vf]
  IN CASE t = 2  -> Tlv("segs", IF opts.as2 THEN "seg2" ELSE "seg4")
       [] t = 17 -> Tlv("segs", "seg4")
       [] t = 23 -> Tlv("tlvs", "t2l2")
       [] t = 29 -> Tlv("tlvs", "t2l2")
       [] t = 40 -> Tlv("tlvs", "t1l2")
       [] t = 26 -> Tlv("tlvs", "aigp")
       [] t = 14 ->
            IF vt - vf < 5 THEN [NoInner EXCEPT !.k = "mp", !.ok = FALSE, !.trunc = TRUE]
            ELSE LET afi  == U16(b, vf)
                     safi == B(b, vf + 2)
                     nhl  == B(b, vf + 3)
                     nf   == vf + 4 + nhl + 1           \* next hop, then one reserved octet
                     ek   == NlriKind(afi, safi)
                     pre  == Pre(afi, safi, opts)
                 IN IF nf > vt
                    THEN [NoInner EXCEPT !.k = "mp", !.ok = FALSE, !.over = TRUE, !.afi = afi,
                                         !.safi = safi, !.nhl = nhl, !.ek = ek, !.pre = pre, !.nfrom = nf]
                    ELSE LET w == IF ek = "none" THEN NoWalk ELSE Walk(ek, pre, b, nf, vt)
                         IN [NoInner EXCEPT !.k = "mp", !.ok = w.ok, !.over = w.over, !.trunc = w.trunc,
                                            !.afi = afi, !.safi = safi, !.nhl = nhl, !.ek = ek,
                                            !.pre = pre, !.w = w, !.nfrom = nf]
       [] t = 15 ->
            IF vt - vf < 3 THEN [NoInner EXCEPT !.k = "mpun", !.ok = FALSE, !.trunc = TRUE]
            ELSE LET afi  == U16(b, vf)
                     safi == B(b, vf + 2)
                     ek   == NlriKind(afi, safi)
                     pre  == Pre(afi, safi, opts)
                     w    == IF ek = "none" THEN NoWalk ELSE Walk(ek, pre, b, vf + 3, vt)
                 IN [NoInner EXCEPT !.k = "mpun", !.ok = w.ok, !.over = w.over, !.trunc = w.trunc,
                                    !.afi = afi, !.safi = safi, !.ek = ek, !.pre = pre, !.w = w,
                                    !.nfrom = vf + 3]
       [] OTHER -> NoInner

----------------------------------------------------------------------------
(* UPDATE body in [from, to) *)
ReadUpdate(b, from, to, opts) ==
  LET none == [t |-> "update", ok |-> FALSE, over |-> FALSE, wl |-> 0, al |-> 0, wdTo |-> from,
               aFrom |-> from, aTo |-> from, wd |-> NoWalk, attrs |-> NoWalk, nlri |-> NoWalk,
               inner |-> <<>>]
  IN IF to - from < 2 THEN none
     ELSE LET wl   == U16(b, from)
              wdTo == from + 2 + wl
          IN IF wdTo + 2 > to      \* RFC 4271 6.3: no room left for the total-attribute-length field
             THEN [none EXCEPT !.over = TRUE, !.wl = wl, !.wdTo = wdTo]
             ELSE LET al    == U16(b, wdTo)
                      aFrom == wdTo + 2
                      aTo   == aFrom + al
                      pre4  == Pre(1, 1, opts)
                      wd    == Walk("bits", pre4, b, from + 2, wdTo)
                  IN IF aTo > to
                     THEN [none EXCEPT !.over = TRUE, !.wl = wl, !.wdTo = wdTo, !.al = al,
                                       !.aFrom = aFrom, !.aTo = aTo, !.wd = wd]
                     ELSE LET attrs == Walk("attr", 0, b, aFrom, aTo)
                              nlri  == Walk("bits", pre4, b, aTo, to)
                              inner == [i \in 1..Len(attrs.els) |->
                                          IF attrs.els[i].o + attrs.els[i].n <= aTo
                                          THEN AttrInner(b, attrs.els[i], opts) ELSE NoInner]
                          IN [t |-> "update",
                              ok |-> /\ wd.ok /\ attrs.ok /\ nlri.ok
                                     /\ \A i \in 1..Len(inner) : inner[i].ok,
                              over |-> \/ wd.over \/ attrs.over \/ nlri.over
                                       \/ \E i \in 1..Len(inner) : inner[i].over,
                              wl |-> wl, al |-> al, wdTo |-> wdTo, aFrom |-> aFrom, aTo |-> aTo,
                              wd |-> wd, attrs |-> attrs, nlri |-> nlri, inner |-> inner]

(* OPEN body in [from, to): 10 fixed octets, optional parameters, capability TLVs in parameter 2 *)
(* INNER length fields of a capability value (c = [o, n] the capability TLV, value in [c.o+2, c.o+c.n)):
     FQDN (73, draft-walton-bgp-hostname-capability 2): host length, host name, domain length, domain name;
     software version (75, draft-abraitis-bgp-version-capability 2): version length, version.
   The other capabilities (multiprotocol, extended next hop, graceful restart, long-lived GR, ADD-PATH)
   are fixed-size tuples: their only length is the TLV length itself.
   CapInner gives the inner fields that lie inside the value, whether one of them declares octets
   beyond the end of the value (over) and whether the value is tiled exactly (ok). *)
CapInner(b, c) ==
  LET code == B(b, c.o)
      vf   == c.o + 2
      vt   == c.o + c.n
      none == [fields |-> <<>>, over |-> FALSE, ok |-> TRUE]
  IN CASE code = 73 ->
            IF vt - vf < 1 THEN [none EXCEPT !.ok = FALSE]
            ELSE LET hl == B(b, vf)
                     df == vf + 1 + hl                   \* offset of the domain-length octet
                 IN IF df + 1 > vt THEN [fields |-> <<vf>>, over |-> TRUE, ok |-> FALSE]
                    ELSE LET dl == B(b, df)
                         IN [fields |-> <<vf, df>>, over |-> df + 1 + dl > vt, ok |-> df + 1 + dl = vt]
       [] code = 75 ->
            IF vt - vf < 1 THEN [none EXCEPT !.ok = FALSE]
            ELSE [fields |-> <<vf>>, over |-> vf + 1 + B(b, vf) > vt, ok |-> vf + 1 + B(b, vf) = vt]
       [] OTHER -> none
CapsInner(b, w, lim) ==      \* over / ok of the capabilities of one parameter that lie inside it
  [over |-> \E j \in 1..Len(w.els) : w.els[j].o + w.els[j].n <= lim /\ CapInner(b, w.els[j]).over,
   ok   |-> \A j \in 1..Len(w.els) : w.els[j].o + w.els[j].n <= lim => CapInner(b, w.els[j]).ok]

ReadOpen(b, from, to) ==
  LET none == [t |-> "open", ok |-> FALSE, over |-> FALSE, ol |-> 0, pFrom |-> from, pTo |-> from,
               params |-> NoWalk, caps |-> <<>>]
  IN IF to - from < 10 THEN none
     ELSE LET ol    == B(b, from + 9)
              pFrom == from + 10
              pTo   == pFrom + ol
          IN IF pTo > to THEN [none EXCEPT !.over = TRUE, !.ol = ol, !.pFrom = pFrom, !.pTo = pTo]
             ELSE LET params == Walk("t1l1", 0, b, pFrom, pTo)
                      caps   == [i \in 1..Len(params.els) |->
                                   LET p == params.els[i] IN
                                   IF p.o + p.n <= pTo /\ B(b, p.o) = 2
                                   THEN Walk("t1l1", 0, b, p.o + 2, p.o + p.n) ELSE NoWalk]
                  IN [t |-> "open",
                      ok |-> /\ pTo = to /\ params.ok
                             /\ \A i \in 1..Len(caps) : caps[i].ok /\ CapsInner(b, caps[i], pTo).ok,
                      over |-> \/ params.over
                               \/ \E i \in 1..Len(caps) : caps[i].over \/ CapsInner(b, caps[i], pTo).over,
                      ol |-> ol, pFrom |-> pFrom, pTo |-> pTo, params |-> params, caps |-> caps]

NoBody == [t |-> "none", ok |-> TRUE, over |-> FALSE]

(* the whole message that starts at offset 0 of b, read under opts *)
ReadMsg(b, opts) ==
  LET h == ParseHeader(b, opts.ext) IN
  IF ~h.have \/ h.len < HDR \/ ~MarkerOk(b) THEN [hdr |-> h, body |-> NoBody, end |-> Len(b)]
  ELSE LET end == Min(h.len, Len(b)) IN
       [hdr  |-> h, end |-> end,
        body |-> CASE h.type = 2 -> ReadUpdate(b, HDR, end, opts)
                   [] h.type = 1 -> ReadOpen(b, HDR, end)
                   [] OTHER      -> NoBody]

(* every length field of an emitted message delimits exactly what follows, at every level *)
(* CANONICAL use of the Extended Length bit (only when the value needs it).  RFC 4271 4.3 does not
   require it - both header forms are well-formed for a short value, and the reader handles both -
   so this is not part of WellFormedR; the trace spec demands it of the attributes for which the
   shape did not ask for the extended form (C04_ExtFlag). *)
AttrFlagsConsistent(b, r) ==
  r.body.t = "update" =>
    \A i \in 1..Len(r.body.attrs.els) :
      LET e == r.body.attrs.els[i] IN AttrExt(b, e) <=> (AttrVLen(b, e) > 255)

PrefixBitsOk(b, r, opts) ==
  r.body.t = "update" =>
    /\ \A e \in {r.body.wd.els[i] : i \in 1..Len(r.body.wd.els)} \cup
                {r.body.nlri.els[i] : i \in 1..Len(r.body.nlri.els)} :
           B(b, e.o + Pre(1, 1, opts)) <= 32
    /\ \A i \in 1..Len(r.body.inner) :
         LET x == r.body.inner[i] IN
         (x.k \in {"mp", "mpun"} /\ x.ek = "bits") =>
            \A j \in 1..Len(x.w.els) : B(b, x.w.els[j].o + x.pre) <= MaxBits(x.afi, x.safi)

(* MP_REACH_NLRI next-hop field (RFC 4760 3 "Length of Next Hop Network Address"): the lengths the
   address-family documents allow.
     unicast / multicast / labelled (SAFI 1, 2, 4): one IPv4 address (4), one IPv6 address (16) or IPv6
       global + link-local (32) - RFC 4760, RFC 2545 3, RFC 8277 / RFC 4798, and RFC 8950 3 for an IPv6
       next hop in front of IPv4 NLRI;
     MPLS VPN (SAFI 128): every address is a VPN address = 8-octet zero RD + address: 12 (RFC 4364 4.3.2),
       24 or 48 = (RD + global) + (RD + link-local) (RFC 4659 3.2.1.1, RFC 8950 3 for VPN-IPv4);
     SAFI 129 (multicast in VPNs): both forms are met in the field, either accepted;
     FlowSpec (133, 134): no next hop is needed (RFC 8955 4), 0 or an address;
     any other family: no claim. *)
NhLens(afi, safi) ==
  CASE afi \in {1, 2} /\ safi \in {1, 2, 4} -> {4, 16, 32}
    [] afi \in {1, 2} /\ safi = 128        -> {12, 24, 48}
    [] afi \in {1, 2} /\ safi = 129        -> {4, 16, 32, 12, 24, 48}
    [] safi \in {133, 134}                  -> {0, 4, 16, 32}
    [] OTHER                                 -> 0..255
NextHopLenOk(r) ==
  r.body.t = "update" =>
    \A i \in 1..Len(r.body.inner) :
       r.body.inner[i].k = "mp" => r.body.inner[i].nhl \in NhLens(r.body.inner[i].afi, r.body.inner[i].safi)

WellFormedR(b, r, opts) ==
  /\ r.hdr.ok
  /\ r.hdr.len = Len(b)
  /\ r.body.ok
  /\ PrefixBitsOk(b, r, opts)
  /\ NextHopLenOk(r)

WellFormed(b, opts) == WellFormedR(b, ReadMsg(b, opts), opts)

(* some declared length reaches past the end of its container (at any level), or the message
   declares more octets than there are *)
OverrunR(b, r) ==
  \/ (r.hdr.have /\ MarkerOk(b) /\ r.hdr.len > Len(b))
  \/ r.body.over

Overrun(b, opts) == OverrunR(b, ReadMsg(b, opts))

----------------------------------------------------------------------------
(* stand-alone sub-element entry points (C05): the octets handed to a per-attribute, per-NLRI or
   per-capability decoder; "over" = the element's own declared extent (or an inner one) passes
   the end of the slice *)
AttrSliceOver(b, opts) ==
  LET n == ElemLen("attr", 0, b, 0, Len(b)) IN
  IF n < 0 THEN FALSE
  ELSE IF n > Len(b) THEN TRUE
  ELSE AttrInner(b, [o |-> 0, n |-> n], opts).over

NlriSliceOver(afi, safi, b) ==
  LET k == NlriKind(afi, safi) IN
  IF k = "none" THEN FALSE
  ELSE LET n == ElemLen(k, 0, b, 0, Len(b)) IN n >= 0 /\ n > Len(b)

CapSliceOver(b) ==
  LET n == ElemLen("t1l1", 0, b, 0, Len(b)) IN
  n >= 0 /\ (n > Len(b) \/ CapInner(b, [o |-> 0, n |-> n]).over)

----------------------------------------------------------------------------
(* All length fields of a message, for the mutation space of C05.  A field is
   [f: name, u: unit ("bits" for <length in bits, value> elements, else "oct"), o: offset,
    w: width, cur: value, sub: entry slices [e, from, to, afi, safi] of the
   sub-elements that contain it (what a per-attribute / per-NLRI / per-capability decoder is
   handed)]. *)
FieldAtU(name, u, b, o, w, sub) ==
  [f |-> name, u |-> u, o |-> o, w |-> w, cur |-> IF w = 1 THEN B(b, o) ELSE U16(b, o), sub |-> sub]
FieldAt(name, b, o, w, sub) == FieldAtU(name, "oct", b, o, w, sub)

SeqOfSeqs(ss) ==      \* flatten a sequence of sequences
  LET RECURSIVE F(_)
      F(i) == IF i > Len(ss) THEN <<>> ELSE ss[i] \o F(i + 1)
  IN F(1)

WalkFields(name, k, pre, b, w, sub(_)) ==
  [j \in 1..Len(w.els) |->
     LET lf == LenField(k, pre, b, w.els[j].o)
     IN FieldAtU(name, IF k = "bits" THEN "bits" ELSE "oct", b, lf.o, lf.w, sub(w.els[j]))]

Slice(kind, from, to, afi, safi) == [e |-> kind, from |-> from, to |-> to, afi |-> afi, safi |-> safi]

UpdateFields(b, r, opts) ==
  LET u     == r.body
      end   == r.end
      pre4  == Pre(1, 1, opts)
      nsub4(e) == <<Slice("nlri", e.o + pre4, Min(e.o + e.n, end), 1, 1)>>
      asub(a)  == Slice("attr", a.o, Min(a.o + a.n, end), 0, 0)
      top   == (IF end - HDR >= 2 THEN <<FieldAt("wdlen", b, HDR, 2, <<>>)>> ELSE <<>>) \o
               (IF u.wdTo + 2 <= end /\ u.wdTo > HDR THEN <<FieldAt("alen", b, u.wdTo, 2, <<>>)>> ELSE <<>>)
      attrF == [i \in 1..Len(u.attrs.els) |->
                  LET a  == u.attrs.els[i]
                      lf == LenField("attr", 0, b, a.o)
                      x  == IF i <= Len(u.inner) THEN u.inner[i] ELSE NoInner
                      isub(e) == <<asub(a)>> \o
                                 (IF x.k \in {"mp", "mpun"}
                                  THEN <<Slice("nlri", e.o + x.pre, Min(e.o + e.n, end), x.afi, x.safi)>>
                                  ELSE <<>>)
                  IN <<FieldAt("attrlen", b, lf.o, lf.w, <<asub(a)>>),
                       FieldAt("attrflags", b, a.o, 1, <<asub(a)>>)>> \o
                     (IF x.k = "mp" /\ a.n - AttrHdr(b, a) >= 5
                      THEN <<FieldAt("mpnhlen", b, AttrVFrom(b, a) + 3, 1, <<asub(a)>>)>> ELSE <<>>) \o
                     (IF x.k = "none" \/ x.ek = "none" THEN <<>>
                      ELSE WalkFields(IF x.k = "segs" THEN "seglen"
                                      ELSE IF x.k = "tlvs" THEN "tlvlen" ELSE "mpnlri",
                                      x.ek, x.pre, b, x.w, isub))]
  IN top
     \o WalkFields("wd", "bits", pre4, b, u.wd, nsub4)
     \o SeqOfSeqs(attrF)
     \o WalkFields("nlri", "bits", pre4, b, u.nlri, nsub4)

OpenFields(b, r) ==
  LET u   == r.body
      end == r.end
      nosub(e) == <<>>
      csub(c)  == <<Slice("cap", c.o, Min(c.o + c.n, end), 0, 0)>>
  IN (IF end - HDR >= 10 THEN <<FieldAt("optlen", b, HDR + 9, 1, <<>>)>> ELSE <<>>)
     \o WalkFields("paramlen", "t1l1", 0, b, u.params, nosub)
     \o SeqOfSeqs([i \in 1..Len(u.caps) |-> WalkFields("caplen", "t1l1", 0, b, u.caps[i], csub)])
     \o SeqOfSeqs([i \in 1..Len(u.caps) |->
           SeqOfSeqs([j \in 1..Len(u.caps[i].els) |->
              LET c == u.caps[i].els[j] IN
              IF c.o + c.n > end THEN <<>>
              ELSE LET fs == CapInner(b, c).fields
                   IN [k \in 1..Len(fs) |-> FieldAt("capinner", b, fs[k], 1, csub(c))]])])

(* every length field of the message, header length first *)
Fields(b, opts) ==
  LET r == ReadMsg(b, opts) IN
  (IF r.hdr.have THEN <<FieldAt("hdrlen", b, 16, 2, <<>>)>> ELSE <<>>) \o
  (CASE r.body.t = "update" -> UpdateFields(b, r, opts)
     [] r.body.t = "open"   -> OpenFields(b, r)
     [] OTHER               -> <<>>)

----------------------------------------------------------------------------
(* the mutations of one length field (C05): value -1, +1, 0, maximum, an explicit value, flipping
   the extended-length bit of an attribute, and cutting the message right behind the field
   (header length adjusted so that the cut message is still one complete message) *)
FieldMax(w) == IF w = 1 THEN 255 ELSE 65535

SetField(b, o, w, v) ==
  [i \in 1..Len(b) |->
     IF w = 1 THEN (IF i = o + 1 THEN v ELSE b[i])
     ELSE IF i = o + 1 THEN v \div 256 ELSE IF i = o + 2 THEN v % 256 ELSE b[i]]

MutApplicable(fld, m) ==
  CASE m = "dec"     -> fld.f # "attrflags" /\ fld.cur > 0
    [] m = "inc"     -> fld.f # "attrflags" /\ fld.cur < FieldMax(fld.w)
    [] m = "zero"    -> fld.f # "attrflags" /\ fld.cur > 1
    [] m = "max"     -> fld.f # "attrflags" /\ fld.cur < FieldMax(fld.w) - 1
    [] m = "flipext" -> fld.f = "attrflags"
    [] m = "trunc"   -> fld.f \notin {"attrflags", "hdrlen"}
    [] OTHER         -> FALSE

MutValue(fld, m) ==
  CASE m = "dec"     -> fld.cur - 1
    [] m = "inc"     -> fld.cur + 1
    [] m = "zero"    -> 0
    [] m = "max"     -> FieldMax(fld.w)
    [] m = "flipext" -> IF HasBit(fld.cur, 16) THEN fld.cur - 16 ELSE fld.cur + 16
    [] OTHER         -> fld.cur

(* mut = [o, w, m, v] *)
ApplyMut(b, mut) ==
  IF mut.m = "trunc"
  THEN SetField(SubSeq(b, 1, mut.o + mut.w), 16, 2, mut.o + mut.w)
  ELSE IF mut.m = "none" THEN b
  ELSE SetField(b, mut.o, mut.w, mut.v)
=============================================================================
