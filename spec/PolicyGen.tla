---------------------------- MODULE PolicyGen ----------------------------
(* Behaviour generator for C10: the policy program is BUILT BY THE BEHAVIOUR (config actions of the
   public API, chosen at random among the currently valid ones) and interleaved with Evaluate
   events on random routes.  Run with -simulate, -depth MaxSteps+1; one JSON schedule per behaviour
   is printed when MaxSteps steps have been taken.

   Random choices are always bound through a singleton set (\E x \in {RandomElement(S)}) or drawn
   as ONE RandomElement from a pool of complete records, so that the op recorded in `hist` is the
   op applied to P. *)
EXTENDS Policy, Json, Randomization

CONSTANTS MaxSteps,      \* steps per behaviour
          EvalWeight,    \* copies of the Evaluate disjunct (0: configuration only - read-back runs)
          RbEvery,       \* TRUE: the harness reads everything back after every config step
          Avoid          \* input shapes not to generate (kept for future findings; NoAvoid today)

VARIABLES P, hist, done
gvars == <<P, hist, done>>

NoAvoid == {}     \* the findings whose input shapes used to be excluded here are repaired: nothing is avoided

Pick(S) == {RandomElement(S)}
Min2(a, b) == IF a < b THEN a ELSE b
SomeOf(S, n) == {RandomSubset(Min2(n, Cardinality(S)), S)}        \* singleton set holding one subset

---------------------------------------------------------------------------
(* pools of complete records *)
ExistingSets(k) == {n \in DOMAIN P.dsets : P.dsets[n].kind = k}

CondPool(k) ==
  CASE k \in {"prefix", "neighbor"} ->
         {Cond(k, s, o, "", 0, {}) : s \in ExistingSets(k), o \in {"any", "invert"}}
    [] k \in {"aspath", "comm", "ext", "large"} ->
         {Cond(k, s, o, "", 0, {}) : s \in ExistingSets(k), o \in {"any", "all", "invert"}}
    [] k \in {"aslen", "commcount"} -> {Cond(k, "", "", o, n, {}) : o \in {"eq", "ge", "le"}, n \in 0..3}
    [] k = "origin"  -> {Cond(k, "", "", "", n, {}) : n \in 0..2}
    [] k = "rtype"   -> {Cond(k, "", t, "", 0, {}) : t \in RouteTypes}
    [] k = "rpki"    -> {Cond(k, "", t, "", 0, {}) : t \in RpkiStates}
    [] k = "afisafi" -> {Cond(k, "", "", "", 0, fs) : fs \in (SUBSET Families) \ {{}}}
    [] k = "nh"      -> {Cond(k, "", "", "", 0, hs) :
                           hs \in {{"192.0.2.1"}, {"192.0.2.2"}, {"192.0.2.1", "192.0.2.2"},
                                   {"2001:db8:ee::1"}, {"10.0.0.254", "192.0.2.2"}}}
AvailCondKinds == {k \in CondKinds : CondPool(k) # {}} \ (IF "apiorigin" \in Avoid THEN {"origin"} ELSE {})
AvailActKinds  == ActKinds \ (IF "apicommact" \in Avoid THEN {"ext", "large"} ELSE {})

SmallSubsets(S) == {T \in SUBSET S : Cardinality(T) \in {1, 2}}
ActPool(k) ==
  CASE k = "med"     -> {Act(k, m, n, 0, {}, "") : m \in {"set", "add", "sub"}, n \in {5, 10, 100}}
    [] k = "lp"      -> {Act(k, "", n, 0, {}, "") : n \in {50, 200}}
    [] k = "prepend" -> {Act(k, "as", a, r, {}, "") : a \in {65000, 65010}, r \in 1..2}
                        \cup {Act(k, "last-as", 0, r, {}, "") : r \in 1..2}
    [] k = "comm"    -> {Act(k, m, 0, 0, vs, "") : m \in {"add", "remove", "replace"}, vs \in SmallSubsets(Comms)}
    [] k = "ext"     -> {Act(k, m, 0, 0, vs, "") : m \in {"add", "remove", "replace"}, vs \in SmallSubsets(ExtComms)}
    [] k = "large"   -> {Act(k, m, 0, 0, vs, "") : m \in {"remove", "replace"} \cup (IF "largeadd" \in Avoid THEN {} ELSE {"add"}),
                                                      vs \in SmallSubsets(LargeComms)}
    [] k = "nh"      -> {Act(k, "addr", 0, 0, {}, a) : a \in NextHops4 \cup NextHops6}
                        \cup {Act(k, "self", 0, 0, {}, ""), Act(k, "unchanged", 0, 0, {}, "")}
    [] k = "origin"  -> {Act(k, "", n, 0, {}, "") : n \in 0..2}

RandConds(ks) == {RandomElement(CondPool(k)) : k \in ks}
RandActs(ks)  == {RandomElement(ActPool(k)) : k \in ks}

(* one random statement body over the given condition / action kinds *)
RandStmt(name, nc, na, disp) ==
  LET cks == RandomSubset(Min2(nc, Cardinality(AvailCondKinds)), AvailCondKinds)
      aks == RandomSubset(Min2(na, Cardinality(AvailActKinds)), AvailActKinds)
  IN Stmt(name, RandConds(cks), RandActs(aks), disp)

Disps == {"none", "none", "accept", "reject"}

---------------------------------------------------------------------------
Step(o) == /\ Valid(P, o)
           /\ hist' = Append(hist, o)
           /\ P' = Apply(P, o)
           /\ UNCHANGED done

GenAddSet ==
  \E kind \in Pick(SetKinds) : \E name \in Pick(SetNames(kind)) : \E rep \in Pick(BOOLEAN) :
  \E famsel \in Pick({"v4", "v4", "v6"}) : \E n \in Pick(1..3) :
    LET cur  == IF name \in DOMAIN P.dsets THEN P.dsets[name].members ELSE {}
        fam  == IF kind = "prefix" /\ cur # {} /\ ~rep THEN (CHOOSE e \in cur : TRUE).fam ELSE famsel
        pool == IF kind = "prefix" THEN {e \in PrefixEntries : e.fam = fam} ELSE MembersOf(kind)
        \* prefix-sets get 2..4 entries: the v4 pool is a chain of nested prefixes (/8 > /16 > /24, /17), so
        \* most sets hold nested entries with DIFFERENT mask-length ranges (a route admitted by a shorter
        \* covering entry but not by the longest one, and the other way round)
        k    == IF kind = "prefix" THEN n + 1 ELSE n
    IN /\ ("replace" \in Avoid /\ rep) => ~SetReferenced(P, name)
       /\ \E ms \in SomeOf(pool, k) :
            Step([op |-> "AddSet", kind |-> kind, name |-> name, members |-> ms, replace |-> rep])

GenDelSet ==
  /\ DOMAIN P.dsets # {}
  /\ \E name \in Pick(DOMAIN P.dsets) : \E all \in Pick(BOOLEAN) : \E n \in Pick(1..2) :
       LET kind == P.dsets[name].kind
           cur  == P.dsets[name].members
           pool == IF cur = {} THEN MembersOf(kind) ELSE cur
       IN /\ \E ms \in SomeOf(IF kind = "prefix" THEN {e \in pool : e.fam = (CHOOSE x \in pool : TRUE).fam} ELSE pool, n) :
               Step([op |-> "DelSet", kind |-> kind, name |-> name, members |-> ms, all |-> all])

GenAddStmt ==
  \E name \in Pick(StmtNames) : \E nc \in Pick(0..3) : \E na \in Pick(0..2) : \E d \in Pick({1, 2, 3, 4}) :
    LET disp == IF d = 3 THEN "accept" ELSE IF d = 4 THEN "reject" ELSE "none" IN
    IF name \in DOMAIN P.stmts
    THEN \* merge: only kinds that the statement does not have yet
         LET old == P.stmts[name]
             cks == AvailCondKinds \ {c.k : c \in old.conds}
             aks == AvailActKinds \ {a.k : a \in old.acts}
         IN \E cs \in SomeOf(cks, Min2(nc, 1)) : \E as \in SomeOf(aks, Min2(na, 1)) :
            \E body \in {Stmt(name, RandConds(cs), RandActs(as), IF old.disp = "none" THEN disp ELSE "none")} :
              /\ body.conds # {} \/ body.acts # {} \/ body.disp # "none"
              /\ Step([op |-> "AddStmt", stmt |-> body])
    ELSE \E body \in {RandStmt(name, nc, na, disp)} : Step([op |-> "AddStmt", stmt |-> body])

GenDelStmt ==
  /\ DOMAIN P.stmts # {}
  /\ \E name \in Pick(DOMAIN P.stmts) : \E all \in Pick(BOOLEAN) : \E n \in Pick(0..2) : \E m \in Pick(0..1) :
     \E dd \in Pick(BOOLEAN) :
       LET old == P.stmts[name] IN
       \E cs \in SomeOf(old.conds, n) : \E as \in SomeOf(old.acts, m) :
         /\ ("delstmt2" \in Avoid /\ ~all) => (Cardinality(cs) <= 1 /\ Cardinality(as) <= 1)
         /\ Step([op |-> "DelStmt", all |-> all,
               stmt |-> IF all THEN BareStmt(name)
                        ELSE Stmt(name, cs, as, IF dd THEN old.disp ELSE "none")])

GenAddPol ==
  \E name \in Pick(PolNames) : \E refer \in Pick(BOOLEAN) : \E n \in Pick(1..2) :
    IF refer
    THEN LET cand == DOMAIN P.stmts \ (IF name \in DOMAIN P.pols THEN SeqSet(P.pols[name]) ELSE {}) IN
           /\ cand # {}
           /\ \E ns \in SomeOf(cand, n) :
                Step([op |-> "AddPol", name |-> name, refer |-> TRUE,
                      stmts |-> LET q == SetToSeq(ns) IN [i \in 1..Len(q) |-> BareStmt(q[i])]])
    ELSE LET fresh == StmtNames \ DOMAIN P.stmts IN
           /\ fresh # {}
           /\ \E ns \in SomeOf(fresh, n) : \E nc \in Pick(0..2) : \E na \in Pick(0..2) :
              \E ss \in {LET q == SetToSeq(ns) IN
                           [i \in 1..Len(q) |-> RandStmt(q[i], nc, na, RandomElement(Disps))]} :
                Step([op |-> "AddPol", name |-> name, refer |-> FALSE, stmts |-> ss])

GenDelPol ==
  /\ DOMAIN P.pols # {}
  /\ \E name \in Pick(DOMAIN P.pols) : \E all \in Pick(BOOLEAN) : \E pres \in Pick(BOOLEAN) : \E n \in Pick(1..2) :
       \E ns \in SomeOf(SeqSet(P.pols[name]), n) :
         /\ ("delpolassigned" \in Avoid /\ all) => ~PolAssigned(P, name)
         /\ Step([op |-> "DelPol", name |-> name, all |-> all, preserve |-> (IF all THEN pres ELSE TRUE),
               stmts |-> LET q == SetToSeq(IF all THEN {} ELSE ns) IN [i \in 1..Len(q) |-> BareStmt(q[i])]])

DefChoice == {"accept", "reject", "none"}

GenSetAsg ==
  /\ DOMAIN P.pols # {}
  /\ \E dir \in Pick(Dirs) : \E n \in Pick(1..2) : \E def \in Pick(DefChoice) :
       \E ns \in SomeOf(DOMAIN P.pols, n) :
         Step([op |-> "SetAsg", dir |-> dir, pols |-> SetToSeq(ns), def |-> def])

GenAddAsg ==
  \E dir \in Pick(Dirs) : \E def \in Pick(DefChoice) :
    LET cand == DOMAIN P.pols \ SeqSet(P.asg[dir].pols) IN
      /\ cand # {}
      /\ \E ns \in SomeOf(cand, 1) :
           Step([op |-> "AddAsg", dir |-> dir, pols |-> SetToSeq(ns), def |-> def])

GenDelAsg ==
  \E dir \in Pick(Dirs) : \E all \in Pick(BOOLEAN) :
    \E ns \in SomeOf(SeqSet(P.asg[dir].pols), 1) :
      /\ P.asg[dir].pols # <<>>
      /\ "delasgall" \in Avoid => ~all
      /\ Step([op |-> "DelAsg", dir |-> dir, all |-> all, pols |-> IF all THEN <<>> ELSE SetToSeq(ns)])

---------------------------------------------------------------------------
SeqsOf(S, maxn) == {SetToSeq(T) : T \in {T \in SUBSET S : Cardinality(T) <= maxn}}

(* one random route and two (direction, peer) pairs that are evaluated from the same stored path *)
GenEval ==
  /\ \E d \in Dirs : Flat(P, d) # <<>>
  /\ \E pfx \in Pick(RoutePrefixes) : \E src \in Pick(Sources) : \E ap \in Pick(AsPaths) :
     \E o \in Pick(0..2) : \E med \in Pick({-1, 0, 5, 50}) : \E lp \in Pick({-1, 100, 200}) :
     \E cm \in Pick(SeqsOf(Comms, 3)) : \E ex \in Pick(SeqsOf(ExtComms \cup (IF "lb" \in Avoid THEN {} ELSE {ExtLB}), 2)) :
     \E lg \in Pick(SeqsOf(LargeComms, 2)) : \E rpki \in Pick(RpkiStates) : \E chain \in Pick(BOOLEAN) :
     \E nh \in Pick(IF pfx.fam = "v4" THEN NextHops4 ELSE NextHops6) :
       LET r     == Route(pfx, src, nh, ap, o, med, lp, cm, ex, lg, rpki, chain)
           pairs == {<<"export", p>> : p \in PeerNames} \cup (IF src = "local" THEN {} ELSE {<<"import", src>>})
       IN \E a \in Pick(pairs) : \E b \in Pick(pairs \ {a}) :
            /\ hist' = Append(hist, [op |-> "Eval", route |-> r, d1 |-> a[1], p1 |-> a[2], d2 |-> b[1], p2 |-> b[2]])
            /\ UNCHANGED <<P, done>>

GenInit == P = EmptyProgram /\ hist = <<>> /\ done = FALSE

(* the behaviour that the simulator really followed is printed once, by the single Finish step
   (an invariant is evaluated on EVERY successor, so printing at Len(hist) = MaxSteps would print
   one behaviour per successor of the last step) *)
Finish == Len(hist) = MaxSteps /\ ~done /\ done' = TRUE /\ UNCHANGED <<P, hist>>

GenNext ==
  \/ /\ Len(hist) < MaxSteps
     /\ \/ \E i \in 1..2 : GenAddSet
        \/ GenDelSet
        \/ \E i \in 1..2 : GenAddStmt
        \/ GenDelStmt
        \* get to an assigned, non-empty program early: most of a behaviour should evaluate routes
        \/ \E i \in 1..(IF DOMAIN P.pols = {} THEN 5 ELSE 1) : GenAddPol
        \/ GenDelPol
        \/ \E i \in 1..(IF \A d \in Dirs : Flat(P, d) = <<>> THEN 6 ELSE 1) : GenSetAsg
        \/ GenAddAsg
        \/ GenDelAsg
        \/ \E i \in 1..EvalWeight : GenEval
  \/ Finish

GenSpec == GenInit /\ [][GenNext]_gvars

Emit == done =>
          PrintT("VPOUT " \o ToJson([peers |-> PeerTable, nbr |-> NbrCovers, rbevery |-> RbEvery,
                                     kind |-> "sim", steps |-> hist]))
=============================================================================
