SPECIFICATION MSpec
CONSTANTS
  Prefixes = {"x1", "y1"}
  Bugs = {}
  MaxEvents = 7
  MaxClock = 9
  CapsPool <- MC_CapsLlgr
  KindPool <- MC_Kinds2
  Cfg <- MC_CfgLlgr
INVARIANTS
  D_Refines
  D_TypeOK
CHECK_DEADLOCK FALSE
