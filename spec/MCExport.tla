---------------------------- MODULE MCExport ----------------------------
(* Exhaustive enumeration of C09 cases over small abstract domains.  Every initial state is one
   one-step behaviour:
     export : (local speaker, target peer with options [, second target], stored route)
     inbound: (local speaker, sending peer, history of 1-2 announcements for one prefix)
   TLC (a) checks on every case that the code-shaped MECHANISM layer of Export.tla satisfies the
   PROPERTY layer (design level), and (b) prints the case as a JSON schedule for the Go replayer. *)
EXTENDS Export, ExportDom, Json

CONSTANTS Pool,      \* "path" | "attr" | "horizon" | "twice" | "history" | "inbound"
          Slice      \* "all" | "quick": the quick tier thins the largest pool (attr)

VARIABLE beh

Exp(loc, t, r) == [mode |-> "export", local |-> loc, peer |-> t, route |-> r]

---------------------------------------------------------------------------
(* pool "path": AS_PATH rewriting towards external peers *)

PathTargets(loc) ==
  IF ~loc.confed
  THEN {Opt(Peer("E1", loc), rpa, rp, la) : rpa \in {"none", "all", "replace"}, rp \in BOOLEAN, la \in {0, 777}}
       \cup {Opt(Peer("EP", loc), rpa, rp, 0) : rpa \in {"none", "all", "replace"}, rp \in BOOLEAN}
       \cup {Opt(Peer("E1", loc), rpa, rp, 64700) : rpa \in {"all", "replace"}, rp \in BOOLEAN}
  ELSE {Opt(Peer("E1", loc), rpa, rp, 0) : rpa \in {"none", "all", "replace"}, rp \in BOOLEAN}
       \cup {Opt(Peer("C1", loc), "none", rp, 0) : rp \in BOOLEAN}

PathSources(loc) == IF loc.confed THEN {"L", "E2", "I1", "C2"} ELSE {"L", "E2", "I1"}

PathRoutes(loc, t) ==
  LET y == IF t.localas # 0 THEN t.localas ELSE 777
      shapes == PlainShapes(300, t.as, y) \cup (IF loc.confed THEN ConfedShapes(300) ELSE {})
                \cup {LongSeq(300)}
  IN {Route(Peer(s, loc), NhForm(k), TRUE, p, 0, 200, 50, "none", <<>>, <<"T">>, <<7>>) :
        s \in PathSources(loc), p \in shapes, k \in (IF Slice = "quick" THEN {1} ELSE {1, 2})}

PathPool == UNION {{Exp(LPlain, t, r) : r \in PathRoutes(LPlain, t)} : t \in PathTargets(LPlain)}
            \cup UNION {{Exp(LConfed, t, r) : r \in PathRoutes(LConfed, t)} : t \in PathTargets(LConfed)}

---------------------------------------------------------------------------
(* pool "attr": which attributes are stripped / added / kept per target kind, all next-hop forms *)

AttrTargets(loc) ==
  CASE loc.name = "plain"  -> {Peer(x, loc) : x \in {"E1", "E6", "I1", "I6", "R1", "S1"}}
    [] loc.name = "plainx" -> {Peer(x, loc) : x \in {"I1", "R1"}}
    [] loc.name = "confed" -> {Peer(x, loc) : x \in {"E1", "C1", "I1", "R1"}}

AttrSources(loc, t) ==
  IF t.kind = "rsclient" THEN {"S2"}
  ELSE {"L", "E2", "I2", "R2"} \cup (IF loc.confed THEN {"C2"} ELSE {})

RrVariants == {<<"none", <<>>>>, <<"10.1.1.1", <<"10.8.8.8">>>>, <<"none", <<"10.8.8.8", "10.8.8.9">>>>}
UnkVariants == IF Slice = "quick" THEN {<<>>, <<"N", "T">>} ELSE {<<>>, <<"T">>, <<"N">>, <<"N", "T">>}
NhVariants(s) == IF s = "L" THEN 1..5 ELSE 1..3

AttrShape(s) == IF s \in {"E2", "S2"} THEN <<Sg("SEQ", <<IF s = "E2" THEN 300 ELSE 500>>)>>
                ELSE IF s = "C2" THEN <<Sg("CSEQ", <<65011>>)>>
                ELSE <<>>

AttrRoutes(loc, t) ==
  {Route(Peer(s, loc), NhForm(k), TRUE, AttrShape(s), IF lp = -1 THEN 2 ELSE 0, lp, med, rr[1], rr[2], unk, <<7, 8>>) :
     s \in AttrSources(loc, t), k \in 1..6, lp \in {-1, 200}, med \in {-1, 50},
     rr \in RrVariants, unk \in UnkVariants}

AttrPool ==
  UNION {UNION {{Exp(loc, t, r) : r \in {x \in AttrRoutes(loc, t) :
                                          /\ ((x.nha = "0.0.0.0" \/ x.nhm = "::") => x.src.id = "L")
                                          /\ (x.nhl # "none" => x.src.id # "L")}}
                : t \in AttrTargets(loc)} : loc \in {LPlain, LPlainX, LConfed}}
  (* own routes without an AS_PATH attribute (the exporter has to supply the mandatory one) *)
  \cup {Exp(LPlain, Peer(x, LPlain),
            Route(LocalSrc, NhForm(k), FALSE, <<>>, 0, -1, med, "none", <<>>, <<>>, <<>>)) :
          x \in {"E1", "I1", "R1"}, k \in {1, 4}, med \in {-1, 50}}
  (* an IBGP-learned route whose AS_PATH shows another AS: its MED is foreign as well *)
  \cup {Exp(LPlain, Peer("E1", LPlain),
            Route(Peer("R2", LPlain), NhForm(1), TRUE, <<Sg("SEQ", <<300>>)>>, 0, 100, med, "none", <<>>, <<>>, <<>>)) :
          med \in {-1, 50}}

---------------------------------------------------------------------------
(* pool "horizon": who may be told at all *)

HorizonTargets(loc) ==
  {Peer(x, loc) : x \in {"E1", "I1", "R1", "S1"} \cup (IF loc.confed THEN {"C1"} ELSE {})}
  \cup (IF loc.confed THEN {} ELSE {Opt(Peer("E1", loc), "none", TRUE, 0), Opt(Peer("E1", loc), "all", FALSE, 0)})

HorizonSources(loc, t) ==
  IF t.kind = "rsclient" THEN {"S1", "S2"}
  ELSE {"L", "E1", "E2", "E3", "I1", "I2", "R1", "R2"} \cup (IF loc.confed THEN {"C1", "C2"} ELSE {})

HorizonRoutes(loc, t) ==
  LET first(s) == IF Peer(s, loc).kind \in {"ebgp", "rsclient"} THEN <<Sg("SEQ", <<Peer(s, loc).as>>)>>
                  ELSE IF Peer(s, loc).kind = "confed" THEN <<Sg("CSEQ", <<Peer(s, loc).as>>)>>
                  ELSE <<>>
  IN {Route(Peer(s, loc), NhForm(1), TRUE, first(s) \o tail, 0, 100, -1, "none", cl, <<>>, <<>>) :
        s \in HorizonSources(loc, t),
        tail \in {<<>>, <<Sg("SEQ", <<600>>)>>, <<Sg("SEQ", <<600, t.as>>)>>, <<Sg("SEQ", <<600>>), Sg("SET", <<t.as, 9>>)>>},
        cl \in {<<>>, <<loc.cluster>>, <<"10.8.8.8", loc.cluster>>}}

HorizonPool ==
  UNION {UNION {{Exp(loc, t, r) : r \in HorizonRoutes(loc, t)} : t \in HorizonTargets(loc)}
         : loc \in {LPlain, LPlainX, LConfed}}

---------------------------------------------------------------------------
(* pool "twice": the same stored route goes to two DIFFERENT peers one after the other (every other
   export case is exported twice to the same peer).  Routes carry CLUSTER_LISTs of 1..3 foreign
   ids, communities and AS_PATH segments whose slices have spare capacity in the harness, so a
   rewrite that works in place on the stored attribute values shows in the second copy and in the
   stored route. *)
Exp2(loc, t, t2, r) == [mode |-> "export", local |-> loc, peer |-> t, peer2 |-> t2, route |-> r]

TwicePairs(loc) ==
  {<<Peer(a, loc), Peer(b, loc)>> :
     a \in {"R1", "R2", "I1", "E1"} \cup (IF loc.confed THEN {"C1"} ELSE {}),
     b \in {"R1", "R2", "I1", "E1"} \cup (IF loc.confed THEN {"C1"} ELSE {})}
  \cup (IF loc.confed THEN {} ELSE {<<Opt(Peer("E1", loc), "replace", TRUE, 777), Peer("R1", loc)>>,
                                     <<Opt(Peer("E1", loc), "all", FALSE, 0), Opt(Peer("E3", loc), "replace", FALSE, 0)>>})

TwiceRoutes(loc) ==
  {Route(Peer(s, loc), NhForm(1), TRUE,
         (IF s = "E2" THEN <<Sg("SEQ", <<300, 64512>>)>> ELSE <<>>) \o tail, 0, 100, med, oi, cl, <<"N", "T">>, <<7, 8>>) :
     s \in {"L", "E2", "I2", "R2"},
     tail \in {<<>>, <<Sg("SEQ", <<600, 200>>), Sg("SET", <<64513, 9>>)>>},
     med \in (IF Slice = "quick" THEN {50} ELSE {-1, 50}),
     oi \in (IF Slice = "quick" THEN {"none"} ELSE {"none", "10.1.1.1"}),
     cl \in {<<>>, <<"10.8.8.8">>, <<"10.8.8.8", "10.8.8.9">>, <<"10.8.8.8", "10.8.8.9", "10.8.8.10">>}}

TwicePool ==
  UNION {{Exp2(loc, pr[1], pr[2], r) : pr \in TwicePairs(loc), r \in TwiceRoutes(loc)}
         : loc \in {LPlain, LPlainX, LConfed}}

---------------------------------------------------------------------------
(* pool "history": the per-neighbour AS_PATH options against loop prevention, with and without a
   previous best route (`olds`) that the new best replaces implicitly.  New and old routes with
   the target's AS in an AS_SEQUENCE, in an AS_SET, in both, or not at all; targets with and
   without replace-peer-as / remove-private-as (also a peer in a private AS, whose AS
   remove-private-as would strip from the path that the loop check looks at), a confederation
   peer, and IBGP targets (only the one-sided rules apply to them). *)
(* kf: the case meets KF-C09-override-withdraw-dropped (used only to bundle those cases into few
   traces; the verdict is made by the trace spec) *)
HistKf(loc, t, r, olds, wd) ==
  LET owed == IF wd THEN MustWithdrawGone(r, t, loc) ELSE MustWithdraw(r, olds, t, loc)
      gone == IF wd THEN r ELSE olds[1]
  IN owed /\ t.rpeer /\ t.as \in ASSetOf(gone.aspath, {"SEQ", "SET"})
ExpH(loc, t, r, olds) == [mode |-> "export", local |-> loc, peer |-> t, route |-> r, olds |-> olds, wd |-> FALSE,
                          kf |-> HistKf(loc, t, r, olds, FALSE)]
ExpW(loc, t, r) == [mode |-> "export", local |-> loc, peer |-> t, route |-> r, olds |-> <<r>>, wd |-> TRUE,
                    kf |-> HistKf(loc, t, r, <<r>>, TRUE)]

HistTargets(loc) ==
  IF loc.confed THEN {Opt(Peer("C1", loc), "none", rp, 0) : rp \in BOOLEAN}
                     \cup {Opt(Peer("E1", loc), "none", rp, 0) : rp \in BOOLEAN}
  ELSE {Opt(Peer(x, loc), rpa, rp, 0) :
          x \in {"E1", "EP"}, rp \in BOOLEAN,
          rpa \in (IF Slice = "quick" THEN {"none", "all"} ELSE {"none", "all", "replace"})}
       \cup {Opt(Peer("E1", loc), "none", TRUE, 777), Peer("I1", loc), Peer("R1", loc)}

(* x = the target's AS *)
HistShapes(f, x) == {
  f \o <<Sg("SEQ", <<600>>)>>,
  f \o <<Sg("SEQ", <<600, x>>)>>,
  f \o <<Sg("SEQ", <<600>>), Sg("SET", <<x, 9>>)>>,
  f \o <<Sg("SEQ", <<x, 600, x>>), Sg("SET", <<9, x>>)>> }

First(s, loc) == IF Peer(s, loc).kind = "ebgp" THEN <<Sg("SEQ", <<Peer(s, loc).as>>)>>
                 ELSE IF Peer(s, loc).kind = "confed" THEN <<Sg("CSEQ", <<Peer(s, loc).as>>)>>
                 ELSE <<>>

HistRoute(s, loc, p, c) ==
  Route(Peer(s, loc), NhForm(1), TRUE, p, 0, 100, -1, "none", <<>>, <<>>, <<c>>)

HistNew(loc, t) ==
  UNION {{HistRoute(s, loc, p, 1) : p \in HistShapes(First(s, loc), t.as)} : s \in {"L", "E2", "E3", "I2", t.id}}

HistOlds(loc, t) ==
  {<<>>} \cup UNION {{<<HistRoute(s, loc, First(s, loc) \o <<Sg("SEQ", <<700>>)>>, 2)>>,
                       <<HistRoute(s, loc, First(s, loc) \o <<Sg("SEQ", <<700, t.as>>)>>, 2)>>}
                      : s \in {"L", "E2", t.id}}

HistoryPool ==
  UNION {UNION {{ExpH(loc, t, r, o) : r \in HistNew(loc, t), o \in HistOlds(loc, t)}
                \cup {ExpW(loc, t, r) : r \in HistNew(loc, t)} : t \in HistTargets(loc)}
         : loc \in {LPlain, LConfed}}

---------------------------------------------------------------------------
(* pool "inbound": histories of announcements of one peer for one prefix *)

InPeers(loc) ==
  CASE loc.name = "plain"  -> {Allow(Peer("E1", loc), n) : n \in 0..2}
                              \cup {Allow(Opt(Peer("E1", loc), "none", FALSE, 777), n) : n \in 0..1}
                              \cup {Peer("I1", loc), Peer("R1", loc), Allow(Peer("I1", loc), 1)}
    [] loc.name = "plainx" -> {Peer("I1", loc), Peer("R1", loc)}
    [] loc.name = "confed" -> {Allow(Peer("E1", loc), n) : n \in 0..1}
                              \cup {Allow(Peer("C1", loc), n) : n \in 0..1} \cup {Peer("I1", loc)}

(* o = the AS this speaker presents on the session *)
InShapes(p, loc) ==
  LET o == SessionAS(p, loc)
      f == IF p.kind = "ebgp" THEN <<p.as>> ELSE <<>>
      c == IF p.kind = "confed" THEN <<Sg("CSEQ", <<p.as>>)>> ELSE <<>>
  IN {c \o <<Sg("SEQ", f \o <<600>>)>>,
      c \o <<Sg("SEQ", f \o <<600, o>>)>>,
      c \o <<Sg("SEQ", f \o <<o, 600>>), Sg("SET", <<o, 9>>)>>,
      c \o <<Sg("SEQ", f \o <<o, o, 600, o>>)>>}
     \cup (IF loc.confed THEN {c \o <<Sg("SEQ", f \o <<600, loc.cid>>)>>,
                               <<Sg("CSEQ", (IF p.kind = "confed" THEN <<p.as>> ELSE <<>>) \o <<65011, loc.as>>)>>
                                 \o <<Sg("SEQ", f \o <<600>>)>>}
           ELSE {})
     \cup (IF p.localas # 0 THEN {<<Sg("SEQ", f \o <<600, loc.as>>)>>} ELSE {})

InRoutes(p, loc, tag) ==
  {Route(p, NhForm(1), TRUE, sh, 0, IF IsInternal(p.kind) THEN 100 ELSE -1, -1, oi, cl, <<>>, <<tag>>) :
     sh \in InShapes(p, loc),
     oi \in {"none", "10.1.1.1", loc.rid},
     cl \in {<<>>, <<"10.8.8.8">>, <<"10.8.8.8", loc.cluster>>}}

CleanRoute(p, loc, tag) ==
  Route(p, NhForm(1), TRUE, <<Sg("SEQ", (IF p.kind = "ebgp" THEN <<p.as>> ELSE <<>>) \o <<700>>)>>,
        0, IF IsInternal(p.kind) THEN 100 ELSE -1, -1, "none", <<>>, <<>>, <<tag>>)

Step(r) == [pfx |-> 1, route |-> r]

(* kf: the history meets a listed known finding (used only to bundle those histories into few
   traces; the verdict is made by the trace spec) *)
OnlyCluster(r, p, loc) == ClusterLoop(r, p, loc) /\ ~OwnAsLoop(r, p, loc) /\ ~OrigLoop(r, p, loc)

Inb(loc, p, steps) ==
  [mode |-> "inbound", local |-> loc, peer |-> p, steps |-> steps,
   kf |-> \E i \in DOMAIN steps : OnlyCluster(steps[i].route, p, loc)]

(* first announcements of two-step histories: a clean route; thorough tier: also every AS_PATH
   shape (accepted or rejected for the own AS) without RR attributes *)
Firsts(p, loc) ==
  {CleanRoute(p, loc, 1)}
  \cup (IF Slice = "quick" THEN {} ELSE {r \in InRoutes(p, loc, 1) : r.origid = "none" /\ r.clist = <<>>})

InboundPool ==
  UNION {UNION {{Inb(loc, p, <<Step(r)>>) : r \in InRoutes(p, loc, 1)}
                \cup UNION {{Inb(loc, p, <<Step(f), Step(r)>>) : r \in InRoutes(p, loc, 2)} : f \in Firsts(p, loc)}
                : p \in InPeers(loc)} : loc \in {LPlain, LPlainX, LConfed}}

---------------------------------------------------------------------------
Behaviours ==
  CASE Pool = "path"    -> PathPool
    [] Pool = "attr"    -> AttrPool
    [] Pool = "horizon" -> HorizonPool
    [] Pool = "twice"   -> TwicePool
    [] Pool = "history" -> HistoryPool
    [] Pool = "inbound" -> InboundPool

Init == beh \in Behaviours
Next == UNCHANGED beh
Spec == Init /\ [][Next]_beh

Emit == PrintT("VPOUT " \o ToJson(beh))

---------------------------------------------------------------------------
(* design level: mechanism => property, on every enumerated case *)

Olds == IF "olds" \in DOMAIN beh THEN beh.olds ELSE <<>>
Wd == IF "wd" \in DOMAIN beh THEN beh.wd ELSE FALSE
Targets == {beh.peer} \cup (IF "peer2" \in DOMAIN beh THEN {beh.peer2} ELSE {})

D_C09_MayAdvertise ==
  beh.mode = "export" =>
    \A t \in Targets :
      (MechAdvertiseW(beh.route, Olds, Wd, t, beh.local) = "yes" => MayAdvertise(beh.route, t, beh.local))

D_C09_Attrs ==
  beh.mode = "export" =>
    \A t \in Targets :
      (MechAdvertiseW(beh.route, Olds, Wd, t, beh.local) = "yes" =>
         AttrsConform(MechAttrs(beh.route, t, beh.local), beh.route, t, beh.local))

D_C09_Advertise ==
  beh.mode = "export" =>
    \A t \in Targets :
      (~Wd /\ MustAdvertise(beh.route, t, beh.local)) => MechAdvertiseW(beh.route, Olds, Wd, t, beh.local) = "yes"

(* the mechanism drops the withdrawals named by KF-C09-override-withdraw-dropped: tolerated here
   exactly as in the trace spec *)
D_C09_Withdraw_KF ==
  beh.mode = "export" =>
    \A t \in Targets :
      LET owed == IF Wd THEN MustWithdrawGone(beh.route, t, beh.local) ELSE MustWithdraw(beh.route, Olds, t, beh.local)
          gone == IF Wd THEN beh.route ELSE Olds[1]
          m == MechAdvertiseW(beh.route, Olds, Wd, t, beh.local)
      IN /\ (owed => (m = "withdraw" \/ (t.rpeer /\ m = "no" /\ t.as \in ASSetOf(gone.aspath, {"SEQ", "SET"}))))
         /\ (Wd => m # "yes")

(* the canonical copy of the property layer conforms to its own predicate (sanity of the layer) *)
D_C09_Canonical ==
  beh.mode = "export" =>
    \A t \in Targets : AttrsConform(ExportAttrs(beh.route, t, beh.local), beh.route, t, beh.local)

(* since repo commit ddcea20 the receive-side mechanism checks CLUSTER_LIST as well *)
D_C09_Inbound ==
  beh.mode = "inbound" =>
    \A i \in DOMAIN beh.steps :
      MustReject(beh.steps[i].route, beh.peer, beh.local) => ~MechUsed(beh.steps[i].route, beh.peer, beh.local)

(* (before ddcea20) the receive-side mechanism does not check CLUSTER_LIST (KF-C09-cluster-loop-used): the design
   check tolerates exactly that *)
D_C09_Inbound_KF ==
  beh.mode = "inbound" =>
    \A i \in DOMAIN beh.steps :
      LET r == beh.steps[i].route IN
        (MustReject(r, beh.peer, beh.local) /\ ~OnlyCluster(r, beh.peer, beh.local))
          => ~MechUsed(r, beh.peer, beh.local)
=============================================================================
