---------------------------- MODULE StreamFraming ----------------------------
(* C19 (B): a length-prefixed record stream.

   PROPERTY LAYER: reading the length field of a record from its octets (Declared) and what a stream
   splitter owes its caller (SplitSpec): with n octets buffered,
     - fewer than a header: ask for more (no token, advance 0);
     - the header declares a record of D octets: D <= n -> token = the first D octets, advance D;
                                                 D > n  -> ask for more.
   A token is never longer than the data given; a returned token advances the input.
   MECHANISM LAYER (MCStreamFraming.tla): the consumer loop around a splitter (bufio.Scanner: deliver some more
   octets, call the splitter on what is buffered, drop what it consumed) for a stream of records whose
   lengths are recs, delivered in arbitrary chunks.  Design-level result:
   whatever the chunking, the tokens are exactly the records (D_TokensAreRecords), the loop never
   stalls with a complete record buffered (D_Progress) and never hands out more than it holds.

   All arithmetic stays below 2^31 (TLC integers): a 4-octet length field is read as two 16-bit halves;
   every data size in the cases is < 65536, so a field with a non-zero upper half is simply "huge". *)
EXTENDS Integers, Sequences, FiniteSets, TLC

(* octets are a sequence of 0..255, 1-based; f is a Fmt record (StreamFramingDom) *)
HasField(bytes, f) == Len(bytes) >= f.off + f.w
FieldHi(bytes, f) == IF f.w = 4 THEN bytes[f.off + 1] * 256 + bytes[f.off + 2] ELSE 0
FieldLo(bytes, f) == CASE f.w = 4 -> bytes[f.off + 3] * 256 + bytes[f.off + 4]
                       [] f.w = 2 -> bytes[f.off + 1] * 256 + bytes[f.off + 2]
                       [] f.w = 1 -> bytes[f.off + 1]
(* the declared TOTAL record length as a mathematical integer: huge, or val *)
Declared(bytes, f) == [huge |-> FieldHi(bytes, f) > 0, val |-> f.add + FieldLo(bytes, f)]
DeclGt(d, n) == d.huge \/ d.val > n       \* declared total exceeds n octets (n < 65536)

NoTok == [tok |-> FALSE, adv |-> 0, len |-> 0]
SplitSpec(n, f, d) ==
  IF n < f.hdr THEN NoTok
  ELSE IF DeclGt(d, n) THEN NoTok
  ELSE [tok |-> TRUE, adv |-> d.val, len |-> d.val]

=============================================================================
