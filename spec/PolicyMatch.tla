---------------------------- MODULE PolicyMatch ----------------------------
(* C13 - compiled community matchers decide exactly what their regular expressions decide.

   Scope (DESIGN.md 3 C13, partial claim): the pattern SHAPES the compiler of
   internal/pkg/table/policy.go recognises, written as abstract terms with a set-theoretic
   denotation, for standard, extended (sub-types RT / SoO) and large communities; pattern
   lists under match option any / all / invert; edit sequences (append / remove / replace) of
   a defined set.

   Property layer (independent of the code's mechanism AND of any regular-expression engine):
     Den(p)                  the set of community values a pattern denotes;
     Matches(list, opt, C)   docs/sources/policy.md "match-set-options":
                               any    - match is true if given value matches any member of the defined set
                               all    - match is true if given value matches all members of the defined set
                               invert - match is true if given value does not match any member of the defined set
     Append / Remove / Replace on pattern lists (the "edited pattern list").
   Mechanism layer (shaped like the code): every edit rebuilds `compiled` = per-pattern
   matcher (exact / fixed-AS wildcard / fixed-AS bitmap / AS-independent bitmap / regexp
   fallback) + the any-match index (per-AS OR-bitmaps, AS-independent bitmap, hasRegexp;
   for extended communities one index per sub-type with asOnly / highLA / needSlowScan);
   MechEval is CommunityCondition.Evaluate / ExtCommunityCondition.Evaluate /
   LargeCommunityCondition.Evaluate with their fast paths.
   Design-level result (MCPolicyMatch): after any edit sequence MechEval = Matches.

   Numbers.  TLC integers are 32-bit signed, community fields go up to 4294967295 and the
   patterns of interest up to 4294967296, so a number is the pair <<h, l>> = h * 65536 + l
   with 0 <= l <= 65535 (canonical, hence equality of pairs = equality of numbers).
*)
EXTENDS Integers, Sequences, FiniteSets, TLC

CONSTANTS
  RemoveIgnoresSubtype   \* FALSE: Remove deletes the entries equal to an argument INCLUDING the
                         \* sub-type (the reading of "remove").  TRUE only in the known-finding cfg.

VARIABLES
  plist,      \* the configured pattern list of the defined set (sequence of pattern records)
  compiled    \* mechanism: what the code keeps next to the list, rebuilt on every edit

vars == <<plist, compiled>>

---------------------------------------------------------------------------
(* numbers *)

Mk(x)      == <<x \div 65536, x % 65536>>          \* for 0 <= x < 2^31
Fits16(n)  == n[1] = 0
Fits32(n)  == n[1] <= 65535
Num16      == {0} \X (0..65535)                    \* what a 2-octet field can hold
Num32      == (0..65535) \X (0..65535)             \* what a 4-octet field can hold
SeqSet(s)  == {s[i] : i \in DOMAIN s}
NoDup(s)   == \A i, j \in DOMAIN s : i # j => s[i] # s[j]

---------------------------------------------------------------------------
(* Abstract patterns.

   A field term describes the decimal numbers accepted in one colon-separated field:
     [t |-> "lit", v |-> n]                      exactly n            (text: n in decimal)
     [t |-> "any", sty |-> s]                    every number         (\d+  [0-9]+  \d*  [0-9]*  .* )
     [t |-> "alt", s |-> <<n1, n2, ...>>]        one of n1, n2, ...   ((n1|n2|...))
     [t |-> "cls", pre |-> p, lo |-> a, hi |-> b]  10*p + d, a <= d <= b   (p[a-b]  e.g. 1[0-9])
   A shape pattern is [st, sty, f]:
     st  = "std" | "rt" | "soo" | "large"  (kind of set; for extended communities the sub-type
           prefix, which the documentation says is not part of the regular expression)
     sty = "anch" (^...$ written out) | "plain" (configured as bare A:L, which the
           configuration front end anchors: "65100:10" means exactly that community)
     f   = <<AS term, local term>>  (large: <<ASN, local-data-1, local-data-2>>)
   The concrete text is produced by the Go harness (c13Render); its meaning is cross-checked
   against Den through Go's regexp (X_SpecVsRegexp in the trace spec). *)

Lit(n)           == [t |-> "lit", v |-> n]
AnyNum(sty)         == [t |-> "any", sty |-> sty]
Alt(s)           == [t |-> "alt", s |-> s]
Cls(pre, lo, hi) == [t |-> "cls", pre |-> pre, lo |-> lo, hi |-> hi]
Shape(st, sty, f) == [st |-> st, sty |-> sty, f |-> f]

SubTypes == {"rt", "soo"}
Opts     == {"any", "all", "invert"}

IsShape(p) == "f" \in DOMAIN p
KindOf(p)  == IF p.st = "std" THEN "std" ELSE IF p.st = "large" THEN "large" ELSE "ext"

---------------------------------------------------------------------------
(* Property layer: values and denotation.

   A community value is [k, st, n]:
     k = "std"   n = <<as, local>>                 both 2-octet           text  AS:LOCAL
     k = "two"   n = <<as, local>>  2-octet AS specific extended, st = sub-type, text AS:LOCAL
     k = "four"  n = <<as, local>>  4-octet AS specific extended, text HI.LO:LOCAL
     k = "ip4"   n = <<addr, local>> IPv4 address specific extended, text A.B.C.D:LOCAL
     k = "large" n = <<asn, d1, d2>> all 4-octet,                    text ASN:D1:D2
   (all extended values are transitive; the code skips non-transitive ones on purpose and the
   property text says nothing about them, so they are not generated.) *)

StdValues   == [k : {"std"},   st : {"std"},   n : Num16 \X Num16]
TwoValues   == [k : {"two"},   st : SubTypes,  n : Num16 \X Num32]
FourValues  == [k : {"four"},  st : SubTypes,  n : Num32 \X Num16]
Ip4Values   == [k : {"ip4"},   st : SubTypes,  n : Num32 \X Num16]
LargeValues == [k : {"large"}, st : {"large"}, n : Num32 \X Num32 \X Num32]

(* numbers accepted by a field term - the field's capacity is applied by the value sets *)
FieldDen(term) ==
  CASE term.t = "lit" -> {term.v}
    [] term.t = "alt" -> SeqSet(term.s)
    [] term.t = "cls" -> {Mk(10 * term.pre + d) : d \in term.lo .. term.hi}
    [] term.t = "any" -> Num32

(* Values a shape pattern can denote at all: a decimal literal or a digit run never matches
   the dotted administrator of a 4-octet-AS or IPv4-address specific community, and an
   extended pattern only speaks about its own sub-type. *)
Candidates(p) ==
  CASE p.st = "std"   -> StdValues
    [] p.st = "large" -> LargeValues
    [] OTHER          -> {v \in TwoValues : v.st = p.st}

Den(p) == {v \in Candidates(p) : \A i \in DOMAIN p.f : v.n[i] \in FieldDen(p.f[i])}

Hit(p, comms)         == \E c \in comms : c \in Den(p)
MatchAny(list, comms) == \E i \in DOMAIN list : Hit(list[i], comms)
MatchAll(list, comms) == \A i \in DOMAIN list : Hit(list[i], comms)
Matches(list, opt, comms) ==
  CASE opt = "any"    -> MatchAny(list, comms)
    [] opt = "all"    -> MatchAll(list, comms)
    [] opt = "invert" -> ~MatchAny(list, comms)

(* "matches all members" of an EMPTY set is not determined by the documentation (the code says
   no match); nothing is demanded there. *)
Determined(list, opt) == opt # "all" \/ list # <<>>

---------------------------------------------------------------------------
(* Property layer: editing a defined set.  Two entries are the same when their configured
   regular expressions are the same after the front end's normalisation (a "plain" A:L and
   its anchored spelling are one entry) and - for extended communities - their sub-types are. *)

Body(p)     == IF IsShape(p) THEN p.f ELSE p.text
Key(p)      == <<p.st, Body(p)>>
SameEntry(x, y) == IF RemoveIgnoresSubtype THEN Body(x) = Body(y) ELSE Key(x) = Key(y)

AppendTo(list, args)    == list \o args
RemoveFrom(list, args)  == SelectSeq(list, LAMBDA x : ~\E j \in DOMAIN args : SameEntry(x, args[j]))
ReplaceWith(list, args) == args

---------------------------------------------------------------------------
(* Mechanism layer: pattern analysis and promotion (compileCommunityMatcher,
   compileExtCommunityMatcher).  Only shape patterns are analysed here; every other pattern
   (the near-miss grammar) is the regexp fallback as far as this model is concerned. *)

IsLit(t)   == t.t = "lit"
WildLoc(t) == t.t = "any" /\ t.sty \in {"dot*", "d+", "09+"}          \* isWildcardLocal
AnyAS(t)   == t.t = "any" /\ t.sty \in {"d+", "09+", "d*", "09*"}     \* isWildcardASN
(* parseLocalAdminSet: one decimal number or (n1|n2|...), all 16-bit, no duplicates *)
LocalSetOK(t) == \/ IsLit(t) /\ Fits16(t.v)
                 \/ t.t = "alt" /\ t.s # <<>> /\ NoDup(t.s) /\ \A i \in DOMAIN t.s : Fits16(t.s[i])

StdMode(p) ==
  LET a == p.f[1]  l == p.f[2] IN
  IF IsLit(a) /\ Fits16(a.v)
  THEN IF IsLit(l) /\ Fits16(l.v) THEN "exact"            \* parseExactASColonLocal(.., 16)
       ELSE IF WildLoc(l) THEN "wildcard"                 \* extractLiteralASN + isWildcardLocal
       ELSE "bitmap"                                      \* scanLocalAdminBitmap
  ELSE IF AnyAS(a) /\ LocalSetOK(l) THEN "localindep"     \* tryWildcardASNBitmap
  ELSE "regexp"

ExtMode(p) ==
  LET a == p.f[1]  l == p.f[2] IN
  IF IsLit(a) /\ Fits16(a.v)
  THEN IF IsLit(l) /\ Fits32(l.v) THEN "exact"            \* parseExactASColonLocal(.., 32)
       ELSE IF WildLoc(l) THEN "asonly"
       ELSE IF LocalSetOK(l) THEN "asbitmap"              \* parseLocalAdminSet
       ELSE "regexp"
  ELSE IF AnyAS(a) /\ LocalSetOK(l) THEN "localbitmap"
  ELSE "regexp"

Mode(p) == IF ~IsShape(p) \/ p.st = "large" THEN "regexp"
           ELSE IF p.st = "std" THEN StdMode(p) ELSE ExtMode(p)

(* A bitmap over the 65536 local-admin values is kept as the term that filled it. *)
BmHas(term, n) == Fits16(n) /\ n \in FieldDen(term)

CompileOne(p) ==
  LET m == Mode(p) IN
  IF m = "regexp" THEN [mode |-> "regexp", st |-> p.st, p |-> p]
  ELSE [mode |-> m, st |-> p.st, as |-> p.f[1], loc |-> p.f[2]]

(* what the regexp fallback decides is the regular expression's meaning itself *)
RegexpSays(p, v) == IF IsShape(p) THEN v \in Den(p) ELSE FALSE

StdMatcherHits(m, v) ==
  CASE m.mode = "exact"      -> v.n[1] = m.as.v /\ v.n[2] = m.loc.v
    [] m.mode = "wildcard"   -> v.n[1] = m.as.v
    [] m.mode = "bitmap"     -> v.n[1] = m.as.v /\ BmHas(m.loc, v.n[2])
    [] m.mode = "localindep" -> BmHas(m.loc, v.n[2])
    [] m.mode = "regexp"     -> RegexpSays(m.p, v)

ExtMatcherHits(m, v) ==
  CASE m.mode = "exact"       -> v.k = "two" /\ v.st = m.st /\ v.n[1] = m.as.v /\ v.n[2] = m.loc.v
    [] m.mode = "asonly"      -> v.k = "two" /\ v.st = m.st /\ v.n[1] = m.as.v
    [] m.mode = "asbitmap"    -> v.k = "two" /\ v.st = m.st /\ v.n[1] = m.as.v /\ BmHas(m.loc, v.n[2])
    [] m.mode = "localbitmap" -> v.k = "two" /\ v.st = m.st /\ BmHas(m.loc, v.n[2])
    [] m.mode = "regexp"      -> v.st = m.st /\ RegexpSays(m.p, v)

(* buildCommunityMatcherBitmaps: per-AS OR-bitmaps as a set of <<as, filling term>> *)
StdIndex(ms) ==
  [perAS  |-> {<<ms[i].as.v, IF ms[i].mode = "wildcard" THEN AnyNum("dot*") ELSE ms[i].loc>> :
                 i \in {j \in DOMAIN ms : ms[j].mode \in {"exact", "wildcard", "bitmap"}}},
   indep  |-> {ms[i].loc : i \in {j \in DOMAIN ms : ms[j].mode = "localindep"}},
   hasRegexp |-> \E i \in DOMAIN ms : ms[i].mode = "regexp"]

StdIndexAny(idx, comms) ==
  IF idx.hasRegexp THEN FALSE
  ELSE \E c \in comms : \/ \E b \in idx.indep : BmHas(b, c.n[2])
                        \/ \E e \in idx.perAS : e[1] = c.n[1] /\ BmHas(e[2], c.n[2])

(* buildExtCommunityAnyIndexes: one index per sub-type *)
ExtIndex(ms) ==
  [bySt |-> [st \in {ms[i].st : i \in {j \in DOMAIN ms : ms[j].mode # "regexp"}} |->
     LET mine == {i \in DOMAIN ms : ms[i].st = st /\ ms[i].mode # "regexp"} IN
     [perAS  |-> {<<ms[i].as.v, ms[i].loc>> :
                    i \in {j \in mine : \/ ms[j].mode = "asbitmap"
                                        \/ ms[j].mode = "exact" /\ Fits16(ms[j].loc.v)}},
      global |-> {ms[i].loc : i \in {j \in mine : ms[j].mode = "localbitmap"}},
      asOnly |-> {ms[i].as.v : i \in {j \in mine : ms[j].mode = "asonly"}},
      highLA |-> {<<ms[i].as.v, ms[i].loc.v>> :
                    i \in {j \in mine : ms[j].mode = "exact" /\ ~Fits16(ms[j].loc.v)}}]],
   needSlowScan |-> \E i \in DOMAIN ms : ms[i].mode = "regexp"]

ExtIdxMatchesTwo(ix, c) ==
  \/ c.n[1] \in ix.asOnly
  \/ IF Fits16(c.n[2])
     THEN \/ \E b \in ix.global : BmHas(b, c.n[2])
          \/ \E e \in ix.perAS : e[1] = c.n[1] /\ BmHas(e[2], c.n[2])
     ELSE <<c.n[1], c.n[2]>> \in ix.highLA

Compile(list) ==
  LET ms == [i \in DOMAIN list |-> CompileOne(list[i])] IN
  [ms |-> ms,
   idx |-> IF list = <<>> THEN [none |-> TRUE]
           ELSE IF KindOf(list[1]) = "std" THEN StdIndex(ms)
           ELSE IF KindOf(list[1]) = "ext" THEN ExtIndex(ms)
           ELSE [none |-> TRUE]]

(* the general path of all three Evaluate methods: loop over the matchers *)
Loop(ms, opt, comms, hits(_, _)) ==
  LET one(i) == \E c \in comms : hits(ms[i], c) IN
  CASE opt = "any"    -> \E i \in DOMAIN ms : one(i)
    [] opt = "invert" -> ~\E i \in DOMAIN ms : one(i)
    [] opt = "all"    -> ms # <<>> /\ \A i \in DOMAIN ms : one(i)

StdFast(c, opt) == /\ opt \in {"any", "invert"} /\ c.ms # <<>>
                   /\ (c.idx.perAS # {} \/ c.idx.indep # {}) /\ ~c.idx.hasRegexp
ExtFast(c, opt) == opt \in {"any", "invert"} /\ c.ms # <<>> /\ ~c.idx.needSlowScan

MechEval(kind, c, opt, comms) ==
  CASE kind = "std" ->
         IF StdFast(c, opt)
         THEN (StdIndexAny(c.idx, comms) = (opt = "any"))
         ELSE Loop(c.ms, opt, comms, StdMatcherHits)
    [] kind = "ext" ->
         IF ExtFast(c, opt)
         THEN LET found == \E x \in comms : /\ x.k = "two" /\ x.st \in DOMAIN c.idx.bySt
                                            /\ ExtIdxMatchesTwo(c.idx.bySt[x.st], x)
              IN found = (opt = "any")
         ELSE Loop(c.ms, opt, comms, ExtMatcherHits)
    [] kind = "large" ->
         Loop(c.ms, opt, comms, LAMBDA m, v : RegexpSays(m.p, v))

---------------------------------------------------------------------------
(* Actions: one per call of the real code (NewXxxSet / Append / Remove / Replace).  Every one
   of them rebuilds the compiled form from the edited list (rebuildMatchers,
   rebuildExtMatchers). *)

Init == plist = <<>> /\ compiled = Compile(<<>>)

DoDefine(list)  == plist' = list                      /\ compiled' = Compile(plist')
DoAppend(args)  == plist' = AppendTo(plist, args)     /\ compiled' = Compile(plist')
DoRemove(args)  == plist' = RemoveFrom(plist, args)   /\ compiled' = Compile(plist')
DoReplace(args) == plist' = ReplaceWith(plist, args)  /\ compiled' = Compile(plist')

(* Design-level property, checked by MCPolicyMatch over small pools: whatever the edit sequence,
   the compiled matcher decides what the edited pattern list denotes. *)
D_C13_Equivalent(kind, probes) ==
  \A opt \in Opts : \A comms \in probes :
     Determined(plist, opt) => (MechEval(kind, compiled, opt, comms) = Matches(plist, opt, comms))

D_C13_CompiledIsCurrent == compiled = Compile(plist)
=============================================================================
