---------------------------- MODULE RpkiGen ----------------------------
(* Behaviour generator for the end-to-end replayer of C16 (harness/c16srv): random histories of
   management calls, RTR PDUs of two protocol-abiding caches, connection losses and route
   injections.  Run with -simulate; one JSON schedule is printed when MaxSteps steps were taken.

   Clean = TRUE keeps the cache away from the three shapes of the known findings
   (known_findings.jsonl, the KF-C16 entries): no withdrawal of a record announced earlier in the same
   response, a complete reload uses a new session id when the client (as modelled) still holds
   records of the cache, no route whose origin AS follows from the "local AS" rule.  Clean = FALSE generates everything. *)
EXTENDS Rpki, RpkiDom, Json

CONSTANTS MaxSteps, Clean, Focus      \* Focus: "wide" | "twin" | "creset"

VARIABLES hist, pool, rsid
gvars == <<ps, ms, tbl, hist, pool, rsid>>

Sids == {1, 2}

(* a small pool of records per history, so that duplicates, re-announcements and withdrawals of
   known records are frequent; both families, equal prefixes with different max length / AS *)
(* "twin" histories (one in three): a pool of at most two records of one bucket, so that both caches
   hold the SAME record, announce it again (inside one response and in later incremental ones),
   withdraw it in turn, and are reset / reloaded with duplicates in flight *)
TwinPool == LET a == RandomElement(AllRecords) IN {a, RandomElement({x \in AllRecords : x.p = a.p})}
WidePool == LET a == RandomElement(AllRecords)
                b == RandomElement({x \in AllRecords : x.p = a.p})
                c == RandomElement(AllRecords)
                d == RandomElement(Records6)
                e == RandomElement(Records4)
            IN {a, b, c, d, e} \cup (IF Clean THEN {} ELSE {RandomElement({Rec("10.1.0.0/16", 16, LocalAS),
                                                                             Rec("2001:db8::/32", 48, LocalAS)})})
(* "creset" histories: three records, so that a complete reload usually lacks one that was there *)
ResetPool == TwinPool \cup {RandomElement(AllRecords)}
PickPool == IF Focus = "creset" THEN ResetPool
            ELSE IF Focus = "twin" \/ RandomElement(1..3) = 1 THEN TwinPool ELSE WidePool

GenInit == /\ Init
           /\ hist = <<>>
           /\ pool = PickPool
           /\ rsid = [c \in Caches |-> 1]

Dice(n) == RandomElement(1..10) <= n
Log(e) == hist' = Append(hist, e)
Keep == UNCHANGED <<pool, rsid>>

RouteNames == IF Clean THEN E2ERouteNames \ E2ELocalRule ELSE E2ERouteNames

GAdd(c) == /\ AddRpki(c, QAddRpki(c)) /\ Log([ev |-> "AddRpki", c |-> c]) /\ Keep
(* DeleteRpki as the CLI issues it (address and port): refused by the pinned code *)
GDelAddr(c) == /\ ms[c].cfg /\ Dice(1) /\ UNCHANGED vars
               /\ Log([ev |-> "DeleteRpki", c |-> c, form |-> "addr"]) /\ Keep
GDel(c) == /\ Dice(2) /\ DeleteRpki(c) /\ Log([ev |-> "DeleteRpki", c |-> c, form |-> "hostport"]) /\ Keep
GBounce(c) == /\ Bounce(c, QBounce(c)) /\ Log([ev |-> "Bounce", c |-> c]) /\ Keep
GReset(c) == /\ ResetRpki(c, QBounce(c))
             /\ Log([ev |-> RandomElement({"ResetRpki", "DisableRpki"}), c |-> c]) /\ Keep
GSoft(c) == /\ SoftResetRpki(c, QSoftReset(ms[c])) /\ Log([ev |-> "SoftResetRpki", c |-> c]) /\ Keep
GEnable(c) == /\ EnableRpki(c, QEnable(ms[c])) /\ Log([ev |-> "EnableRpki", c |-> c]) /\ Keep

GResp(c) == /\ CanResp(c)
            /\ \E sid \in {IF Head(ps[c].cq) # "reset" THEN ps[c].psid
                            ELSE IF Clean /\ tbl[c] # {} /\ ps[c].psid # 0
                                 THEN CHOOSE s \in Sids : s # ps[c].psid
                            ELSE RandomElement(Sids)} :
                  /\ rsid' = [rsid EXCEPT ![c] = sid]
                  /\ Log([ev |-> "Resp", c |-> c, sid |-> sid])
            /\ Resp(c) /\ UNCHANGED pool
GAnn(c) == /\ InResp(c)
           /\ \E r \in {RandomElement(pool)} : Pfx(c, TRUE, r) /\ Log([ev |-> "Pfx", c |-> c, ann |-> TRUE, r |-> r])
           /\ Keep
GWd(c) == /\ InResp(c)
          /\ LET cand == IF Clean THEN pool \ ps[c].ann ELSE pool IN
               /\ cand # {}
               /\ \E r \in {RandomElement(cand)} : Pfx(c, FALSE, r) /\ Log([ev |-> "Pfx", c |-> c, ann |-> FALSE, r |-> r])
          /\ Keep
GEod(c) == /\ InResp(c)
           /\ \E sn \in {RandomElement(1..3)} :
                Eod(c, rsid[c], sn) /\ Log([ev |-> "Eod", c |-> c, sid |-> rsid[c], sn |-> sn])
           /\ Keep
GNotify(c) == /\ IdleConn(c)
              /\ \E sn \in {IF Focus # "wide" /\ Dice(7) THEN ms[c].serial + 1 ELSE RandomElement(0..4)} :
                   Notify(c, sn, QNotify(ms[c], sn)) /\ Log([ev |-> "Notify", c |-> c, sid |-> ps[c].psid, sn |-> sn])
              /\ Keep
GCacheReset(c) == /\ IdleConn(c) /\ (IF ps[c].cq = <<>> THEN TRUE ELSE Head(ps[c].cq) = "serial")
                  /\ CacheReset(c, QSoftReset(ms[c])) /\ Log([ev |-> "CacheReset", c |-> c]) /\ Keep
GError(c) == /\ ErrorReport(c) /\ Log([ev |-> "ErrorReport", c |-> c]) /\ Keep
GInject == /\ \E c \in Caches : ms[c].cfg
           /\ UNCHANGED vars
           /\ Log([ev |-> "Inject", rt |-> IF ~Clean /\ Dice(3) THEN RandomElement(E2ELocalRule) ELSE RandomElement(RouteNames)])
           /\ Keep

Busy(c) == ms[c].cfg /\ (ps[c].phase = "resp" \/ ps[c].cq # <<>>)
(* the cache cannot provide the delta (RFC 8210 5.9 / 8.3): it answers the oldest unanswered query,
   a Serial Query, with Cache Reset; the client falls back to a Reset Query in the same session *)
GNoDelta(c) == /\ CanResp(c) /\ Head(ps[c].cq) = "serial" /\ GCacheReset(c)
NoDeltaDice == IF Focus = "creset" THEN 6 ELSE IF Focus = "twin" THEN 2 ELSE 3

(* Focus = "twin": two caches, one bucket, at most two records: full and incremental responses
   with repeated announcements and withdrawals, and now and then a session / serial reset.
   Focus = "creset": the same skeleton over three records, where a Serial Query is answered with
   Cache Reset more often than with the delta, at whatever point of the history it is sent, and the
   reload that follows keeps the session id half of the time; serial-notify increments go on after it *)
TwinNext ==
  /\ Len(hist) < MaxSteps
  /\ \/ \E c \in Caches :
          \/ GAdd(c)
          \/ GResp(c)
          \/ GAnn(c)
          \/ (Dice(6) /\ GAnn(c))
          \/ (Dice(5) /\ GWd(c))
          \/ (Dice(5) /\ GEod(c))
          \/ (~Busy(c) /\ GNotify(c))
          \/ (Dice(NoDeltaDice) /\ GNoDelta(c))
          \/ (~Busy(c) /\ Dice(1) /\ (GCacheReset(c) \/ GBounce(c) \/ GReset(c) \/ GSoft(c) \/ GEnable(c) \/ GDel(c)))
          \/ (Busy(c) /\ Dice(1) /\ Dice(3) /\ (GBounce(c) \/ GSoft(c) \/ GEnable(c)))
     \/ (Dice(2) /\ GInject)

WideNext ==
  /\ Len(hist) < MaxSteps
  /\ \/ \E c \in Caches :
          \/ GAdd(c)
          \/ GDel(c)
          \/ GDelAddr(c)
          \/ GResp(c)
          \/ GAnn(c)
          \/ (Dice(5) /\ GAnn(c))
          \/ (Dice(6) /\ GWd(c))
          \/ (Dice(5) /\ GEod(c))
          \* the cache is quiet: notifications, cache resets, errors, connection loss, management
          \/ (~Busy(c) /\ GNotify(c))
          \/ (~Busy(c) /\ Dice(5) /\ GCacheReset(c))
          \/ (Dice(NoDeltaDice) /\ GNoDelta(c))
          \/ (~Busy(c) /\ Dice(2) /\ GError(c))
          \/ (~Busy(c) /\ Dice(5) /\ GBounce(c))
          \/ (~Busy(c) /\ Dice(5) /\ GReset(c))
          \/ (~Busy(c) /\ Dice(5) /\ GSoft(c))
          \/ (~Busy(c) /\ Dice(5) /\ GEnable(c))
          \* the same while a response is in progress or a query is unanswered (rare)
          \/ (Busy(c) /\ Dice(1) /\ (GBounce(c) \/ GReset(c) \/ GSoft(c) \/ GEnable(c) \/ GCacheReset(c)))
     \/ (Dice(6) /\ GInject)

GenNext == IF Focus = "wide" THEN WideNext ELSE TwinNext
GenSpec == GenInit /\ [][GenNext]_gvars

Emit == Len(hist) = MaxSteps =>
          PrintT("VPOUT " \o ToJson([clean |-> Clean, focus |-> Focus, routes |-> RouteTable, steps |-> hist]))
=============================================================================
