------------------------------ MODULE MCFraming ------------------------------
(* Design level for C04/C05: exhaustive small-scope check that the independent reader
   (Framing.tla) and the writer model + expected-wire property layer (FramingDom.tla) agree:
     D_WriterWellFormed : every encoded shape is well-formed for the reader;
     D_RoundTrip        : the wire shape the reader finds = the wire shape the property layer
                          derives from the abstract shape;
     D_FieldsComplete   : the reader finds exactly as many length fields as the shape has;
     D_MutSensitive     : changing any length field by +-1 is visible to the reader (the
                          message stops being well-formed, or reads as a different wire shape):
                          no length field is ignored by the framing oracle of C05;
     D_TruncOverruns    : cutting the message right behind a non-zero length field makes some
                          declared extent overrun its container.
   One state per (shape, options) and one per (shape, options, field, mutation). *)
EXTENDS FramingDom

CONSTANTS Pool        \* name of the shape pool

VARIABLES s, o, mut
vars == <<s, o, mut>>

BaseAttrs == <<Simple("origin"), PathA("aspath", <<2>>), Simple("nexthop")>>
NoMut == [m |-> "none", o |-> 0, w |-> 0, v |-> 0, f |-> "none", u |-> "oct", cur |-> 0]

AttrPool ==
  {Simple(t) : t \in {"med", "atomic", "aggregator", "aigp", "as4aggr"}}
  \cup {Counted("communities", n) : n \in {0, 1, 63, 64}}
  \cup {Counted("unknown", n) : n \in {0, 1, 255, 256}}
  \cup {Counted("large", n) : n \in {1, 22}}
  \cup {PathA("aspath", sg) : sg \in {<<>>, <<1>>, <<63>>, <<64>>, <<2, 3>>}}
  \cup {PathA("as4path", sg) : sg \in {<<1>>, <<64>>}}

NlPool(f) ==
  IF FamClass(f) = "ip" THEN {<<NL(0, 0)>>, <<NL(9, 0), NL(FamMaxBits(f), 0)>>}
  ELSE {<<NL(0, 1)>>, <<NL(17, 2), NL(FamMaxBits(f), 1)>>}

MpFams == {"ipv6-unicast", "ipv4-labelled-unicast", "l3vpn-ipv4-unicast", "l3vpn-ipv6-multicast"}
MpPool == UNION {{MpA(t, f, nl) : t \in MpKinds, nl \in NlPool(f)} : f \in MpFams}
          \cup UNION {{MpN(f, <<NL(0, IF FamClass(f) = "ip" THEN 0 ELSE 1)>>, nh) : nh \in NhKindsOf(f) \ {0}} : f \in MpFams}

(* attributes written in the extended form although their value is short *)
ExtPool == {Simple("med"), Simple("atomic"), Counted("communities", 2), Counted("unknown", 0), Counted("unknown", 255),
            PathA("aspath", <<1, 2>>), MpA("mpunreach", "ipv4-multicast", <<NL(24, 0)>>),
            MpN("ipv6-unicast", <<NL(64, 0), NL(0, 0)>>, 0), MpN("l3vpn-ipv4-unicast", <<NL(24, 1)>>, 1)}

BodyNl == {<<>>, <<NL(0, 0)>>, <<NL(8, 0), NL(25, 0), NL(32, 0)>>}

Shapes ==
  CASE Pool = "attr"  -> {Update(<<>>, BaseAttrs \o <<a>>, <<NL(24, 0)>>) : a \in AttrPool}
                         \cup {Update(<<>>, <<a, c>>, <<>>) : a \in AttrPool,
                                 c \in {Simple("med"), Counted("unknown", 256), PathA("aspath", <<1>>)}}
    [] Pool = "ext"   -> {Update(<<>>, <<ExtForm(a)>> \o BaseAttrs, <<NL(24, 0)>>) : a \in ExtPool}
                         \cup {Update(<<>>, <<Simple("origin"), ExtForm(a), PathA("aspath", <<2>>)>>, <<>>) : a \in ExtPool}
                         \cup {Update(<<>>, BaseAttrs \o <<ExtForm(a)>>, <<NL(8, 0)>>) : a \in ExtPool}
    [] Pool = "nlri"  -> {Update(w, BaseAttrs, n) : w \in BodyNl, n \in BodyNl}
                         \cup {Update(<<>>, BaseAttrs \o <<a>>, <<>>) : a \in MpPool}
    [] Pool = "other" -> {Open(ps) : ps \in {<<>>, <<<<Cap("mp", 0)>>>>,
                                              <<<<Cap("mp", 0), Cap("gr", 2)>>, <<Cap("as4", 0)>>>>,
                                              <<<<Cap("unknown", 253)>>>>,
                                              <<<<Cap("addpath", 3), Cap("fqdn", 9), Cap("rr", 0)>>>>,
                                              <<<<Cap("softver", 6), Cap("fqdn", 2)>>, <<Cap("fqdn", 40)>>>>,
                                              <<<<Cap("fqdn", 21), Cap("as4", 0)>>, <<Cap("softver", 2)>>>>}}
                         \cup {Notification(n) : n \in {0, 1, 7}} \cup {Refresh, Keepalive}

OptPool == CASE Pool = "other" -> {Opt(FALSE, FALSE, FALSE, FALSE)}
             [] Pool = "attr"  -> {Opt(FALSE, a, p, p) : a \in BOOLEAN, p \in BOOLEAN}
             [] OTHER          -> {Opt(FALSE, a, p, q) : a \in BOOLEAN, p \in BOOLEAN, q \in BOOLEAN}

Muts == {"dec", "inc", "zero", "max", "flipext", "trunc"}

Init == s \in Shapes /\ o \in OptPool /\ mut = NoMut

Next == /\ mut = NoMut
        /\ LET fs == Fields(Encode(s, o), o) IN
           \E i \in 1..Len(fs), m \in Muts :
              /\ MutApplicable(fs[i], m)
              /\ mut' = [m |-> m, o |-> fs[i].o, w |-> fs[i].w, v |-> MutValue(fs[i], m),
                         f |-> fs[i].f, u |-> fs[i].u, cur |-> fs[i].cur]
        /\ UNCHANGED <<s, o>>

Spec == Init /\ [][Next]_vars

Bytes   == Encode(s, o)
Mutated == ApplyMut(Bytes, mut)

D_WriterWellFormed == mut = NoMut => WellFormed(Bytes, o)

D_RoundTrip == mut = NoMut => ReadWire(Bytes, ReadMsg(Bytes, o)) = ExpWire(s, o)

ExpFieldCount ==
  1 + (CASE s.k = "update" ->
              2 + Len(s.wd) + Len(s.nlri)
              + SumSeq([i \in 1..Len(s.attrs) |->
                          2 + Len(s.attrs[i].segs)
                          + (IF s.attrs[i].t = "mpreach" THEN 1 ELSE 0)
                          + Len(s.attrs[i].nl)
                          + (IF s.attrs[i].t = "aigp" THEN 1 ELSE 0)])
         [] s.k = "open" -> 1 + Len(s.params)
                            + SumSeq([i \in 1..Len(s.params) |->
                                 SumSeq([j \in 1..Len(s.params[i]) |->
                                    1 + (CASE s.params[i][j].c = "fqdn" -> 2 [] s.params[i][j].c = "softver" -> 1
                                           [] OTHER -> 0)])])
         [] OTHER -> 0)
D_FieldsComplete == mut = NoMut => Len(Fields(Bytes, o)) = ExpFieldCount

(* a <length in bits> octet only frames through ceil(bits/8): 24 -> 23 is not a framing change *)
FramingRelevant == mut.u = "bits" => Ceil8(mut.v) # Ceil8(mut.cur)
D_MutSensitive ==
  (mut.m \in {"dec", "inc", "flipext"} /\ FramingRelevant) =>
    LET r == ReadMsg(Mutated, o) IN
    \/ ~WellFormedR(Mutated, r, o)
    \/ ReadWire(Mutated, r) # ExpWire(s, o)

D_TruncOverruns ==
  (mut.m = "trunc" /\ mut.cur > 0) =>
    LET r == ReadMsg(Mutated, o) IN OverrunR(Mutated, r) \/ ~WellFormedR(Mutated, r, o)

(* the writer's next-hop field has a length the property layer expects *)
D_NextHop == (mut = NoMut /\ s.k = "update") =>
  LET r == ReadMsg(Bytes, o) IN
  \A i \in 1..Len(s.attrs) :
     s.attrs[i].t = "mpreach" => r.body.inner[i].nhl \in ExpNhLens(s.attrs[i].fam, s.attrs[i].n)

(* the reader sees the Extended Length bit exactly where the value needs it or the shape asks for it *)
D_ExtFlag == (mut = NoMut /\ s.k = "update") =>
  LET r == ReadMsg(Bytes, o) IN
  \A i \in 1..Len(s.attrs) :
     AttrExt(Bytes, r.body.attrs.els[i]) <=> (AttrVLen(Bytes, r.body.attrs.els[i]) > 255 \/ s.attrs[i].x = 1)

(* the oracle never calls an untouched message overrun *)
D_NoSpuriousOverrun == mut = NoMut => ~Overrun(Bytes, o)
=============================================================================
