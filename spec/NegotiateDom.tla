---------------------------- MODULE NegotiateDom ----------------------------
(* Concrete vocabulary of C08 shared by the exhaustive pools (MCNegotiate), the behaviour
   generator (NegotiateGen) and - through the generated JSON - the Go harness.

   A case is a PICK: a tuple of 20 indices, one per factor.  CfgOf(p) / OpenOf(p) build the local
   neighbour configuration and the OPEN the simulated neighbour sends.
     1 las        AS of the speaker: 2-octet / 4-octet
     2 peermode   configured peer-as: the neighbour's real AS / none / another AS
     3-5 lv4,lv6,lvpn4   local family: not configured / configured with ADD-PATH mode
     6 lhold      configured hold time (0 = not configured, -1 = configured 0 s)
     7 lka        configured keepalive interval (0 = not configured)
     8 lgr        graceful restart: off / on / on + N bit / on + long-lived
     9 ras        the neighbour's AS: external 2-octet (with / without 4-octet capability),
                  external 4-octet (AS_TRANS in the header), the speaker's own AS (with / without)
     10 rhold     hold time in the OPEN
     11-13 rv4,rv6,rvpn4 remote family shape: Multiprotocol capability and ADD-PATH tuples incl.
                  duplicates that agree / disagree, tuple without the MP capability, MP twice
     14 rother    a family the speaker does not configure (ipv4-multicast), an unknown capability
     15 rext      Extended Message capability: absent / present / twice
     16 rgr       graceful restart (/ long-lived) capability
     17 layout    all capabilities in one optional parameter / one parameter each / two parameters
     18 order     capability order forward / reversed
     19 bulk      the speaker originates 1100 further IPv4 routes with identical attributes (so
                  that its packer fills UPDATEs up to the size limit in force) / only one per family
     20 asform    how the speaker's AS towards this neighbour is configured: as the global AS / as the
                  neighbour's local-as while the GLOBAL AS is another one of the other width (2-octet
                  local-as under a 4-octet global AS and the reverse): `las` stays the AS of the speaker
                  on this session, cfg.gas is the global AS (0 = same)
   AS numbers stay below 2^31 (TLC integers); 1000100 etc. are genuine 4-octet AS numbers. *)
EXTENDS Integers, Sequences, FiniteSets

FLas   == <<65000, 1000100>>
FPeer  == <<"match", "any", "mismatch">>
FLMode == <<"off", "none", "recv", "send", "both">>
FLHold == <<0, 3, 9, 30, 65535, -1>>
FLKa   == <<0, 1, 2, 5, 20, 45>>     \* shorter and longer than a third of 9 / 30 / 90
FLGr   == <<"off", "on", "onN", "llgr">>
FRAs   == <<"e2", "e2nocap", "e4", "i", "inocap">>
FRHold == <<0, 1, 2, 3, 10, 30, 65535, 9, 90>>   \* 3, 9, 30, 90 also occur as LOCAL hold times
FRShape == <<"off", "mp", "r", "s", "b", "dupconf", "dupsame", "aponly", "mpdup">>
FROther == <<"none", "v4mc", "unk", "both">>
FRExt  == <<"no", "yes", "dup">>
FRGr   == <<"no", "gr", "llgr">>
FLayout == <<"one", "each", "two">>
FOrder == <<"fwd", "rev">>
FBulk  == <<TRUE, FALSE>>
FAsForm == <<"global", "nbr">>

FactorSizes == <<Len(FLas), Len(FPeer), Len(FLMode), Len(FLMode), Len(FLMode), Len(FLHold), Len(FLKa),
                 Len(FLGr), Len(FRAs), Len(FRHold), Len(FRShape), Len(FRShape), Len(FRShape),
                 Len(FROther), Len(FRExt), Len(FRGr), Len(FLayout), Len(FOrder), Len(FBulk), Len(FAsForm)>>
NFactors == Len(FactorSizes)

FamNames == <<"v4", "v6", "vpn4">>
ExtAS2 == 65001
ExtAS4 == 1000001
OtherAS == 64999
NbrId == "1.1.1.1"

Cap(c) == [c |-> c, fam |-> "", as |-> 0, t |-> <<>>, code |-> 0, time |-> 0, n |-> FALSE]
Tup(f, m) == [fam |-> f, m |-> m]

RECURSIVE Concat(_)
Concat(ss) == IF ss = <<>> THEN <<>> ELSE Head(ss) \o Concat(Tail(ss))
Rev(s) == [i \in 1..Len(s) |-> s[Len(s) + 1 - i]]

---------------------------------------------------------------------------
(* the received OPEN *)

ShapeMp(sh) == CASE sh \in {"off", "aponly"} -> 0
                 [] sh = "mpdup" -> 2
                 [] OTHER -> 1
ShapeTuples(sh) == CASE sh = "r" -> <<1>>
                     [] sh = "s" -> <<2>>
                     [] sh \in {"b", "aponly", "mpdup"} -> <<3>>
                     [] sh = "dupconf" -> <<1, 2>>
                     [] sh = "dupsame" -> <<3, 3>>
                     [] OTHER -> <<>>

NbrRealAS(p) ==
  LET las == FLas[p[1]]  ras == FRAs[p[9]]
  IN CASE ras \in {"e2", "e2nocap"} -> ExtAS2
       [] ras = "e4" -> ExtAS4
       [] ras = "i" -> las
       [] ras = "inocap" -> IF las <= 65535 THEN las ELSE ExtAS2
NbrHasAs4(p) ==
  LET las == FLas[p[1]]  ras == FRAs[p[9]]
  IN ras \in {"e2", "e4", "i"}

OpenCaps(p) ==
  LET shapes == <<FRShape[p[11]], FRShape[p[12]], FRShape[p[13]]>>
      mps == Concat([i \in 1..3 |-> [k \in 1..ShapeMp(shapes[i]) |-> [Cap("mp") EXCEPT !.fam = FamNames[i]]]])
      oth == FROther[p[14]]
      mc  == IF oth \in {"v4mc", "both"} THEN <<[Cap("mp") EXCEPT !.fam = "v4mc"]>> ELSE <<>>
      unk == IF oth \in {"unk", "both"} THEN <<[Cap("unk") EXCEPT !.code = 200]>> ELSE <<>>
      as4 == IF NbrHasAs4(p) THEN <<[Cap("as4") EXCEPT !.as = NbrRealAS(p)]>> ELSE <<>>
      ext == [k \in 1..(CASE FRExt[p[15]] = "no" -> 0 [] FRExt[p[15]] = "yes" -> 1 [] OTHER -> 2) |-> Cap("ext")]
      tups == Concat([i \in 1..3 |-> [k \in 1..Len(ShapeTuples(shapes[i])) |-> Tup(FamNames[i], ShapeTuples(shapes[i])[k])]])
      aps == IF tups = <<>> THEN <<>>
             ELSE IF FLayout[p[17]] = "each" THEN [k \in 1..Len(tups) |-> [Cap("ap") EXCEPT !.t = <<tups[k]>>]]
             ELSE <<[Cap("ap") EXCEPT !.t = tups]>>
      mpfams == [i \in 1..Len(mps \o mc) |-> Tup((mps \o mc)[i].fam, 0)]
      gr  == IF FRGr[p[16]] = "no" THEN <<>>
             ELSE <<[Cap("gr") EXCEPT !.t = mpfams, !.time = 120, !.n = TRUE]>>
      ll  == IF FRGr[p[16]] = "llgr" THEN <<[Cap("llgr") EXCEPT !.t = mpfams, !.time = 200]>> ELSE <<>>
      rr  == IF NbrHasAs4(p) THEN <<Cap("rr")>> ELSE <<>>    \* the "old speaker" shapes send no route refresh either
      all == rr \o as4 \o mps \o mc \o unk \o ext \o gr \o ll \o aps
  IN IF FOrder[p[18]] = "rev"
     THEN [i \in 1..Len(all) |-> LET c == Rev(all)[i] IN [c EXCEPT !.t = Rev(c.t)]]
     ELSE all

OpenOf(p) ==
  LET cs == OpenCaps(p)
      n == Len(cs)
      lay == FLayout[p[17]]
      params == IF n = 0 THEN <<>>
                ELSE IF lay = "each" THEN [i \in 1..n |-> <<cs[i]>>]
                ELSE IF lay = "two" /\ n >= 2 THEN <<SubSeq(cs, 1, n \div 2), SubSeq(cs, n \div 2 + 1, n)>>
                ELSE <<cs>>
      real == NbrRealAS(p)
  IN [as |-> IF real > 65535 THEN 23456 ELSE real,
      hold |-> FRHold[p[10]], id |-> NbrId, params |-> params]

---------------------------------------------------------------------------
(* the local neighbour configuration *)

CfgOf(p) ==
  LET modes == <<FLMode[p[3]], FLMode[p[4]], FLMode[p[5]]>>
      on == SelectSeq(<<1, 2, 3>>, LAMBDA i : modes[i] # "off")
      fams == [k \in 1..Len(on) |-> [f |-> FamNames[on[k]], ap |-> modes[on[k]],
                                     smax |-> IF modes[on[k]] \in {"send", "both"} THEN 2 ELSE 0]]
      hold == FLHold[p[6]]
      pm == FPeer[p[2]]
  IN [las |-> FLas[p[1]],
      peeras |-> CASE pm = "match" -> NbrRealAS(p) [] pm = "any" -> 0 [] OTHER -> OtherAS,
      fams |-> fams,
      hold |-> hold,
      \* a 1 s keepalive on a 65535 s hold time would only make the trace long
      ka |-> IF hold = 65535 THEN 0 ELSE FLKa[p[7]],
      gr |-> CASE FLGr[p[8]] = "off" -> "off" [] FLGr[p[8]] = "llgr" -> "llgr" [] OTHER -> "on",
      grn |-> FLGr[p[8]] = "onN",
      bulk |-> FBulk[p[19]],
      gas |-> IF FAsForm[p[20]] = "global" THEN 0 ELSE IF FLas[p[1]] > 65535 THEN 65010 ELSE 1000200]

=============================================================================
