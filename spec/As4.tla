------------------------------- MODULE As4 -------------------------------
(* C14 - the 2-octet / 4-octet AS number transition of RFC 6793, section 4.2.

   AS paths are sequences of typed segments  [t |-> "SEQ"|"SET"|"CSEQ"|"CSET", as |-> <<asn,...>>].
   An ASN is "wide" (non-mappable) when it does not fit 2 octets.  TLC integers are 32 bit, so
   the harness logs an ASN >= 2^31 as its two's-complement (negative) value; Wide covers both.
   An optional attribute is a record with a presence flag:
       AS4_PATH        [p |-> BOOLEAN, segs |-> path]
       (AS4_)AGGREGATOR [p |-> BOOLEAN, as |-> asn, ad |-> address id]

   PROPERTY LAYER (sections "RFC ..."): what RFC 6793 4.2.2 / 4.2.3 / 6 require, written from the
   RFC text only:  RfcDown, RfcUp, DownWellFormed, RoundTripOK, SegsOK, Count, Units.
   Where the RFC leaves freedom (how AS numbers are grouped into segments of one kind, whether an
   AS4_PATH is sent although nothing needs it) the predicates compare paths through `Units`,
   which forgets exactly that freedom.

   MECHANISM LAYER (section "gobgp"): internal/pkg/table/message.go UpdatePathAttrs2ByteAs /
   UpdatePathAttrs4ByteAs / UpdatePathAggregator{2,4}ByteAs transcribed statement by statement
   (MechDown, MechUp, MechDownAgg, MechUpAgg), including the two places where that code departs
   from the RFC (KF_A, KF_B below).
*)
EXTENDS Integers, Sequences, FiniteSets, TLC

CONSTANTS MaxSeg        \* largest number of members of one segment: 255 (one octet on the wire)

AS_TRANS == 23456
Wide(a)  == a > 65535 \/ a < 0
Types    == {"SEQ", "SET", "CSEQ", "CSET"}
Seg(t, as)  == [t |-> t, as |-> as]
IsConfed(s) == s.t \in {"CSEQ", "CSET"}
RangeOf(f)  == {f[i] : i \in DOMAIN f}

NoAs4  == [p |-> FALSE, segs |-> <<>>]
As4(s) == [p |-> TRUE, segs |-> s]
NoAgg  == [p |-> FALSE, as |-> 0, ad |-> 0]

(* RFC 4271 9.1.2.2 + RFC 5065 5.3 ("the method ... for route selection", RFC 6793 4.2.3):
   an AS_SET counts 1, an AS_SEQUENCE its members, confederation segments nothing. *)
SegCount(s) == CASE s.t = "SEQ" -> Len(s.as) [] s.t = "SET" -> 1 [] OTHER -> 0
RECURSIVE Count(_)
Count(p) == IF p = <<>> THEN 0 ELSE SegCount(Head(p)) + Count(Tail(p))

NonConfed(p) == SelectSeq(p, LAMBDA s : ~IsConfed(s))
HasConfed(p) == \E i \in 1..Len(p) : IsConfed(p[i])
WideIn(p)    == \E i \in 1..Len(p) : \E j \in 1..Len(p[i].as) : Wide(p[i].as[j])

(* RFC 5065: confederation segments only as the leading run of an AS_PATH *)
ValidPath(p) == \A i, j \in 1..Len(p) : (i < j /\ IsConfed(p[j])) => IsConfed(p[i])

(* RFC 4271 4.3 / RFC 7606 7.2: a segment has 1..255 members *)
SegsOK(p)    == \A i \in 1..Len(p) : Len(p[i].as) \in 1..MaxSeg
AllNarrow(p) == ~WideIn(p)

(* The AS path information carried by a path, forgetting how sequence members are grouped into
   segments: one unit per member of a (confed) sequence, one unit per (confed) set. *)
SegUnits(s) == IF s.t \in {"SEQ", "CSEQ"}
               THEN [j \in 1..Len(s.as) |-> [k |-> s.t, v |-> {s.as[j]}]]
               ELSE <<[k |-> s.t, v |-> RangeOf(s.as)]>>
RECURSIVE Units(_)
Units(p) == IF p = <<>> THEN <<>> ELSE SegUnits(Head(p)) \o Units(Tail(p))
SamePath(p, q) == Units(p) = Units(q)

---------------------------------------------------------------------------
(* RFC 6793 4.2.2  Generating Updates (NEW speaker -> OLD speaker) *)

Narrow(a)   == IF Wide(a) THEN AS_TRANS ELSE a       \* "non-mappable ... represented by AS_TRANS"
DownPath(p) == [i \in 1..Len(p) |-> Seg(p[i].t, [j \in 1..Len(p[i].as) |-> Narrow(p[i].as[j])])]

(* "MUST also send the AS path information in the AS4_PATH attribute, except [when] all of the AS
   path information is composed of mappable four-octet AS numbers only";  "MUST exclude
   [AS_CONFED_SEQUENCE / AS_CONFED_SET] path segments" from AS4_PATH. *)
RfcDown(p) == [aspath |-> DownPath(p),
               as4    |-> IF WideIn(p) THEN As4(NonConfed(p)) ELSE NoAs4]

(* "if the aggregating AS number is a non-mappable four-octet AS number, then the speaker MUST use
   the AS4_AGGREGATOR attribute and set the AS number field in the existing AGGREGATOR attribute to
   AS_TRANS";  otherwise AS4_AGGREGATOR is not sent. *)
RfcDownAgg(g) == [agg  |-> IF g.p THEN [g EXCEPT !.as = Narrow(g.as)] ELSE g,
                  agg4 |-> IF g.p /\ Wide(g.as) THEN g ELSE NoAgg]

(* C14 "the form sent to a 2-octet-AS peer is itself well-formed": d = [aspath, as4] as sent.
   Accepts every conformant sender: segments may be grouped differently, and an AS4_PATH that
   nothing needs (or the omission of one that carries no wide AS) is tolerated. *)
DownWellFormed(p, d) ==
  /\ SegsOK(d.aspath) /\ AllNarrow(d.aspath)
  /\ SamePath(d.aspath, DownPath(p))
  /\ WideIn(NonConfed(p)) => d.as4.p
  /\ d.as4.p => /\ ~HasConfed(d.as4.segs)
                /\ SegsOK(d.as4.segs)
                /\ SamePath(d.as4.segs, NonConfed(p))

AggDownWellFormed(g, a, a4) ==
  /\ a.p = g.p
  /\ g.p => (a.as = Narrow(g.as) /\ a.ad = g.ad)
  /\ (g.p /\ Wide(g.as)) => a4.p
  /\ a4.p => (g.p /\ a4.as = g.as /\ a4.ad = g.ad)

---------------------------------------------------------------------------
(* RFC 6793 4.2.3  Processing Received Updates (NEW speaker <- OLD speaker), and section 6 *)

(* "taking as many AS numbers and path segments as necessary from the leading part of the AS_PATH
   attribute";  "a valid AS_CONFED_SEQUENCE or AS_CONFED_SET path segment SHALL be prepended if it
   is either the leading path segment or is adjacent to a path segment that is prepended".
   k = AS numbers still to take;  adj = the previous segment was taken entirely (or none yet). *)
RECURSIVE Lead(_, _, _)
Lead(segs, k, adj) ==
  IF segs = <<>> THEN <<>>
  ELSE LET s == Head(segs) IN
       IF IsConfed(s) THEN (IF adj THEN <<s>> \o Lead(Tail(segs), k, TRUE) ELSE <<>>)
       ELSE IF k = 0 THEN <<>>
       ELSE IF s.t = "SET" THEN <<s>> \o Lead(Tail(segs), k - 1, TRUE)
       ELSE IF Len(s.as) <= k THEN <<s>> \o Lead(Tail(segs), k - Len(s.as), TRUE)
       ELSE <<Seg("SEQ", SubSeq(s.as, 1, k))>>

(* section 6: confederation segments found in AS4_PATH are discarded.
   "If the number of AS numbers in the AS_PATH attribute is less than the number of AS numbers in
   the AS4_PATH attribute, then the AS4_PATH attribute SHALL be ignored";  otherwise leading part
   of AS_PATH prepended to AS4_PATH "so that the AS path information has a number of AS numbers
   identical to that of the AS_PATH attribute". *)
RfcUp(a2, a4) ==
  IF ~a4.p THEN a2
  ELSE LET n == NonConfed(a4.segs) IN
       IF Count(a2) < Count(n) THEN a2
       ELSE Lead(a2, Count(a2) - Count(n), TRUE) \o n

(* "if the AS number in the AGGREGATOR attribute is not AS_TRANS, then the AS4_AGGREGATOR attribute
   and the AS4_PATH attribute SHALL be ignored" *)
AggOverrides(g2, g4) == g2.p /\ g4.p /\ g2.as # AS_TRANS
RfcUpAgg(g2, g4)     == IF g2.p /\ g4.p /\ g2.as = AS_TRANS THEN g4 ELSE g2
RfcUpFull(a2, a4, g2, g4) == IF AggOverrides(g2, g4) THEN a2 ELSE RfcUp(a2, a4)

(* C14 "reconstructing ... gives back the original AS_PATH (4-octet members of confederation
   segments, which AS4_PATH may not carry, excepted)": unit by unit; a confederation unit must keep
   its narrow members and may hold anything in place of its wide ones. *)
RoundTripOK(p, u) ==
  LET A == Units(p)
      B == Units(u)
  IN /\ Len(A) = Len(B)
     /\ \A i \in 1..Len(A) :
          /\ A[i].k = B[i].k
          /\ IF A[i].k \in {"SEQ", "SET"} THEN A[i].v = B[i].v
             ELSE /\ {a \in A[i].v : ~Wide(a)} \subseteq B[i].v
                  /\ Cardinality(B[i].v) <= Cardinality(A[i].v)

LongerAs4(a2, a4) == a4.p /\ Count(NonConfed(a4.segs)) > Count(a2)

---------------------------------------------------------------------------
(* gobgp: internal/pkg/table/message.go *)

(* UpdatePathAttrs2ByteAs: every segment is copied with `as > 1<<16-1` replaced by AS_TRANS; the
   non-confederation segments are collected for AS4_PATH; AS4_PATH is appended iff some member of
   any segment was replaced (mkAs4). *)
MechDown(p) == [aspath |-> DownPath(p),
                as4    |-> IF WideIn(p) THEN As4(NonConfed(p)) ELSE NoAs4]

(* UpdatePathAggregator2ByteAs *)
MechDownAgg(g) == RfcDownAgg(g)

(* UpdatePathAttrs4ByteAs.
     asLen       = sum of param.ASLen()                 (= Count)
     asConfedLen = CONFED_SET -> 1, CONFED_SEQ -> members
     as4Params   = AS4_PATH without confederation segments, as4Len = its Count
     if asLen+asConfedLen < as4Len : keep AS_PATH
     keepNum = asLen + asConfedLen - as4Len *)
ConfedLen(p) == LET f[i \in 0..Len(p)] ==
                      IF i = 0 THEN 0
                      ELSE f[i - 1] + (CASE p[i].t = "CSET" -> 1 [] p[i].t = "CSEQ" -> Len(p[i].as) [] OTHER -> 0)
                IN f[Len(p)]

(* the keep loop: for each AS_PATH segment
     if keepNum-ASLen >= 0 { take it whole; keepNum -= ASLen } else { take GetAS()[:keepNum]; keepNum = 0 }
     if keepNum <= 0 { break } *)
RECURSIVE MechKeep(_, _)
MechKeep(segs, k) ==
  IF segs = <<>> THEN <<>>
  ELSE LET s == Head(segs)
           n == SegCount(s)
       IN IF k - n >= 0
          THEN <<s>> \o (IF k - n <= 0 THEN <<>> ELSE MechKeep(Tail(segs), k - n))
          ELSE <<Seg(s.t, SubSeq(s.as, 1, k))>>

(* the merge loop: an AS4_PATH segment is glued to the last kept one when both are AS_SEQUENCE,
   splitting at 255 members; any other segment is appended.  (The code indexes the last kept
   segment unconditionally; `new` is never empty when an AS4_PATH segment exists, see D_MechTotal.) *)
MechMerge1(new, s) ==
  LET last == new[Len(new)] IN
  IF s.t = last.t /\ s.t = "SEQ"
  THEN IF Len(last.as) + Len(s.as) > MaxSeg
       THEN SubSeq(new, 1, Len(new) - 1)
              \o <<Seg("SEQ", last.as \o SubSeq(s.as, 1, MaxSeg - Len(last.as))),
                   Seg("SEQ", SubSeq(s.as, MaxSeg - Len(last.as) + 1, Len(s.as)))>>
       ELSE SubSeq(new, 1, Len(new) - 1) \o <<Seg("SEQ", last.as \o s.as)>>
  ELSE Append(new, s)
RECURSIVE MechMerge(_, _)
MechMerge(new, segs) == IF segs = <<>> THEN new
                        ELSE MechMerge(MechMerge1(new, Head(segs)), Tail(segs))

MechUp(a2, a4) ==
  IF ~a4.p THEN a2
  ELSE LET n   == NonConfed(a4.segs)
           tot == Count(a2) + ConfedLen(a2)
       IN IF tot < Count(n) THEN a2
          ELSE MechMerge(MechKeep(a2, tot - Count(n)), n)

MechUpPanics(a2, a4) == a4.p /\ NonConfed(a4.segs) # <<>> /\ Count(a2) + ConfedLen(a2) >= Count(NonConfed(a4.segs))
                        /\ MechKeep(a2, Count(a2) + ConfedLen(a2) - Count(NonConfed(a4.segs))) = <<>>

(* The repaired mechanism proposed in findings_proposed/C14-*.md: count as the RFC does, keep with
   Lead (confederation segments never consume the count and are always kept while adjacent), and
   do not index an empty kept list.  Same gluing of sequences at the junction as the code. *)
RECURSIVE MechMergeF(_, _)
MechMergeF(new, segs) == IF segs = <<>> THEN new
                         ELSE IF new = <<>> THEN MechMergeF(<<Head(segs)>>, Tail(segs))
                         ELSE MechMergeF(MechMerge1(new, Head(segs)), Tail(segs))
MechUpFixed(a2, a4) ==
  IF ~a4.p THEN a2
  ELSE LET n == NonConfed(a4.segs) IN
       IF Count(a2) < Count(n) THEN a2
       ELSE MechMergeF(Lead(a2, Count(a2) - Count(n), TRUE), n)

(* UpdatePathAggregator4ByteAs: AS4_AGGREGATOR's AS number replaces AGGREGATOR's whenever both are
   present (the AS_TRANS test of the RFC is not made; the address is left as it is). *)
MechUpAgg(g2, g4) == IF g2.p /\ g4.p THEN [g2 EXCEPT !.as = g4.as] ELSE g2

---------------------------------------------------------------------------
(* Where the mechanism departs from the RFC on inputs covered by C14 (known findings).

   KF_A  "confederation members are counted": asConfedLen is added to the AS_PATH length although
         the keep loop (and the RFC) count confederation segments as 0, so keepNum is too large by
         asConfedLen: too much of AS_PATH is kept (AS_TRANS survives, the path grows) and a longer
         AS4_PATH is not ignored.  Bites whenever AS4_PATH has at least one countable AS and is not
         longer than the inflated count.
   KF_B  "keepNum = 0": with nothing to keep and no leading confederation segment the loop still
         emits the first AS_PATH segment cut to zero members; unless that and the first AS4_PATH
         segment are both AS_SEQUENCE (which glues them) the empty segment stays in the result. *)
KF_A(a2, a4) == /\ a4.p /\ ValidPath(a2) /\ ConfedLen(a2) > 0
                /\ LET c4 == Count(NonConfed(a4.segs))
                   IN c4 > 0 /\ c4 <= Count(a2) + ConfedLen(a2)
KF_B(a2, a4) == /\ a4.p /\ ~HasConfed(a2) /\ a2 # <<>>
                /\ LET n == NonConfed(a4.segs)
                   IN /\ Count(n) = Count(a2)
                      /\ ~(a2[1].t = "SEQ" /\ n[1].t = "SEQ")

---------------------------------------------------------------------------
(* Design-level statements, evaluated by MCAs4 for every case of a small scope. *)

(* the RFC-level definitions satisfy what C14 demands of any implementation *)
D_DownWellFormed(p) == DownWellFormed(p, RfcDown(p)) /\ DownWellFormed(p, MechDown(p))
D_RoundTrip(p)      == LET d == RfcDown(p) IN
                         /\ RoundTripOK(p, RfcUp(d.aspath, d.as4))
                         /\ SegsOK(RfcUp(d.aspath, d.as4))
                         /\ Count(RfcUp(d.aspath, d.as4)) = Count(p)
D_AggRoundTrip(g)   == LET d == RfcDownAgg(g) IN
                         /\ AggDownWellFormed(g, d.agg, d.agg4)
                         /\ RfcUpAgg(d.agg, d.agg4) = g
                         /\ MechUpAgg(d.agg, d.agg4) = g
D_UpSegsOK(a2, a4)      == SegsOK(RfcUp(a2, a4))
D_UpSameCount(a2, a4)   == Count(RfcUp(a2, a4)) = Count(a2)
D_UpIgnoreLonger(a2, a4) == LongerAs4(a2, a4) => RfcUp(a2, a4) = a2
D_UpKeepsConfedRun(a2, a4) ==
  LET u == RfcUp(a2, a4) IN
    SelectSeq(u, IsConfed) = SelectSeq(a2, IsConfed) /\ ValidPath(u)

(* the mechanism equals the RFC outside the two known findings, never indexes an empty list,
   and the finding predicates are tight: inside them the mechanism IS wrong *)
D_MechTotal(a2, a4)   == ~MechUpPanics(a2, a4)
D_MechOK(a2, a4)      == ~(KF_A(a2, a4) \/ KF_B(a2, a4)) =>
                           (SegsOK(MechUp(a2, a4)) /\ SamePath(MechUp(a2, a4), RfcUp(a2, a4)))
D_KF_A_Tight(a2, a4)  == KF_A(a2, a4) => (~SamePath(MechUp(a2, a4), RfcUp(a2, a4)) /\ SegsOK(MechUp(a2, a4)))
D_KF_B_Tight(a2, a4)  == KF_B(a2, a4) => ~SegsOK(MechUp(a2, a4))
D_MechFixedOK(a2, a4) == SegsOK(MechUpFixed(a2, a4)) /\ SamePath(MechUpFixed(a2, a4), RfcUp(a2, a4))
D_KF_Disjoint(a2, a4) == ~(KF_A(a2, a4) /\ KF_B(a2, a4))
=============================================================================
