---------------------------- MODULE StreamFramingDom ----------------------------
(* C19 (B): concrete vocabulary shared by the case generator (StreamFramingGen), the Go harness
   (harness/c19codec: catalogue of messages built with the packages' own constructors) and the trace
   spec.  A name the harness does not know ends the run with a machinery error. *)
EXTENDS Integers, Sequences

MrtMsgs == {"bgp4mp_msg", "bgp4mp_msg_ap", "bgp4mp_msg_as4", "bgp4mp_msg_as4_ap", "bgp4mp_msg_as4_et",
            "bgp4mp_msg_as4_local", "bgp4mp_msg_as4_local_ap", "bgp4mp_msg_as4_v6", "bgp4mp_msg_local",
            "bgp4mp_msg_local_ap", "bgp4mp_state", "bgp4mp_state_as4", "bgp4mp_state_as4_v6", "geo", "pit",
            "pit_empty", "rib_generic", "rib_generic_ap", "rib_v4mc", "rib_v4mc_ap", "rib_v4uc", "rib_v4uc_ap",
            "rib_v6mc", "rib_v6mc_ap", "rib_v6uc", "rib_v6uc_ap"}
(* route monitoring: every peer type (0 global, 1 RD, 2 local, 3 Loc-RIB) x peer-header flag set
   (none, V, L, A, O, all) *)
BmpRm == {"rm_t0_f00", "rm_t0_f10", "rm_t0_f20", "rm_t0_f40", "rm_t0_f80", "rm_t0_ff0",
          "rm_t1_f00", "rm_t1_f10", "rm_t1_f20", "rm_t1_f40", "rm_t1_f80", "rm_t1_ff0",
          "rm_t2_f00", "rm_t2_f10", "rm_t2_f20", "rm_t2_f40", "rm_t2_f80", "rm_t2_ff0",
          "rm_t3_f00", "rm_t3_f10", "rm_t3_f20", "rm_t3_f40", "rm_t3_f80", "rm_t3_ff0"}
BmpMsgs == BmpRm \cup {"down_r1", "down_r2", "down_r3", "down_r4", "down_r5", "down_r6", "init", "init_empty",
                       "init_unknown", "mirror", "mirror_unknown", "rm_frac", "stats", "stats_empty", "term",
                       "term_unknown", "up_locrib", "up_v4", "up_v6"}
RtrMsgs == {"cache_reset", "cache_response", "end_of_data", "error_report", "error_report_empty", "ipv4_prefix",
            "ipv6_prefix", "reset_query", "serial_notify", "serial_query"}
BfdMsgs == {"admindown_diag", "down", "init", "up_final", "up_poll"}
ZapiMsgs == {"hello", "router_id_add", "interface_add", "redistribute_add", "route_add", "route_delete",
             "redistribute_route_add", "route_add_v6", "nexthop_register", "nexthop_update",
             "label_manager_connect", "get_label_chunk", "vrf_label", "unknown_command"}
(* ZAPI versions 2..6 and the software flavours gobgp distinguishes *)
ZapiFlavours == {<<2, "quagga">>, <<3, "quagga">>, <<4, "frr3">>, <<4, "cumulus">>,
                 <<5, "frr4">>, <<5, "frr5">>, <<5, "cumulus">>,
                 <<6, "frr6">>, <<6, "frr7">>, <<6, "frr7.2">>, <<6, "frr7.3">>, <<6, "frr7.5">>,
                 <<6, "frr8">>, <<6, "frr8.1">>, <<6, "frr8.2">>}

Protos == {"mrt", "bmp", "rtr", "bfd", "zapi"}
MsgsOf(p) == CASE p = "mrt" -> MrtMsgs [] p = "bmp" -> BmpMsgs [] p = "rtr" -> RtrMsgs
               [] p = "bfd" -> BfdMsgs [] p = "zapi" -> ZapiMsgs

ZapiHdr(v) == IF v \in {3, 4} THEN 8 ELSE IF v \in {5, 6} THEN 10 ELSE 6
(* where the length field of each format lives: off (0-based) and w(idth) of the field, hdr = octets
   needed before a record can be framed, add = octets the field does not count (MRT: the common header) *)
Fmt(p, v) == CASE p = "mrt"  -> [off |-> 8, w |-> 4, hdr |-> 12, add |-> 12]
               [] p = "bmp"  -> [off |-> 1, w |-> 4, hdr |-> 6,  add |-> 0]
               [] p = "rtr"  -> [off |-> 4, w |-> 4, hdr |-> 8,  add |-> 0]
               [] p = "bfd"  -> [off |-> 3, w |-> 1, hdr |-> 4,  add |-> 0]
               [] p = "zapi" -> [off |-> 0, w |-> 2, hdr |-> ZapiHdr(v), add |-> 0]
=============================================================================
