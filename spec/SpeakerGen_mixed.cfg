SPECIFICATION GSpec
CONSTANTS
  Peers <- P3
  PInfo <- PI_mixed
  Prefixes <- Pfx2
  LocalAS = 65000
  MaxSteps = 12
INVARIANTS
  Emit
