---------------------------- MODULE PackingGen ----------------------------
(* Behaviour generator for C11 (run with TLC -simulate; one JSON schedule per behaviour).
   A behaviour = session configuration + list of abstract route changes; the Go harness builds
   the concrete paths and calls the real packer.

   Scenario "small": short lists over 2-3 prefixes x 3 local ids x 3 attribute sets x the next
     hops of the family, announce/withdraw/EOR mixes: repeated keys are the rule, the same
     (family, prefix) appears under different LOCAL ids with ADD-PATH off and on.
   Scenario "bound": one attribute set whose encoded size leaves room for T octets of NLRI under
     the session limit (T from -8 .. ~4 NLRI), announced for 1..8 prefixes, mixed with small
     routes on the same and other prefixes: messages land within +-2 NLRI of 4096 / 65535, a
     single route fits exactly, by a few octets, or not at all.
   Scenario "noroom": the slice of "bound" where a classic IPv4 group has room for less than one
     worst-case NLRI (-8..8 octets).
   Scenario "fill": 30..60 same-length prefixes whose NLRI fill the room under the limit exactly
     / up to one octet short of one more NLRI; three more prefixes force the split.
   Scenario "as2fill": "fill" towards a peer without the 4-octet AS capability (send() rewrites
     AS_PATH and adds AS4_PATH after packing); "small" draws that capability at random.
   Scenario "large": Big prefixes announced (7 attribute sets, two families), then Big/10
     re-announcements / withdrawals of pseudo-randomly chosen earlier prefixes, End-of-RIB. *)
EXTENDS Integers, Sequences, TLC, Json, PackingDom

CONSTANTS Scenario,     \* "small" | "bound" | "noroom" | "fill" | "as2fill" | "large"
          MaxSteps,     \* number of changes (small / bound)
          Big           \* number of prefixes (large)

VARIABLES stage, sc, hist
gvars == <<stage, sc, hist>>

Pick(q) == q[RandomElement(1..Len(q))]

Aps == <<ApNone, ApNone, ApAll, ApV4, ApMp>>

NoSc == [ap |-> ApNone, ext |-> FALSE, collide |-> FALSE, as2 |-> FALSE, np |-> 0, nl |-> 0, fam |-> "v4", nh |-> "n4a",
         room |-> 0, room4 |-> 0, nbig |-> 0, cnt |-> 0, rem |-> 0, salt |-> 0]

GenInit == stage = 0 /\ sc = NoSc /\ hist = <<>>

(* ---- stage 0 -> 1 : draw the scenario parameters ---- *)
Draw ==
  /\ stage = 0
  /\ stage' = 1
  /\ hist' = <<>>
  /\ sc' = LET fam == Pick(<<"v4", "v4", "v6", "vpn4">>)
           IN [ap      |-> Pick(Aps),
               ext     |-> Pick(<<FALSE, FALSE, TRUE>>),
               collide |-> Pick(<<FALSE, FALSE, FALSE, TRUE>>),
               as2     |-> Pick(<<FALSE, FALSE, FALSE, TRUE>>),  \* peer without 4-octet AS capability
               np      |-> RandomElement(1..3),           \* prefixes per family (small)
               nl      |-> RandomElement(1..3),           \* local ids
               fam     |-> fam,                           \* family of the big group (bound)
               nh      |-> Pick(NhTokens(fam)),
               room    |-> RandomElement(-8..40),         \* octets left for NLRI (bound)
               room4   |-> RandomElement(-8..8),          \* the same for scenario "noroom"
               nbig    |-> RandomElement(1..8),           \* prefixes announced with the big set
               cnt     |-> RandomElement(30..60),         \* NLRI that exactly fit (fill)
               rem     |-> Pick(<<0, 0, -1, -1, 1, 3>>),  \* octets left after them (-1: one NLRI minus 1)
               salt    |-> RandomElement(1..9973)]

(* ---- small changes ---- *)
PadOf(a) == <<0, 7, 300>>[a]          \* attribute sets 1..3: no padding / short / extended-length
SmallChange(fams, np, nl, attrIds) ==
  LET fam  == Pick(fams)
      kind == Pick(<<"ann", "ann", "ann", "ann", "wd", "wd", "wd", "eor">>)
      p    == RandomElement(0..(np - 1))
      a    == Pick(attrIds)
      nh   == Pick(NhTokens(fam))
  IN IF kind = "eor" THEN EorChg(fam)
     ELSE IF kind = "wd" THEN GChg(fam, p, PlenOf(fam, p), RandomElement(1..nl), "wd", 0, 0, "-")
     ELSE GChg(fam, p, PlenOf(fam, p), RandomElement(1..nl), "ann", a, BaseAb(fam, nh) + PadOf(a), nh)

StepSmall ==
  /\ Scenario = "small" /\ stage = 1 /\ Len(hist) < MaxSteps
  /\ hist' = Append(hist, SmallChange(<<"v4", "v4", "v6", "vpn4">>, sc.np, sc.nl, <<1, 2, 3>>))
  /\ UNCHANGED <<stage, sc>>

(* ---- boundary: the big attribute set (id 9) leaves `room` octets for NLRI under the limit ----
   Scenario "noroom" concentrates on the slice where a classic IPv4 group has less room than one
   worst-case NLRI (repaired in repo commit 9eb707a; judged by the strict invariants like every
   other scenario).  The size asked for is the table-side attribute block: for the m4 path form
   the packer adds a 7-octet NEXT_HOP on the wire. *)
MpOverhead(fam, nh) == IF NhBytesOf(fam, nh) = 0 THEN 0 ELSE 9 + NhBytesOf(fam, nh)
NoRoom  == Scenario = "noroom"
BFam    == IF NoRoom THEN "v4" ELSE sc.fam
BNh     == IF NoRoom THEN (IF sc.nh \in {"n4a", "n4b", "m4a", "m4b"} THEN sc.nh ELSE "n4a") ELSE sc.nh
BRoom   == IF NoRoom THEN sc.room4 ELSE sc.room
BigAb   == LimitOf(sc.ext) - 23 - MpOverhead(BFam, BNh) - NhSynth(BFam, BNh) - BRoom
BigCount == Len(SelectSeq(hist, LAMBDA c : c.kind = "ann" /\ c.attrs = 9))

StepBound ==
  /\ Scenario \in {"bound", "noroom"} /\ stage = 1 /\ Len(hist) < MaxSteps
  /\ hist' = Append(hist,
       IF BigCount < sc.nbig /\ RandomElement(1..3) < 3
       THEN GChg(BFam, BigCount, PlenOf(BFam, BigCount), RandomElement(1..sc.nl), "ann", 9, BigAb, BNh)
       ELSE SmallChange(<<BFam, BFam, "v4", "v6">>, 4, sc.nl, <<1, 2>>))
  /\ UNCHANGED <<stage, sc>>

(* ---- fill: cnt same-length prefixes of one family whose NLRI fill the room under the limit
   exactly (rem = 0), leave one NLRI minus one octet (rem = -1), or a few octets; cnt+3 are
   announced, so the first message must hold exactly cnt NLRI and MP_REACH_NLRI needs the
   extended-length header ---- *)
FillP(i)  == IF sc.fam = "v6" THEN 3 * i ELSE 4 * i + 1            \* /64, resp. /32
FillPlen  == IF sc.fam = "v6" THEN 64 ELSE 32
FillNl    == NlriLen(sc.fam, FillPlen, sc.ap[sc.fam])
FillAb    == LimitOf(sc.ext) - 23 - MpOverhead(sc.fam, sc.nh) - NhSynth(sc.fam, sc.nh)
               - (sc.cnt * FillNl + (IF sc.rem = -1 THEN FillNl - 1 ELSE sc.rem))
StepFill ==
  /\ Scenario \in {"fill", "as2fill"} /\ stage = 1
  /\ hist' = [i \in 1..(sc.cnt + 4) |->
                IF i <= sc.cnt + 3
                THEN GChg(sc.fam, FillP(i - 1), FillPlen, 1, "ann", 9, FillAb, sc.nh)
                ELSE EorChg(sc.fam)]
  /\ stage' = 2
  /\ UNCHANGED sc

(* ---- large instance, built in one step from the salt drawn at stage 0 ---- *)
LFam(p)  == IF (p + sc.salt) % 4 = 0 THEN "v6" ELSE "v4"
LNh(p)   == IF LFam(p) = "v6" THEN (IF p % 5 = 0 THEN "n6b" ELSE "n6a")
            ELSE (IF p % 11 = 0 THEN "n4b" ELSE "n4a")
LAttrs(p, r) == ((p * 7 + r * 3 + sc.salt) % 7) + 1
LAb(p, a)    == BaseAb(LFam(p), LNh(p)) + (IF a = 7 THEN 300 ELSE IF a = 6 THEN 40 ELSE 0)
LLid(p, r)   == IF sc.nl = 1 THEN 1 ELSE ((p + r) % sc.nl) + 1
LAnn(p, r)   == LET a == LAttrs(p, r)
                IN GChg(LFam(p), p, PlenLarge(LFam(p), p), LLid(p, r), "ann", a, LAb(p, a), LNh(p))
LWd(p, r)    == GChg(LFam(p), p, PlenLarge(LFam(p), p), LLid(p, r), "wd", 0, 0, "-")
LargeList ==
  LET m == Big \div 10
  IN [i \in 1..(Big + m + 2) |->
        IF i <= Big THEN LAnn(i - 1, 0)
        ELSE IF i <= Big + m
        THEN LET j == i - Big
                 p == (j * 7919 + sc.salt) % Big
             IN IF j % 3 = 0 THEN LWd(p, j % 2) ELSE LAnn(p, 1 + (j % 2))
        ELSE IF i = Big + m + 1 THEN EorChg("v4") ELSE EorChg("v6")]

StepLarge ==
  /\ Scenario = "large" /\ stage = 1
  /\ hist' = LargeList
  /\ stage' = 2
  /\ UNCHANGED sc

GenNext == Draw \/ StepSmall \/ StepBound \/ StepFill \/ StepLarge
GenSpec == GenInit /\ [][GenNext]_gvars

Complete == IF Scenario \in {"large", "fill", "as2fill"} THEN stage = 2 ELSE (stage = 1 /\ Len(hist) = MaxSteps)

Emit == Complete =>
          PrintT("VPOUT " \o ToJson([sc |-> Scenario,
                                     cfg |-> [ap |-> sc.ap, ext |-> sc.ext,
                                              collide |-> (sc.collide /\ Scenario # "large"),
                                              \* near-limit messages towards a 2-octet-AS peer only
                                              \* in their own scenario (known finding as2-growth)
                                              as2 |-> IF Scenario = "as2fill" THEN TRUE
                                                      ELSE (sc.as2 /\ Scenario = "small")],
                                     changes |-> hist]))
=============================================================================
