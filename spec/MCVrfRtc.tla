---------------------------- MODULE MCVrfRtc ----------------------------
(* Design level of C17: exhaustive exploration of the mechanism layer (VrfRtcMech) over a small
   alphabet, every interleaving of at most MaxEvents input events.  With Defects = {} the
   invariants D_RtcExact / D_AllExact / D_CeExact state that the incremental mechanism implements
   the property layer; with a defect switched on TLC must find a counterexample (checks/c17.py
   runs both and requires exactly that). *)
EXTENDS VrfRtcMech, VrfRtcDom

CONSTANTS MaxEvents, Defer, Pool

VARIABLES nev
mcvars == <<cfg, up, ceOn, nin, cein, loc, vrfs, mem, wait, eor, deadline, now, wN1, wN2, wN3, wCE, nev>>

(* alphabets by name *)
RtSets == CASE Pool = "a" -> {{}, {"rt1"}, {"rt1", "rt2"}, {"rt3"}}
            [] Pool = "b" -> {{"rt1", "rt2"}, {"rt2", "rt3"}, {"nt1"}, {"rt3"}}
            [] Pool \in {"c", "d"} -> {{"rt1"}, {"rt3"}}
MemSet == CASE Pool = "a" -> {Mem(65000, "rt1", 0), Mem(65000, "rt2", 0), Mem(0, "def", 0)}
            [] Pool = "b" -> {Mem(65000, "rt2", 0), Mem(65009, "rt2", 0), Mem(65000, "rt3", 1), Mem(0, "def", 0)}
            [] Pool = "c" -> {Mem(65000, "rt1", 0)}
            [] Pool = "d" -> {Mem(0, "def", 0)}
VrfSet == CASE Pool = "a" -> {V1a, V2a}
            [] Pool = "b" -> {V1a, V1b, V2b}
            [] Pool = "c" -> {V1a}
            [] Pool = "d" -> {V1a, V2a, V2c}
KSet   == CASE Pool = "a" -> {"k1"} [] Pool = "b" -> {"k1", "k2"} [] Pool = "c" -> {"k1", "k3"} [] Pool = "d" -> {"k4"}
(* pool d: VRF lifecycle while the VPN NLRI the VRF originates is also learned from the PEs *)
PEon   == Pool = "d"

Init == MInit([defer |-> Defer, addpath |-> FALSE]) /\ nev = 0

Ev == nev < MaxEvents /\ nev' = nev + 1

Next ==
  /\ Ev
  /\ \/ \E p \in {"N1", "N2"} : MUp(p) \/ MDown(p)
     \/ (PEon /\ (MUp("N3") \/ MDown("N3")))
     \/ (PEon /\ \E s \in RtSets : \E lp \in {200, 50} : MVAnn(PRoute(s, 1, lp)))
     \/ (PEon /\ nin # {} /\ MVWd(PRoute({}, 0, 0)))
     \/ (HasVrf(CeVrf) /\ \E d \in CeDumps : MCeUp(d)) \/ MCeDown
     \/ \E k \in KSet : \E s \in RtSets : MVAnn(VRoute(k, s, 1))
     \/ \E k \in KSet : nin # {} /\ MVWd(VRoute(k, {}, 0))
     \/ \E m \in MemSet : MMAnn(m) \/ MMWd(m)
     \/ MMEor
     \/ \E w \in VrfSet : MAddVrf(w)
     \/ \E n \in {"v1", "v2"} : MDelVrf(n)
     \/ MCeAnn(CeX, 1) \/ MCeWd(CeX)
     \/ \E n \in {"v1", "v2"} : HasVrf(n) /\ (MApiAdd(n, LocX(n), 1) \/ MApiDel(n, LocX(n)))
     \/ (Waiting /\ MTick(5))

Spec == Init /\ [][Next]_mcvars

(* the refinement holds in every reachable state *)
D_TypeOK == /\ \A e \in wN1 \cup wN2 : e.rts \subseteq (RTs \cup {"nt1"})
            /\ (up["CE"] => HasVrf(CeVrf))
            /\ (~up["N1"] => mem = {})
=============================================================================
