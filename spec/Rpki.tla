---------------------------- MODULE Rpki ----------------------------
(* C16 - RPKI origin validation (RFC 6811) over a ROA table maintained from RTR caches.

   PROPERTY LAYER (independent of the code's mechanism; functions of the inputs only)
     Validate(roas, route)   the RFC 6811 verdict, transcribed from the property text;
     ps[c]                   per cache, what the history of RTR PDUs *as sent by the cache* and of
                             management calls demands of the table: a sandwich lo <= table(c) <= hi
                             that is exact (lo = hi = "records announced and not withdrawn") at every
                             point where the text determines the content, and open where it is silent
                             (inside a cache response; while a Reset Query of the router is unanswered).
   MECHANISM LAYER (shaped like pkg/server/rpki.go and internal/pkg/table/roa.go)
     ms[c]   roaClient{conn, sessionID, serialNumber, endOfData, pendingROAs}
     tbl[c]  the entries of ROATable whose Src is cache c (entries are keyed by prefix and compared
             by (MaxLen, AS, Src), so the table is a set of records per source)
     one operator per RTR PDU kind handled by handleRTRMsg, per roaEvent kind and per API call.
   `Fix` switches on the repairs proposed for the three divergences (findings_proposed/C16-*.md),
   so that TLC shows mechanism => property with them and the exact residue without them.

   Records are [p, m, a] (prefix name, max length, AS); routes are [pfx, path, las] where path is a
   sequence of segments [t |-> "SEQ"|"SET"|"CSEQ"|"CSET", as |-> <<asn,...>>] and las the local AS. *)
EXTENDS Integers, Sequences, FiniteSets, TLC

CONSTANTS
  Caches,     \* set of cache names
  PfxInfo,    \* [prefix name -> [fam, bits]]
  Fix         \* [a, b, c : BOOLEAN]

VARIABLES ps, ms, tbl
vars == <<ps, ms, tbl>>

---------------------------------------------------------------------------
(* Property layer, part 1: RFC 6811 validation *)

(* "covering ROA": the ROA prefix contains the route prefix (RFC 6811 s.2: the ROA prefix length
   is not longer and the leading bits are equal) *)
CoversDef(p, q) == LET P == PfxInfo[p]  Q == PfxInfo[q] IN
                     /\ P.fam = Q.fam
                     /\ Len(P.bits) <= Len(Q.bits)
                     /\ SubSeq(Q.bits, 1, Len(P.bits)) = P.bits
(* the same, tabulated once: TLC re-evaluates a definition on every use, so the relation and the
   prefix lengths are computed at start-up and kept in TLC registers (an evaluation cache only) *)
CoverSet == {x \in (DOMAIN PfxInfo) \X (DOMAIN PfxInfo) : CoversDef(x[1], x[2])}
PLenTab  == [p \in DOMAIN PfxInfo |-> Len(PfxInfo[p].bits)]
ASSUME TLCSet(16, CoverSet)
ASSUME TLCSet(17, PLenTab)
Covers(p, q) == <<p, q>> \in TLCGet(16)
PLen(p) == TLCGet(17)[p]

LastSeg(r) == r.path[Len(r.path)]

(* property text: "paths ending in an AS_SET reported NotFound" (RFC 6811: origin AS "NONE") *)
HasOrigin(r) == r.path = <<>> \/ LastSeg(r).t # "SET"

(* property text: "last AS of a path ending in an AS_SEQUENCE; the local AS for an empty or
   confederation-only path" *)
Origin(r) == IF r.path = <<>> THEN r.las
             ELSE IF LastSeg(r).t = "SEQ" THEN LastSeg(r).as[Len(LastSeg(r).as)]
             ELSE r.las

Covering(roas, r) == {x \in roas : Covers(x.p, r.pfx)}

(* "has the route's origin AS and a max-length not shorter than the prefix"; "AS 0 never matches" *)
Matches(x, r) == x.a # 0 /\ x.a = Origin(r) /\ PLen(r.pfx) <= x.m

Validate(roas, r) ==
  IF ~HasOrigin(r) THEN "notfound"
  ELSE IF \E x \in Covering(roas, r) : Matches(x, r) THEN "valid"
  ELSE IF Covering(roas, r) # {} THEN "invalid"
  ELSE "notfound"

(* the same verdict when the speaker takes 0 for its own AS (finding C16-local-as) *)
ValidateLas(roas, r, las) == Validate(roas, [r EXCEPT !.las = las])

(* Mechanism of ROATable.Validate: walk the covering buckets, sort every entry into matched /
   unmatched-AS / unmatched-length, classify *)
ValidateMech(roas, r) ==
  IF r.path # <<>> /\ LastSeg(r).t = "SET" THEN "notfound"
  ELSE LET as == IF r.path = <<>> THEN r.las
                 ELSE IF LastSeg(r).t = "SEQ"
                      THEN (IF LastSeg(r).as = <<>> THEN r.las ELSE LastSeg(r).as[Len(LastSeg(r).as)])
                      ELSE r.las
           cov == {x \in roas : Covers(x.p, r.pfx)}
           matched == {x \in cov : PLen(r.pfx) <= x.m /\ x.a # 0 /\ x.a = as}
           unas    == {x \in cov : PLen(r.pfx) <= x.m /\ ~(x.a # 0 /\ x.a = as)}
           unlen   == {x \in cov : PLen(r.pfx) > x.m}
       IN IF matched # {} THEN "valid" ELSE IF unas # {} THEN "invalid"
          ELSE IF unlen # {} THEN "invalid" ELSE "notfound"

---------------------------------------------------------------------------
(* Property layer, part 2: what the PDU history of one cache demands.
     cfg    cache is configured
     phase  "idle" | "resp" (between Cache Response and End of Data, as sent by the cache)
     full   the response in progress answers a Reset Query (=> it is a complete reload)
     cq     queries the cache has read on the current connection and not answered yet (FIFO)
     db     records announced and not withdrawn as of the last completed response
     acc    the same, including the response in progress
     lo,hi  required sandwich for the table content of this cache
     psid   session id of the last End of Data since the cache was configured (0: none)
     ann, kfNow, kfA, kfC   signatures of the known findings (see below)             *)

PInit == [cfg |-> FALSE, phase |-> "idle", full |-> FALSE, cq |-> <<>>, db |-> {}, acc |-> {},
          lo |-> {}, hi |-> {}, psid |-> 0, ann |-> {}, kfNow |-> {}, kfA |-> {}, kfC |-> {}]

HasReset(q) == \E i \in 1..Len(q) : q[i] = "reset"

(* While the router has asked for a complete reload that the cache has not started to answer, the
   text does not say what the table holds (the router may already have dropped the old data): only
   the upper bound stays. *)
PNorm(p) == IF HasReset(p.cq) THEN [p EXCEPT !.lo = {}] ELSE p
PQueries(p, qs) == PNorm([p EXCEPT !.cq = p.cq \o qs])

PAdd(p)  == [PInit EXCEPT !.cfg = TRUE]
PDown(p) == [p EXCEPT !.phase = "idle", !.cq = <<>>, !.ann = {}, !.kfNow = {}]   \* transport session lost

(* Cache Response: the cache answers the oldest unanswered query *)
PResp(p) == LET f == Head(p.cq) = "reset" IN
  [p EXCEPT !.phase = "resp", !.full = f, !.cq = Tail(p.cq),
            !.acc = IF f THEN {} ELSE p.db,
            !.lo = IF f THEN {} ELSE p.lo,       \* a reload may start from an empty table
            !.ann = {}, !.kfNow = {}]

(* IPvX Prefix PDU, announce (flag 1) / withdraw (flag 0). Set semantics: a duplicate announcement
   and the withdrawal of an unknown record change nothing. The text does not say whether a change
   is visible before End of Data: an announced record may already be present (hi grows), a withdrawn
   one may already be gone (lo shrinks). *)
PPfx(p, isAnn, r) ==
  IF isAnn THEN [p EXCEPT !.acc = @ \cup {r}, !.hi = @ \cup {r}, !.ann = @ \cup {r}]
  ELSE [p EXCEPT !.acc = @ \ {r}, !.lo = @ \ {r},
                 \* signature of KF-C16-withdraw-in-response: r was announced earlier in this response
                 !.kfNow = IF r \in p.ann THEN @ \cup {r} ELSE @,
                 !.kfA = @ \ {r}, !.kfC = @ \ {r}]

(* End of Data: the response is complete; unless the router has another reload outstanding the
   table content of this cache is now exactly `acc`. *)
PEod(p, sid) ==
  LET flush == sid # p.psid
      a2 == ((IF flush THEN {} ELSE p.kfA) \cup p.kfNow) \ p.acc
      \* signature of KF-C16-reload-same-session: complete reload, same session id as before:
      \* whatever was held and is not part of the reload
      c2 == IF flush THEN {} ELSE IF p.full THEN ((p.hi \cup p.kfC) \ p.acc) \ a2 ELSE p.kfC \ p.acc
      rs == HasReset(p.cq)
  IN [p EXCEPT !.phase = "idle", !.db = p.acc, !.psid = sid,
               !.lo = IF rs THEN {} ELSE p.acc, !.hi = IF rs THEN p.hi ELSE p.acc,
               !.ann = {}, !.kfNow = {}, !.kfA = a2, !.kfC = c2]

(* Cache Reset PDU: "I cannot answer your Serial Query incrementally" - answers it *)
PCacheReset(p) == [p EXCEPT !.cq = IF p.cq # <<>> /\ Head(p.cq) = "serial" THEN Tail(p.cq) ELSE p.cq]

(* management: soft reset = ask for a reload; the router may drop what it has at once *)
PSoftReset(p) == [p EXCEPT !.lo = {}, !.ann = {}, !.kfNow = {}, !.kfA = {}, !.kfC = {}]

(* The records announced and not withdrawn by the configured caches *)
RoaExpected(c) == IF ps[c].cfg THEN ps[c].db ELSE {}
Exact(c) == ps[c].lo = ps[c].hi

---------------------------------------------------------------------------
(* Mechanism layer *)

MInit == [cfg |-> FALSE, conn |-> FALSE, sid |-> 0, serial |-> 0, eod |-> FALSE, pend |-> {},
          oq |-> <<>>, reload |-> FALSE]
(* oq / reload exist only in the repaired client (Fix.c): the queries sent on this connection and
   not answered yet, and "the response in progress answers a Reset Query".  The pinned code has no
   such state; there the two fields are ghosts. *)

(* roaClient.softReset: Reset Query, endOfData = false, pending buffer dropped (only when connected) *)
MSoftReset(m)  == IF m.conn THEN [m EXCEPT !.eod = FALSE, !.pend = {}, !.oq = Append(@, "reset")] ELSE m
QSoftReset(m)  == IF m.conn THEN <<"reset">> ELSE <<>>
(* roaClient.enable: Serial Query *)
MEnable(m)     == IF m.conn THEN [m EXCEPT !.oq = Append(@, "serial")] ELSE m
QEnable(m)     == IF m.conn THEN <<"serial">> ELSE <<>>

(* newRoaClient (AddServer) *)
MAdd(m) == [MInit EXCEPT !.cfg = TRUE]
(* roaConnected + established(): the connection is up and a Reset Query is sent *)
MConnect(m) == MSoftReset([m EXCEPT !.conn = TRUE])
(* roaDisconnected *)
MDisconnect(m) == [m EXCEPT !.conn = FALSE, !.eod = FALSE, !.pend = {}, !.oq = <<>>, !.reload = FALSE]

(* handleRTRMsg, RTRSerialNotify *)
MNotify(m, sn) == IF m.serial < sn THEN MEnable(m) ELSE IF m.serial = sn THEN m ELSE MSoftReset(m)
QNotify(m, sn) == IF m.serial < sn THEN QEnable(m) ELSE IF m.serial = sn THEN <<>> ELSE QSoftReset(m)
(* RTRCacheResponse *)
MResp(m) == [m EXCEPT !.eod = FALSE,
                      !.reload = (m.oq # <<>> /\ Head(m.oq) = "reset"),
                      !.oq = IF m.oq = <<>> THEN <<>> ELSE Tail(m.oq)]
(* RTRCacheReset *)
MCacheReset(m) == MSoftReset([m EXCEPT !.oq = IF m.oq # <<>> /\ Head(m.oq) = "serial" THEN Tail(m.oq) ELSE m.oq])
(* RTRIPPrefix: an announcement is buffered until End of Data (applied at once after it); a
   withdrawal is applied to the table at once.  Fix.a: a withdrawal also cancels a buffered
   announcement of the same record. *)
MPfx(m, isAnn, r) == IF isAnn THEN (IF m.eod THEN m ELSE [m EXCEPT !.pend = @ \cup {r}])
                     ELSE (IF Fix.a THEN [m EXCEPT !.pend = @ \ {r}] ELSE m)
TPfx(m, t, isAnn, r) == IF isAnn THEN (IF m.eod THEN t \cup {r} ELSE t) ELSE t \ {r}
(* RTREndOfData: DeleteAll(host) when the session id changed (Fix.c: also when this response
   answers a Reset Query), then the buffer is added *)
EodFlush(m, sid) == m.sid # sid \/ (Fix.c /\ m.reload)
MEod(m, sid, sn) == [m EXCEPT !.sid = sid, !.serial = sn, !.eod = TRUE, !.pend = {}, !.reload = FALSE]
TEod(m, t, sid) == (IF EodFlush(m, sid) THEN {} ELSE t) \cup m.pend

---------------------------------------------------------------------------
(* Actions: one per real step. `qs` = the queries the cache reads during the step (in the closed
   system the ones the mechanism sends; in a trace the ones the cache recorded). *)

Step(c, p2, m2, t2, qs) ==
  /\ ps'  = [ps  EXCEPT ![c] = PQueries(p2, qs)]
  /\ ms'  = [ms  EXCEPT ![c] = m2]
  /\ tbl' = [tbl EXCEPT ![c] = t2]

(* AddRpki accepted: client created, connects at once (the cache is listening), sends Reset Query *)
AddRpki(c, qs) == /\ ~ms[c].cfg
                  /\ Step(c, PAdd(ps[c]), MConnect(MAdd(ms[c])), tbl[c], qs)
QAddRpki(c) == <<"reset">>

(* DeleteRpki accepted: DeleteServer = stop + DeleteAll(host) + forget the client *)
DeleteRpki(c) == /\ ms[c].cfg
                 /\ Step(c, PInit, MInit, {}, <<>>)

(* the transport session is lost (the cache closes it) and the client reconnects at once *)
Bounce(c, qs) == /\ ms[c].cfg /\ ms[c].conn
                 /\ Step(c, PDown(ps[c]), MConnect(MDisconnect(ms[c])), tbl[c], qs)
QBounce(c) == <<"reset">>

(* ResetRpki / DisableRpki (roaManager.Reset = Disable): the connection is closed, DeleteAll is
   called with the bare address while the entries are keyed by host:port (no effect; Fix.b: the
   entries of the cache are removed); the client reconnects at once.  The text does not say that a
   reset must (or must not) drop the records: both are accepted until the reload completes. *)
ResetRpki(c, qs) == /\ ms[c].cfg /\ ms[c].conn
                    /\ Step(c, [PDown(ps[c]) EXCEPT !.lo = {}], MConnect(MDisconnect(ms[c])),
                            IF Fix.b THEN {} ELSE tbl[c], qs)

(* ResetRpki{soft}: DeleteAll(host:port) then softReset() *)
SoftResetRpki(c, qs) == /\ ms[c].cfg
                        /\ Step(c, PSoftReset(ps[c]), MSoftReset(ms[c]), {}, qs)
(* EnableRpki: Serial Query with the current serial *)
EnableRpki(c, qs) == /\ ms[c].cfg
                     /\ Step(c, ps[c], MEnable(ms[c]), tbl[c], qs)

CanResp(c)  == ms[c].cfg /\ ms[c].conn /\ ps[c].phase = "idle" /\ ps[c].cq # <<>>
InResp(c)   == ms[c].cfg /\ ms[c].conn /\ ps[c].phase = "resp"
IdleConn(c) == ms[c].cfg /\ ms[c].conn /\ ps[c].phase = "idle"

Resp(c) == /\ CanResp(c)
           /\ Step(c, PResp(ps[c]), MResp(ms[c]), tbl[c], <<>>)
Pfx(c, isAnn, r) == /\ InResp(c)
                    /\ Step(c, PPfx(ps[c], isAnn, r), MPfx(ms[c], isAnn, r), TPfx(ms[c], tbl[c], isAnn, r), <<>>)
Eod(c, sid, sn) == /\ InResp(c)
                   /\ Step(c, PEod(ps[c], sid), MEod(ms[c], sid, sn), TEod(ms[c], tbl[c], sid), <<>>)
Notify(c, sn, qs) == /\ IdleConn(c)
                     /\ Step(c, ps[c], MNotify(ms[c], sn), tbl[c], qs)
CacheReset(c, qs) == /\ IdleConn(c)
                     /\ Step(c, PCacheReset(ps[c]), MCacheReset(ms[c]), tbl[c], qs)
ErrorReport(c) == /\ IdleConn(c)
                  /\ UNCHANGED vars

Init == /\ ps  = [c \in Caches |-> PInit]
        /\ ms  = [c \in Caches |-> MInit]
        /\ tbl = [c \in Caches |-> {}]

---------------------------------------------------------------------------
(* Design level: mechanism => property layer *)

D_C16_Lower == \A c \in Caches : ps[c].lo \subseteq tbl[c]
D_C16_Upper == \A c \in Caches : tbl[c] \subseteq ps[c].hi
(* without the repairs: every stale record carries the signature of one of the two findings *)
D_C16_UpperKF == \A c \in Caches :
   (tbl[c] \ ps[c].hi) \subseteq ((IF Fix.a THEN {} ELSE ps[c].kfA) \cup (IF Fix.c THEN {} ELSE ps[c].kfC))
D_Sandwich == \A c \in Caches : ps[c].lo \subseteq ps[c].hi
D_Unconfigured == \A c \in Caches : ~ms[c].cfg => (tbl[c] = {} /\ ps[c].hi = {})
=============================================================================
