---------------------------- MODULE BestPathDom ----------------------------
(* Concrete vocabulary shared by the exhaustive pools, the behaviour generator and the
   Go harness (which receives SrcTable inside every generated behaviour). *)
EXTENDS Integers, Sequences

AllSources == {"L", "E1", "E2", "E3", "I1", "I2", "C1", "C2"}

(* rid / addr orders deliberately disagree with each other and with the alphabetical order *)
SrcTable ==
  [s \in AllSources |->
     CASE s = "L"  -> [kind |-> "local",  as |-> 0,     rid |-> 9, addr |-> 0]
       [] s = "E1" -> [kind |-> "ebgp",   as |-> 65001, rid |-> 5, addr |-> 2]
       [] s = "E2" -> [kind |-> "ebgp",   as |-> 65001, rid |-> 3, addr |-> 4]
       [] s = "E3" -> [kind |-> "ebgp",   as |-> 65002, rid |-> 7, addr |-> 1]
       [] s = "I1" -> [kind |-> "ibgp",   as |-> 65000, rid |-> 6, addr |-> 5]
       [] s = "I2" -> [kind |-> "ibgp",   as |-> 65000, rid |-> 2, addr |-> 8]
       [] s = "C1" -> [kind |-> "confed", as |-> 65010, rid |-> 4, addr |-> 6]
       [] s = "C2" -> [kind |-> "confed", as |-> 65011, rid |-> 8, addr |-> 3]]

Seg(t, as) == [t |-> t, as |-> as]

(* AS_PATH shapes, parameterised by the first (neighbouring) AS f *)
Shape(n, f) ==
  CASE n = 1 -> <<Seg("SEQ", <<f>>)>>
    [] n = 2 -> <<Seg("SEQ", <<f, 64999>>)>>
    [] n = 3 -> <<Seg("SEQ", <<f>>), Seg("SET", <<7, 8, 9>>)>>
    [] n = 4 -> <<Seg("CSEQ", <<65100, 65101>>), Seg("SEQ", <<f>>)>>
    [] n = 5 -> <<>>
    [] n = 6 -> <<Seg("SET", <<f, 8>>)>>
    [] n = 7 -> <<Seg("CSEQ", <<65100>>)>>
    [] n = 8 -> <<Seg("SEQ", <<f, 64998, 64997>>)>>

FirstASes == {65001, 65002}
AllShapes == {Shape(n, f) : n \in 1..8, f \in FirstASes}

Route(s, st, nh, lp, p, o, m, t) ==
  [src |-> s, stale |-> st, nhinv |-> nh, lp |-> lp, path |-> p, origin |-> o, med |-> m, ts |-> t]

OptOf(a, i, e) == [acm |-> a, ignlen |-> i, extcmp |-> e]
Opt000 == OptOf(FALSE, FALSE, FALSE)
Opt100 == OptOf(TRUE,  FALSE, FALSE)
Opt010 == OptOf(FALSE, TRUE,  FALSE)
Opt001 == OptOf(FALSE, FALSE, TRUE)
Opt110 == OptOf(TRUE,  TRUE,  FALSE)
Opt101 == OptOf(TRUE,  FALSE, TRUE)
Opt011 == OptOf(FALSE, TRUE,  TRUE)
Opt111 == OptOf(TRUE,  TRUE,  TRUE)
=============================================================================
