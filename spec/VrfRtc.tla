---------------------------- MODULE VrfRtc ----------------------------
(* C17 - VRF import/export (RFC 4364) and Route Target Constraint (RFC 4684).

   PROPERTY LAYER (this module).  Three relations, all functions of the input history only:

     VPN routes   VpnRoutes: records [rd, x, label, rts, v, src]
                    rd, x   route distinguisher and IP prefix (the VPN NLRI is the pair)
                    label   MPLS label carried in the NLRI
                    rts     the SET of route-target extended communities of the route
                    v       a tag (carried as a standard community) identifying the announcement
                    src     "N2" (learned from the VPN neighbour), "CE" (learned from the CE
                            neighbour attached to VRF v1) or "local" (injected into a VRF by API)
     VRFs         vrfs: records [name, rd, label, imp, exp] (imp/exp = import / export RT sets)
     memberships  mem: records [as, rt, id] - the RT membership NLRIs the RTC neighbour N1 has
                  announced and not withdrawn on its CURRENT session (origin AS, target or "def"
                  for the default membership 0:0:0/0, ADD-PATH identifier).  No import policy is
                  configured, so every membership is an accepted one.

   From these (transcribing the property text, RFC 4364 4.3.1/4.3.5, RFC 4684 3/6):
     VrfVisible(n)        RFC 4364 4.3.5: a VPN route is eligible for installation in a VRF iff it
                          carries one of the VRF's import targets
     CeExport, CeOk       what the CE attached to v1 must have been told: the plain forms of
                          VrfVisible("v1") except its own routes, one per IP prefix
     VrfOriginatedExport  RFC 4364 4.3.1: a route learned from a CE / injected into a VRF is
                          exported as a VPN route with the VRF's RD, label and export targets
     RtcExport(p)         RFC 4684 6: VPN routes advertised to an RTC neighbour iff it has a
                          membership for one of the route's targets (or the default membership)
     AllExport(p)         a VPN neighbour that did not negotiate RTC gets every VPN route

   Only transitive route targets count for VRF import (property text).  The vocabulary has one
   non-transitive target "nt1" (the value of rt1 with the non-transitive type): as a value it is
   simply different from rt1, so it is in no import set and no membership names it.

   The RTC deferral (RFC 4684 6: "wait for the End-of-RIB of the RT membership family"): after N1's
   session comes up with a deferral time configured, VPN routes may be withheld until N1's RTC
   End-of-RIB or until the deferral time has passed.  The property text is silent about the
   waiting period, so while Waiting only the one-sided condition "nothing that N1 has no
   membership for" is required; equality is required from the end of the wait on.

   The MECHANISM layer (code-shaped incremental updates, with the known defects as named
   switches) is VrfRtcMech.tla. *)
EXTENDS Integers, Sequences, FiniteSets, TLC

NoVrf == [name |-> "none"]

VARIABLES
  cfg,       \* [defer: Nat (seconds, 0 = no deferral), addpath: BOOLEAN]
  up,        \* up[p], p \in {"N1","N2","CE"}: session established
  ceOn,      \* the CE neighbour is configured (attached to VRF v1)
  nin,       \* set of [src, rd, x, label, rts, v, lp]: VPN routes the PE neighbours N2 / N3 have
             \* announced and not withdrawn (lp = LOCAL_PREF sent by the iBGP neighbour N3, 0 = none)
  cein,      \* set of [x, v]: routes the CE has announced and not withdrawn
  loc,       \* set of [vrf, x, v]: routes injected into a VRF through the API
  vrfs,      \* set of VRF records (unique names)
  mem,       \* set of [as, rt, id]: N1's memberships on its current session
  wait,      \* N1's VPN routes may still be withheld (RTC End-of-RIB wait)
  eor,       \* N1 has sent the RTC End-of-RIB on its current session
  deadline,  \* virtual time (ms) at which the wait ends at the latest
  now        \* virtual time (ms)

pvars == <<cfg, up, ceOn, nin, cein, loc, vrfs, mem, wait, eor, deadline, now>>

PeerNames == {"N1", "N2", "N3", "CE"}
PEs == {"N2", "N3"}       \* sources of VPN routes: N2 (eBGP), N3 (iBGP, sends LOCAL_PREF)
CeVrf == "v1"

PInit(c) == /\ cfg = c
            /\ up = [p \in PeerNames |-> FALSE] /\ ceOn = FALSE
            /\ nin = {} /\ cein = {} /\ loc = {} /\ vrfs = {} /\ mem = {}
            /\ wait = FALSE /\ eor = FALSE /\ deadline = 0 /\ now = 0

---------------------------------------------------------------------------
(* the relations *)

HasVrf(n) == \E w \in vrfs : w.name = n
V(n)      == CHOOSE w \in vrfs : w.name = n

FromVrf(w, x, v, src) == [rd |-> w.rd, x |-> x, label |-> w.label, rts |-> w.exp, v |-> v, src |-> src]

(* every path of the global VPN table.  A route originated in a VRF (src CE / local) exists exactly
   while its VRF (and, for CE routes, the CE neighbour) exists: it lives and dies with the VRF,
   whatever other paths the same VPN NLRI has. *)
VpnPaths ==
  {[rd |-> r.rd, x |-> r.x, label |-> r.label, rts |-> r.rts, v |-> r.v, src |-> r.src] : r \in nin}
  \cup {FromVrf(V(CeVrf), c.x, c.v, "CE") : c \in {d \in cein : HasVrf(CeVrf)}}
  \cup {FromVrf(V(l.vrf), l.x, l.v, "local") : l \in {m \in loc : HasVrf(m.vrf)}}

Key(r)  == <<r.rd, r.x>>

(* Several paths of one VPN NLRI (a PE announcing the RD + prefix a local VRF originates): the
   decision process as far as this vocabulary varies it (C03): higher LOCAL_PREF (default 100; only
   the iBGP neighbour N3 sends one), then locally originated before learned.  LOCAL_PREF values
   are chosen so that no further tie exists. *)
Lp(r) == IF r.src = "N3" THEN (CHOOSE q \in nin : q.src = "N3" /\ <<q.rd, q.x>> = Key(r)).lp ELSE 100
Better(a, b) == Lp(a) > Lp(b) \/ (Lp(a) = Lp(b) /\ a.src = "local" /\ b.src # "local")
(* the best path of every VPN NLRI: what is advertised *)
VpnRoutes == {r \in VpnPaths : \A q \in VpnPaths : (Key(q) = Key(r) /\ q # r) => Better(r, q)}
Wire(r) == [rd |-> r.rd, x |-> r.x, label |-> r.label, rts |-> r.rts, v |-> r.v]

(* RFC 4364 4.3.5 / property text: imported iff one of the route's (transitive) targets is in
   the VRF's import set *)
Imports(w, r) == r.rts \cap w.imp # {}

VrfVisible(n) == {[rd |-> r.rd, x |-> r.x, v |-> r.v, src |-> r.src] :
                     r \in {q \in VpnPaths : Imports(V(n), q)}}

(* told to the CE as plain routes; never back to the neighbour the route came from *)
CeExport == {[x |-> r.x, v |-> r.v] : r \in {q \in VpnRoutes : q.src # "CE" /\ Imports(V(CeVrf), q)}}

(* Two VPN routes with different RDs may have the same IP prefix (a site reached through two PEs):
   both are visible in the VRF, but the CE can be told one plain route per prefix.  WHICH one is not
   determined by the property text, so the oracle is a predicate: only plain forms of imported
   routes, one per prefix (C17_CeExport), and every prefix that has an imported route (C17_CeComplete) *)
CeSound(W)    == W \subseteq CeExport /\ \A e, f \in W : e.x = f.x => e = f
CeComplete(W) == {c.x : c \in CeExport} \subseteq {e.x : e \in W}
CeOk(W)       == CeSound(W) /\ CeComplete(W)

VrfOriginatedExport == {r \in VpnPaths : r.src \in {"CE", "local"}}
LearnedPaths == {r \in VpnPaths : r.src \in PEs}

(* RFC 4684 6 / property text *)
InterestedIn(M, r) == \E m \in M : m.rt = "def" \/ m.rt \in r.rts
Interested(r)      == InterestedIn(mem, r)
(* never back to the neighbour a route came from; a route learned from an internal neighbour is
   not passed to another internal neighbour (RFC 4271 9.2; no route reflection here) *)
Internal == {"N1", "N3"}
MayAdv(p, r) == r.src # p /\ ~(p \in Internal /\ r.src \in Internal)
RtcExport(p) == {Wire(r) : r \in {q \in VpnRoutes : MayAdv(p, q) /\ Interested(q)}}
AllExport(p) == {Wire(r) : r \in {q \in VpnRoutes : MayAdv(p, q)}}

Waiting == up["N1"] /\ wait

---------------------------------------------------------------------------
(* inputs.  Each operator is the effect of one event on the relations. *)

KeyOfN(r) == <<r.src, r.rd, r.x>>

PUp(p) ==
  /\ p \in {"N1", "N2", "N3"} /\ ~up[p]
  /\ up' = [up EXCEPT ![p] = TRUE]
  /\ IF p = "N1"
     THEN /\ mem' = {} /\ eor' = FALSE
          /\ wait' = (cfg.defer > 0) /\ deadline' = now + 1000 * cfg.defer
          /\ UNCHANGED nin
     ELSE /\ nin' = {q \in nin : q.src # p} /\ UNCHANGED <<mem, eor, wait, deadline>>
  /\ UNCHANGED <<cfg, ceOn, cein, loc, vrfs, now>>

PDown(p) ==
  /\ p \in {"N1", "N2", "N3"} /\ up[p]
  /\ up' = [up EXCEPT ![p] = FALSE]
  /\ IF p = "N1"
     THEN mem' = {} /\ wait' = FALSE /\ eor' = FALSE /\ UNCHANGED nin
     ELSE nin' = {q \in nin : q.src # p} /\ UNCHANGED <<mem, wait, eor>>
  /\ UNCHANGED <<cfg, ceOn, cein, loc, vrfs, deadline, now>>

(* the CE neighbour is configured (it needs its VRF) and its session established *)
PCeUp ==
  /\ ~ceOn /\ HasVrf(CeVrf)
  /\ ceOn' = TRUE /\ up' = [up EXCEPT !["CE"] = TRUE] /\ cein' = {}
  /\ UNCHANGED <<cfg, nin, loc, vrfs, mem, wait, eor, deadline, now>>
(* the CE neighbour is deleted *)
PCeDown ==
  /\ ceOn
  /\ ceOn' = FALSE /\ up' = [up EXCEPT !["CE"] = FALSE] /\ cein' = {}
  /\ UNCHANGED <<cfg, nin, loc, vrfs, mem, wait, eor, deadline, now>>

PVAnn(r) == /\ r.src \in PEs /\ up[r.src]
            /\ nin' = {q \in nin : KeyOfN(q) # KeyOfN(r)} \cup {r}
            /\ UNCHANGED <<cfg, up, ceOn, cein, loc, vrfs, mem, wait, eor, deadline, now>>
PVWd(r)  == /\ r.src \in PEs /\ up[r.src]
            /\ nin' = {q \in nin : KeyOfN(q) # KeyOfN(r)}
            /\ UNCHANGED <<cfg, up, ceOn, cein, loc, vrfs, mem, wait, eor, deadline, now>>

PMAnn(m) == /\ up["N1"]
            /\ mem' = mem \cup {m}
            /\ UNCHANGED <<cfg, up, ceOn, nin, cein, loc, vrfs, wait, eor, deadline, now>>
PMWd(m)  == /\ up["N1"]
            /\ mem' = mem \ {m}
            /\ UNCHANGED <<cfg, up, ceOn, nin, cein, loc, vrfs, wait, eor, deadline, now>>
(* RTC End-of-RIB from N1: the wait, if any, is over *)
PMEor    == /\ up["N1"]
            /\ eor' = TRUE /\ wait' = FALSE
            /\ UNCHANGED <<cfg, up, ceOn, nin, cein, loc, vrfs, mem, deadline, now>>

(* d seconds pass; the wait ends when the deferral time has passed *)
Expires(d) == Waiting /\ deadline <= now + 1000 * d
PTick(d) == /\ now' = now + 1000 * d
            /\ wait' = (wait /\ ~Expires(d))
            /\ UNCHANGED <<cfg, up, ceOn, nin, cein, loc, vrfs, mem, eor, deadline>>

(* VRF configuration.  Adding a VRF whose name exists, deleting one that does not exist or that
   a configured neighbour is attached to, is refused: nothing changes. *)
AddOk(w)  == ~HasVrf(w.name)
DelOk(n)  == HasVrf(n) /\ ~(n = CeVrf /\ ceOn)
PAddVrf(w) == /\ vrfs' = IF AddOk(w) THEN vrfs \cup {w} ELSE vrfs
              /\ UNCHANGED <<cfg, up, ceOn, nin, cein, loc, mem, wait, eor, deadline, now>>
(* the routes injected into a deleted VRF go with it *)
PDelVrf(n) == /\ vrfs' = IF DelOk(n) THEN {w \in vrfs : w.name # n} ELSE vrfs
              /\ loc'  = IF DelOk(n) THEN {l \in loc : l.vrf # n} ELSE loc
              /\ UNCHANGED <<cfg, up, ceOn, nin, cein, mem, wait, eor, deadline, now>>

PCeAnn(x, v) == /\ up["CE"]
                /\ cein' = {c \in cein : c.x # x} \cup {[x |-> x, v |-> v]}
                /\ UNCHANGED <<cfg, up, ceOn, nin, loc, vrfs, mem, wait, eor, deadline, now>>
PCeWd(x)     == /\ up["CE"]
                /\ cein' = {c \in cein : c.x # x}
                /\ UNCHANGED <<cfg, up, ceOn, nin, loc, vrfs, mem, wait, eor, deadline, now>>

(* AddPath / DeletePath with a VRF id; refused when the VRF does not exist *)
PApiAdd(n, x, v) == /\ loc' = IF HasVrf(n) THEN {l \in loc : ~(l.vrf = n /\ l.x = x)} \cup {[vrf |-> n, x |-> x, v |-> v]}
                                           ELSE loc
                    /\ UNCHANGED <<cfg, up, ceOn, nin, cein, vrfs, mem, wait, eor, deadline, now>>
PApiDel(n, x)    == /\ loc' = {l \in loc : ~(l.vrf = n /\ l.x = x)}
                    /\ UNCHANGED <<cfg, up, ceOn, nin, cein, vrfs, mem, wait, eor, deadline, now>>
=============================================================================
