---------------------------- MODULE SpeakerDom ----------------------------
(* Concrete vocabulary for Speaker: neighbour sets and the route domain. The generator prints
   PInfo in every behaviour so that the Go harness builds exactly these neighbours. *)
EXTENDS Integers, Sequences

P3 == {"A", "B", "C"}
Pfx2 == {"x1", "x2"}

Info(k, as, i) == [kind |-> k, as |-> as, idx |-> i, sendmax |-> 0]

PI_ebgp3 == [p \in P3 |-> CASE p = "A" -> Info("ebgp", 65001, 0)
                            [] p = "B" -> Info("ebgp", 65002, 1)
                            [] p = "C" -> Info("ebgp", 65003, 2)]
PI_mixed == [p \in P3 |-> CASE p = "A" -> Info("ebgp", 65001, 0)
                            [] p = "B" -> Info("ibgp", 65000, 1)
                            [] p = "C" -> Info("ebgp", 65003, 2)]
PI_rr    == [p \in P3 |-> CASE p = "A" -> Info("rrc",  65000, 0)
                            [] p = "B" -> Info("ibgp", 65000, 1)
                            [] p = "C" -> Info("ebgp", 65003, 2)]

(* C is an ADD-PATH receiver: the speaker sends it up to send-max 2 paths per prefix *)
PI_addpath == [p \in P3 |-> CASE p = "A" -> Info("ebgp", 65001, 0)
                              [] p = "B" -> Info("ebgp", 65002, 1)
                              [] p = "C" -> [Info("ebgp", 65003, 2) EXCEPT !.sendmax = 2]]

(* three route-server clients *)
PI_rs == [p \in P3 |-> CASE p = "A" -> Info("rs", 65001, 0)
                         [] p = "B" -> Info("rs", 65002, 1)
                         [] p = "C" -> Info("rs", 65003, 2)]
(* route-server clients never send LOCAL_PREF (variant 4 would make selection depend on it) *)
RsVarCodes == {0, 1, 2, 3, 5}

(* variant codes of a neighbour's routes (unique AS_PATH lengths across sources, see Speaker) *)
VarCodes == 0..5
ViaOf(pi, p) == IF p = "C" THEN 65001 ELSE 65003
MkRoute(pi, p, c) ==
  LET i  == pi[p].idx
      b0 == 1 + 2 * i
      b1 == 1 + 2 * (i + 3)
  IN [src |-> p, v |-> 16 * (i + 1) + c,
      len  |-> CASE c \in {0, 5} -> b0 [] c \in {1, 4} -> b1 [] OTHER -> b0 + 1,
      lp   |-> IF c = 4 THEN 200 ELSE -1,
      med  |-> IF c = 5 THEN 50 ELSE -1,
      loop |-> c = 2,
      via  |-> IF c = 3 THEN ViaOf(pi, p) ELSE 0, pp |-> 0, cm |-> 0]

MkLocal(c) == [src |-> "local", v |-> 1 + c, len |-> 0, lp |-> -1, med |-> IF c = 1 THEN 50 ELSE -1,
               loop |-> FALSE, via |-> 0, pp |-> 0, cm |-> 0]
=============================================================================
