---------------------------- MODULE MCPacking ----------------------------
(* Exhaustive small-scope pools for Packing (design level):
     - the CODE-SHAPED mechanism (last action per WIRE key since f403483, at least one NLRI per
       message since 9eb707a) satisfies every C11 property for every list of the pool and both
       group orders (D_Repaired);
     - sensitivity: each of the two repaired deviations, put back, breaks the property exactly in
       its history shape (D_CodeExceptKF / D_KFExact: no clamp; D_OldDedupExact: local-id de-dup);
     - the fold that defines Expected equals its declarative definition.
   Pool "keys"  : repeated keys, local ids, kinds, two families, End-of-RIB (limit 4096).
   Pool "sizes" : one local id; attribute blocks that leave room for 2 / 0 / -1 worst-case NLRI
                  under a small limit, prefixes of every length, MP budget splitting. *)
EXTENDS Packing, PackingDom, Json

CONSTANTS Ap, Limit, MaxLen, Pool, Emit

S == [ap |-> Ap, limit |-> Limit]

VARIABLE hist      \* sequence of abstract changes (GChg records)
vars == <<hist>>

Ann(fam, p, lid, a, ab, nh) == GChg(fam, p, PlenOf(fam, p), lid, "ann", a, ab, nh)
Wd(fam, p, lid)             == GChg(fam, p, PlenOf(fam, p), lid, "wd", 0, 0, "-")

Dom ==
  CASE Pool = "keys" ->
         {Ann("v4", p, i, a, BaseAb("v4", nh) + 3 * a, nh) : p \in {0, 1}, i \in {1, 2}, a \in {1, 2}, nh \in {"n4a", "n6a"}}
         \cup {Wd("v4", p, i) : p \in {0, 1}, i \in {1, 2}}
         \cup {Ann("v6", 0, i, a, 20 + 3 * a, "n6a") : i \in {1, 2}, a \in {1, 2}}
         \cup {Wd("v6", 0, i) : i \in {1, 2}}
         \cup {EorChg("v4"), EorChg("v6")}
    [] Pool = "keys1" ->      \* one family, one prefix: every list up to MaxLen is EXECUTED on the code
         {Ann("v4", 0, i, a, 27 + 3 * a, "n4a") : i \in {1, 2}, a \in {1, 2}}
         \cup {Wd("v4", 0, i) : i \in {1, 2}} \cup {Ann("v4", 1, 1, 1, 30, "n4a"), EorChg("v4")}
    [] Pool = "keysm" ->      \* IPv4 unicast whose next hop is carried only in MP_REACH_NLRI (m4a/m4b)
         {Ann("v4", p, 1, 1, BaseAb("v4", nh) + 3, nh) : p \in {0, 1}, nh \in {"m4a", "m4b", "n4a"}}
         \cup {Wd("v4", p, 1) : p \in {0, 1}}
    [] Pool = "keys6" ->
         {Ann("v6", 0, i, a, 20 + 3 * a, nh) : i \in {1, 2}, a \in {1, 2}, nh \in {"n6a", "n6al"}}
         \cup {Wd("v6", 0, i) : i \in {1, 2}} \cup {EorChg("v6")}
    [] Pool = "sizes" ->      \* Limit = 100
         {Ann("v4", p, 1, a, <<67, 73, 83>>[a], "n4a") : p \in 0..3, a \in 1..3}
         \cup {Wd("v4", p, 1) : p \in {0, 1}}
         \cup {Ann("v6", p, 1, a, <<20, 43>>[a], "n6a") : p \in 0..2, a \in 1..2}
         \cup {EorChg("v4")}

Init == hist = <<>>
Next == /\ Len(hist) < MaxLen
        /\ \E c \in Dom : hist' = Append(hist, c)
Spec == Init /\ [][Next]_vars

Ch == [i \in 1..Len(hist) |-> Concrete(Ap, hist[i])]

Orders   == {"fwd", "rev"}
Repaired(o) == [dedup |-> "wire", clamp |-> TRUE, order |-> o]
Code(o)     == [dedup |-> "wire", clamp |-> FALSE, order |-> o]     \* before 9eb707a = mutant C11-v4-noroom-revert
OldCode(o)  == [dedup |-> "local", clamp |-> FALSE, order |-> o]    \* before f403483 too = mutant C11-localid-dedup

D_FoldIsDecl == Expected(S, Ch) = ExpectedDecl(S, Ch)

D_Repaired == \A o \in Orders : AllProps(S, Ch, Pack(S, Repaired(o), Ch))

LastWireIn(ch, i) == ~\E j \in (i+1)..Len(ch) : IsRoute(ch[j]) /\ Key(S, ch[j]) = Key(S, ch[i])

(* facts about one packing pass *)
Facts(ch, out) ==
  LET K == KeySet(S, ch) IN
  [K   |-> K, e |-> Expected(S, ch), own |-> Own(S, ch), v |-> Fold(K, out.msgs),
   eo  |-> [f \in Families |-> EorOutAt(out.msgs, f)],
   rep |-> UNION {IF out.msgs[i].sent THEN {} ELSE MsgKeys(out.msgs[i]) : i \in 1..Len(out.msgs)}]

(* the mechanism without the clamp: everything holds, except what finding C11-v4-noroom
   describes (tol = TRUE additionally tolerates the local-id shape, for the old de-duplication) *)
CodeOk(ch, out, tol) ==
  LET x == Facts(ch, out) IN
  IF out.panic THEN \E i \in 1..Len(ch) : V4Panics(S, ch[i])
  ELSE /\ \A i \in 1..Len(out.msgs) : FitsMsg(S, x.own, out.msgs[i]) /\ HomogeneousMsg(x.own, out.msgs[i])
       /\ Strays(x.K, out.msgs) = {}
       /\ EorKeptP(EorIn(ch), x.e, x.v, x.eo)
       /\ \A k \in x.K :
            IF Oversize(S, x.e[k]) THEN k \in x.rep \/ V4NoRoom(S, ch[x.e[k].idx])
            ELSE \/ Same(x.v[k], x.e[k])
                 \/ (V4NoRoom(S, ch[x.e[k].idx]) /\ x.v[k].st # "route")
                 \/ (tol /\ LocalIdShape(S, ch, k, x.e[k].idx))

(* NOT an invariant: the unclamped mechanism violates the property in the no-room shape; kept so
   that the sensitivity of the pools can be re-checked by hand *)
D_CodeStrict == \A o \in Orders : AllProps(S, Ch, Pack(S, Code(o), Ch))

D_CodeExceptKF == \A o \in Orders : CodeOk(Ch, Pack(S, Code(o), Ch), FALSE)

(* the no-room shape is exact: a fitting route without room is really lost, a list with a
   surviving negative quotient really panics (and no other list does) *)
D_KFExact ==
  LET ch == Ch
      po == [o \in Orders |-> Pack(S, Code(o), ch)]
  IN /\ (\E i \in 1..Len(ch) : V4Panics(S, ch[i]) /\ LastWireIn(ch, i)) <=> po["fwd"].panic
     /\ ~po["fwd"].panic =>
          LET x == Facts(ch, po["fwd"]) IN
          \A k \in x.K : (V4NoRoom(S, ch[x.e[k].idx]) /\ ~Oversize(S, x.e[k])) => ~Same(x.v[k], x.e[k])

(* sensitivity of the model to the repaired defect (repo commit f403483): with the last action
   kept per LOCAL id the property fails, and it fails exactly in LocalIdShape *)
D_OldDedupExact ==
  LET ch == Ch
      po == [o \in Orders |-> Pack(S, OldCode(o), ch)]
  IN /\ \A o \in Orders : CodeOk(ch, po[o], TRUE)
     /\ ~po["fwd"].panic =>
          LET e == Expected(S, ch) K == KeySet(S, ch) IN
          \A k \in K :
            (LocalIdShape(S, ch, k, e[k].idx) /\ ~Oversize(S, e[k]) /\ ~V4NoRoom(S, ch[e[k].idx]))
               => \E o \in Orders : ~Same(Fold(K, po[o].msgs)[k], e[k])

(* behaviours for the real code: every list of the pool, once (exhaustive small scope) *)
EmitAll == (Emit /\ Len(hist) >= 1) =>
             PrintT("VPOUT " \o ToJson([sc |-> "exh", cfg |-> [ap |-> Ap, ext |-> Limit = 65535, collide |-> FALSE, as2 |-> FALSE],
                                        changes |-> hist]))
=============================================================================
