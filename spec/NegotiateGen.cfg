SPECIFICATION GenSpec
INVARIANTS
  Emit
