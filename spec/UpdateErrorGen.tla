---------------------------- MODULE UpdateErrorGen ----------------------------
(* Enumeration of the C06 cases and design-level checks.

   A case = peer type x treat-as-withdraw on/off x base message x (no fault | one fault | two
   faults) x position of the faulted attribute.  TLC enumerates the cases as INITIAL STATES (there
   is no behaviour: a case is one message); `Emit` prints each as one JSON schedule for the Go
   replayers; the D_* invariants check, on every case, the mechanism layer of UpdateError against
   its property layer.

   Sample: pairs are kept iff their index hash is 0 modulo SampleK (1 = all pairs; 0 = no pairs). *)
EXTENDS UpdateError, Json, SequencesExt

CONSTANTS SampleK, SampleR, WithPos

VARIABLES pt, taw, base, faults

(* a fixed (TLC-deterministic) order of the catalogue keys; kept in a TLC register because TLC
   re-evaluates SetToSeq (a Java override) on every use otherwise (measured: 33 s -> 6 s) *)
ASSUME TLCSet(7, SetToSeq(Kinds))
KindList == TLCGet(7)

F(kd, pos) == [a |-> kd[1], k |-> kd[2], pos |-> pos]

PosOf(kd) == IF WithPos /\ Positional(kd[1], kd[2]) THEN {"orig", "first", "last"} ELSE {"orig"}

(* groups of faults that cannot be combined in one message by the byte-level builder (they would
   touch the same octets), or whose combination has no defined reading *)
ValueMutating(k) == k \in {"len", "zlen", "val", "valm", "valb", "valbs", "segtype", "segzero", "segover", "nh",
                           "pfxlen", "ptrunc"}
Framing(a) == a \in {"ATTR", "TOTLEN"}
Compatible(x, y) ==
  /\ x # y
  /\ ~(x[1] = y[1] /\ (x[2] = "miss" \/ y[2] = "miss"))
  \* a second fault on a duplicated attribute: RFC 7606 3.g discards every occurrence but the first
  \* unexamined, so what the pair calls for depends on which instance is hit - no defined reading
  /\ ~(x[1] = y[1] /\ (x[2] = "dup" \/ y[2] = "dup"))
  /\ ~(x[1] = y[1] /\ ValueMutating(x[2]) /\ ValueMutating(y[2]))
  /\ ~(x[1] = "UNKNOWN" /\ y[1] = "UNKNOWN")
  /\ ~(Framing(x[1]) /\ Framing(y[1]))
  /\ ~(x[1] \in {"WDLEN", "WDPFX"} /\ y[1] \in {"WDLEN", "WDPFX"})
  /\ ~(x[1] = "NLRI" /\ y[1] = "NLRI")
  \* "alone" = AS4_AGGREGATOR without AGGREGATOR: no other fault may bring an AGGREGATOR along
  /\ ~(x = <<"AS4_AGGREGATOR", "alone">> /\ y[1] \in {"AS4_AGGREGATOR", "AGGREGATOR"})
  /\ ~(y = <<"AS4_AGGREGATOR", "alone">> /\ x[1] \in {"AS4_AGGREGATOR", "AGGREGATOR"})

(* a shortened Total Attribute Length cuts whatever attribute is last: do not pair it with a fault
   whose attribute was moved to the end (the cut would change the nature of that fault) *)
PosCompatible(x, px, y, py) ==
  /\ ~(x[1] = "TOTLEN" /\ x[2] = "short" /\ py = "last")
  /\ ~(y[1] = "TOTLEN" /\ y[2] = "short" /\ px = "last")

N == Len(KindList)
KA(i) == KindList[i][1]
KK(i) == KindList[i][2]

Singles(b, p) ==
  {<<F(KindList[i], pos)>> : i \in {j \in 1..N : Applies(KA(j), KK(j), b, p)}, pos \in {"orig", "first", "last"}}

Pick(i, j, q) == SampleK > 0 /\ (i * 37 + j * 101 + q * 7 + SampleR) % SampleK = 0

(* positions of a pair: both attributes movable: as is / one first, the other last;
   one movable: as is / first / last *)
PairPos(x, y) ==
  IF Positional(x[1], x[2]) /\ Positional(y[1], y[2])
  THEN {<<"orig", "orig">>, <<"first", "last">>, <<"last", "first">>}
  ELSE {pp \in PosOf(x) \X PosOf(y) : TRUE}
PosIdx(pp) == (IF pp[1] = "orig" THEN 0 ELSE IF pp[1] = "first" THEN 1 ELSE 2)
              + (IF pp[2] = "orig" THEN 0 ELSE IF pp[2] = "first" THEN 3 ELSE 6)

PairIdx(b, p) ==
  {ij \in (1..N) \X (1..N) :
      /\ ij[1] < ij[2]
      /\ Applies(KA(ij[1]), KK(ij[1]), b, p) /\ Applies(KA(ij[2]), KK(ij[2]), b, p)
      /\ Compatible(KindList[ij[1]], KindList[ij[2]])}

Pairs(b, p) ==
  UNION {{<<F(KindList[ij[1]], pp[1]), F(KindList[ij[2]], pp[2])>> :
            pp \in {q \in PairPos(KindList[ij[1]], KindList[ij[2]]) :
                      /\ (WithPos \/ q = <<"orig", "orig">>)
                      /\ PosCompatible(KindList[ij[1]], q[1], KindList[ij[2]], q[2])
                      /\ Pick(ij[1], ij[2], PosIdx(q))}} :
         ij \in PairIdx(b, p)}

Cases(b, p) ==
  {<<>>}
  \cup {s \in Singles(b, p) : s[1].pos \in PosOf(<<s[1].a, s[1].k>>)}
  \cup (IF SampleK > 0 THEN Pairs(b, p) ELSE {})

Init == /\ pt \in PeerTypes
        /\ taw \in BOOLEAN
        /\ base \in Bases
        /\ faults \in Cases(base, pt)

Next == UNCHANGED <<pt, taw, base, faults>>
Spec == Init /\ [][Next]_<<pt, taw, base, faults>>

FS == {[a |-> faults[i].a, k |-> faults[i].k] : i \in 1..Len(faults)}

Emit == PrintT("VPOUT " \o ToJson([pt |-> pt, taw |-> taw, base |-> base, faults |-> faults,
                                     lo |-> Lo(FS, pt, taw), rj |-> ResetJustified(FS, pt, taw),
                                     kf |-> KFTags(FS, pt, taw)]))

---------------------------------------------------------------------------
(* design level: mechanism layer against property layer *)

(* the catalogue is a function and a sandwich *)
CatalogueWellFormed ==
  \A p \in PeerTypes : \A r \in CatOf[p] :
     /\ Cardinality({q \in CatOf[p] : q.a = r.a /\ q.k = r.k}) = 1
     /\ r.lo <= r.hi
     /\ (r.lo # None => r.codes # {})
     /\ <<r.a, r.k>> \in Kinds
ASSUME CatalogueWellFormed

(* a fault for which the implementation's OWN class is weaker than the catalogue's obligation is a
   known finding by itself (LOCAL_PREF on iBGP).  Outside it: *)
Under(f) == IF taw THEN Impl(f, pt).cls < Entry(f, pt).lo
            ELSE Entry(f, pt).lo # None /\ Impl(f, pt).cls = None
NoUnder == \A f \in FS : ~Under(f)

(* "strongest wins" holds when the validator also runs after a treat-as-withdraw decode error ... *)
D_C06_NeverWeaker_Fixed == NoUnder => MechClass(FS, pt, taw, TRUE) >= Lo(FS, pt, taw)
(* ... and for the code as it is exactly outside the known-finding predicates *)
D_C06_NeverWeaker_KF == MechClass(FS, pt, taw, FALSE) >= Lo(Unmasked(FS, pt, taw), pt, taw)
D_C06_MaskedIsTheOnlyGap ==
  (NoUnder /\ MechClass(FS, pt, taw, FALSE) < Lo(FS, pt, taw)) => Masked(FS, pt, taw)
(* no reset the RFCs do not allow *)
D_C06_ResetOnlyIfCalledFor ==
  \A fx \in BOOLEAN : MechClass(FS, pt, taw, fx) = ResetC => ResetJustified(FS, pt, taw)
D_C06_WellFormedNotPenalised ==
  \A fx \in BOOLEAN : Real(FS, pt) = {} => MechClass(FS, pt, taw, fx) = None
=============================================================================
