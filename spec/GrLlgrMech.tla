---------------------------- MODULE GrLlgrMech ----------------------------
(* C12, design level: a MECHANISM layer shaped like gobgp's helper-side code (per-neighbour flags and
   timers of pkg/server: GracefulRestart.State{Enabled, PeerRestarting, NotificationEnabled,
   LongLivedEnabled, PeerRestartTime}, MpGracefulRestart.State{Received, EndOfRibReceived},
   LongLivedGracefulRestart.State{Enabled, PeerRestartTime}, fsm.gracefulRestartTimer, peer.longLivedRunning,
   the per-family long-lived timers, the Adj-RIB-In with stale marks) runs next to the PROPERTY layer of
   GrLlgr.tla (record h, deviations {}) over a discretised clock (steps of 1 s, timers fire at their exact
   instant).  TLC checks exhaustively, for small constants, that in every reachable state that the property
   judges the mechanism's Adj-RIB-In is what the property requires (D_Refines).

   Bugs is the set of code defects modelled: {} is the REPAIRED design (what the proposed patches of
   findings_proposed/C12-*.md implement) and must satisfy D_Refines; each non-empty value reproduces the
   pinned code's behaviour and TLC finds the counterexample (used as a self-test of this model):
     "pfx" "stuck" "failconn" "lldrop" "llstuck" - as the deviations of GrLlgr.tla. *)
EXTENDS GrLlgr, GrLlgrDom

CONSTANTS Bugs, MaxEvents, MaxClock, CapsPool, KindPool, Cfg

VARIABLES m, h, clock, evs
mvars == <<m, h, clock, evs>>

MNo == [src |-> "none"]
MInit == /\ m = [up |-> FALSE, rest |-> FALSE, gt |-> -1, llrun |-> FALSE, lt |-> [f \in Fams |-> -1],
                 en |-> FALSE, rf |-> [f \in Fams |-> FALSE], nb |-> FALSE, lle |-> FALSE, ll |-> [f \in Fams |-> 0], prt |-> 0,
                 eor |-> [f \in Fams |-> FALSE], adj |-> [x \in Prefixes |-> MNo]]
         /\ h = HInit /\ clock = 0 /\ evs = 0

(* fsm.stateChange(ESTABLISHED): negotiate GR / LLGR from the received OPEN *)
Negotiate(c) ==
  LET base == IF "stuck" \in Bugs THEN m      \* nothing of the previous session is cleared
              ELSE [m EXCEPT !.en = FALSE, !.rf = [f \in Fams |-> FALSE], !.nb = FALSE, !.lle = FALSE,
                             !.ll = [f \in Fams |-> 0], !.prt = 0]
      g == Cfg.gr /\ c.gr
  IN IF ~g THEN base
     ELSE [base EXCEPT !.en = TRUE, !.prt = c.rt,
                       !.rf = [f \in Fams |-> base.rf[f] \/ c.fams[f]],
                       !.nb = base.nb \/ (Cfg.notif /\ c.n),
                       !.lle = base.lle \/ (Cfg.llgr /\ \E f \in Fams : c.llgr[f] > 0),
                       !.ll = [f \in Fams |-> IF Cfg.llgr /\ c.llgr[f] > 0 THEN c.llgr[f] ELSE base.ll[f]]]

StopRestarting(s) == [s EXCEPT !.rest = FALSE, !.llrun = FALSE, !.lt = [f \in Fams |-> -1]]
DropStale(a)      == [x \in Prefixes |-> IF a[x] # MNo /\ a[x].stale THEN MNo ELSE a[x]]
DropFams(a, F)    == [x \in Prefixes |-> IF FamOf(x) \in F THEN MNo ELSE a[x]]
DropStaleFams(a, F) == [x \in Prefixes |-> IF FamOf(x) \in F /\ a[x] # MNo /\ a[x].stale THEN MNo ELSE a[x]]
Preserved(s)      == {f \in Fams : s.rf[f]}           \* forwardingPreservedFamilies
AllEor(s)         == \A f \in Preserved(s) : s.eor[f]  \* receivedAllEOR

Bump == evs' = evs + 1

MUp(c) ==
  /\ ~m.up /\ evs < MaxEvents
  /\ LET n  == [Negotiate(c) EXCEPT !.up = TRUE, !.gt = -1, !.eor = [f \in Fams |-> FALSE]]
         (* repaired: on re-establishment stale routes of the families the new OPEN does not list go at once;
            nothing left to wait for => the restart is over *)
         n2 == IF "stuck" \in Bugs \/ ~n.rest THEN n
               ELSE LET a == DropStaleFams(n.adj, Fams \ Preserved(n)) IN
                      IF Preserved(n) = {} THEN StopRestarting([n EXCEPT !.adj = DropStale(a)]) ELSE [n EXCEPT !.adj = a]
     IN m' = n2
  /\ h' = HUp(Cfg, h, clock, {}, c) /\ Bump /\ UNCHANGED clock

MAnn(x, c) == /\ m.up /\ evs < MaxEvents
              /\ m' = [m EXCEPT !.adj[x] = [c |-> c, stale |-> FALSE, ls |-> FALSE]]
              /\ h' = HAnn(Cfg, h, clock, {}, x, c) /\ Bump /\ UNCHANGED clock
MWd(x)     == /\ m.up /\ evs < MaxEvents /\ m.adj[x] # MNo
              /\ m' = [m EXCEPT !.adj[x] = MNo]
              /\ h' = HWd(Cfg, h, clock, {}, x) /\ Bump /\ UNCHANGED clock
MEor(f)    == /\ m.up /\ evs < MaxEvents /\ ~m.eor[f]
              /\ LET n == [m EXCEPT !.eor[f] = TRUE] IN
                   m' = IF n.rest /\ AllEor(n) THEN StopRestarting([n EXCEPT !.adj = DropStale(n.adj)]) ELSE n
              /\ h' = HEor(Cfg, h, clock, {}, f) /\ Bump /\ UNCHANGED clock

(* fsm.established: which reasons become fsmGracefulRestart *)
Graceful(kind) == m.en /\ (kind \in {"close", "hold"} \/ (kind = "notif" /\ m.nb) \/ (kind = "pfxlimit" /\ "pfx" \in Bugs))
MLoss(kind) ==
  /\ m.up /\ evs < MaxEvents
  /\ m' = IF Graceful(kind)
          THEN [m EXCEPT !.up = FALSE, !.rest = TRUE, !.gt = clock + 1000 * m.prt,
                         !.adj = [x \in Prefixes |-> IF FamOf(x) \notin Preserved(m) \/ m.adj[x] = MNo THEN MNo
                                                     ELSE [m.adj[x] EXCEPT !.stale = TRUE]]]
          ELSE LET d == [m EXCEPT !.up = FALSE, !.adj = [x \in Prefixes |-> MNo], !.gt = -1] IN
                 IF "llstuck" \in Bugs THEN d ELSE StopRestarting(d)
  /\ h' = HLoss(Cfg, h, clock, {}, kind) /\ Bump /\ UNCHANGED clock

(* handleFSMMessage, nextStateIdle branch *)
RestartBranch(s) ==
  IF s.lle /\ ~s.llrun
  THEN [s EXCEPT !.llrun = TRUE, !.gt = -1,
                 !.adj = [x \in Prefixes |-> IF s.adj[x] = MNo \/ s.ll[FamOf(x)] = 0 \/ s.adj[x].c = 1 THEN MNo
                                             ELSE [s.adj[x] EXCEPT !.ls = TRUE]],
                 !.lt = [f \in Fams |-> IF s.ll[f] > 0 THEN clock + 1000 * s.ll[f] ELSE -1]]
  ELSE IF s.lle
  THEN (* long-lived timers already running (second loss before the session was synchronised) *)
       IF "llstuck" \in Bugs THEN [s EXCEPT !.gt = -1]
       ELSE [s EXCEPT !.gt = -1,
                      !.adj = [x \in Prefixes |-> IF s.adj[x] = MNo \/ s.ll[FamOf(x)] = 0 \/ s.adj[x].c = 1 THEN MNo
                                                  ELSE [s.adj[x] EXCEPT !.ls = TRUE]],
                      !.lt = [f \in Fams |-> IF s.ll[f] > 0 /\ s.lt[f] = -1 THEN clock + 1000 * s.ll[f] ELSE s.lt[f]]]
  ELSE StopRestarting([s EXCEPT !.adj = [x \in Prefixes |-> MNo], !.gt = -1])

MFireRestart == /\ m.gt = clock /\ m.rest /\ ~m.up
                /\ m' = RestartBranch(m) /\ UNCHANGED <<h, clock, evs>>
MFireLl(f)   == /\ m.lt[f] = clock
                /\ LET a == IF "lldrop" \in Bugs THEN DropFams(m.adj, {f}) ELSE DropStaleFams(m.adj, {f})
                       n == [m EXCEPT !.adj = a, !.lt[f] = -1] IN
                     m' = IF (\A g \in Fams : n.lt[g] = -1) /\ "llstuck" \notin Bugs THEN StopRestarting(n) ELSE n
                /\ UNCHANGED <<h, clock, evs>>
MFail == /\ ~m.up /\ m.rest /\ evs < MaxEvents
         /\ m' = IF "failconn" \in Bugs THEN RestartBranch(m) ELSE m
         /\ h' = HFailConn(Cfg, h, clock, {}) /\ Bump /\ UNCHANGED clock

TimerDue == (m.gt = clock /\ m.rest /\ ~m.up) \/ \E f \in Fams : m.lt[f] = clock
MTick == /\ ~TimerDue /\ clock < 1000 * MaxClock
         /\ clock' = clock + 1000 /\ h' = HTick(Cfg, h, clock', {}) /\ UNCHANGED <<m, evs>>

MNext == \/ \E c \in CapsPool : MUp(c)
         \/ \E x \in Prefixes : \E c \in {0, 1} : MAnn(x, c)
         \/ \E x \in Prefixes : MWd(x)
         \/ \E f \in Fams : MEor(f) \/ MFireLl(f)
         \/ \E kind \in KindPool : MLoss(kind)
         \/ MFireRestart \/ MFail \/ MTick
MSpec == MInit /\ [][MNext]_mvars

---------------------------------------------------------------------------
(* mechanism => property, in every state the property judges and no timer is about to fire *)
RefX(x) == LET r == h.rts[x]  a == m.adj[x] IN
             IF r = NoRoute THEN a = MNo
             ELSE \/ (a # MNo /\ a.c = r.c /\ a.stale = r.stale /\ a.ls = r.ls)
                  \/ (r.opt /\ a = MNo)
D_Refines == (~h.taint /\ ~h.edge /\ ~TimerDue) => \A x \in Prefixes : RefX(x)
D_TypeOK  == m.up = h.up /\ clock >= 0 /\ evs <= MaxEvents
=============================================================================
