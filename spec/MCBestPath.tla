---------------------------- MODULE MCBestPath ----------------------------
(* Exhaustive small-scope pools for BestPath (design level: mechanism => property layer). *)
EXTENDS BestPath, BestPathDom

CONSTANTS Pool, MedVals, TsVals, StaleVals   \* Pool \in {"med","attr","tie"}

MedValsFull == {-1, 5, 10}
MedValsTwo == {5, 10}

PoolSources ==
  CASE Pool = "med"  -> {"E1", "E2", "E3", "I1"}
    [] Pool = "attr" -> {"L", "E1", "I1"}
    [] Pool = "tie"  -> {"L", "E1", "E2", "I1", "I2", "C1", "C2"}

Dom(s) ==
  CASE Pool = "med" ->
         {Route(s, FALSE, FALSE, -1, p, 0, m, t) :
            p \in {Shape(1, 65001), Shape(1, 65002), Shape(7, 65001)}, m \in MedVals, t \in TsVals}
    [] Pool = "attr" ->
         {Route(s, st, nh, lp, p, o, -1, 1) :
            st \in StaleVals, nh \in BOOLEAN, lp \in {-1, 200},
            p \in {Shape(1, 65001), Shape(2, 65001), Shape(3, 65001)}, o \in {0, 2}}
    [] Pool = "tie" ->
         {Route(s, FALSE, FALSE, -1, Shape(4, 65001), 0, m, t) : m \in {-1}, t \in TsVals}

Next == \/ \E s \in PoolSources : \E r \in Dom(s) : Add(r)
        \/ \E s \in PoolSources : Withdraw(s)

Spec == Init /\ [][Next]_vars
=============================================================================
