---------------------------- MODULE PolicyMatchGen ----------------------------
(* Behaviour generator for C13 (run with -simulate).  One behaviour =
     Setup  : a pool of patterns (shape or near-miss grammar), a pool of community values
              drawn AROUND the numbers of those patterns (boundaries 0, 65535, 65536,
              4294967295 included through the focus numbers), probe routes carrying 0..3 of
              the values, and the initially defined list;
     Edit*  : Append / Remove / Replace with 1..2 argument patterns (Remove prefers entries
              that are in the list, so that the compiled form really shrinks).
   The generator drives the system spec's own actions, so a schedule is a behaviour of
   PolicyMatch.  One JSON object per behaviour is printed when MaxSteps edits were made. *)
EXTENDS PolicyMatchDom, Json

CONSTANTS Kind,       \* "std" | "ext" | "large"
          Gen,        \* "shape" | "near"
          NPats, NVals, NRoutes, MaxSteps

VARIABLES phase, pats, vals, routes, hist
gvars == <<plist, compiled, phase, pats, vals, routes, hist>>

Rnd == 0..99999
R8(d)  == <<RandomElement(Rnd), RandomElement(Rnd), RandomElement(Rnd), RandomElement(Rnd),
            RandomElement(Rnd), RandomElement(Rnd), RandomElement(Rnd), RandomElement(Rnd)>>
R16(d) == R8(d) \o R8(d + 1)
R64(d) == R16(d) \o R16(d + 2) \o R16(d + 4) \o R16(d + 6)
(* 16 numbers per pattern, 8 per value, 4 per route, 8 for the initial list *)
SeedLen == 16 * NPats + 8 * NVals + 4 * NRoutes + 8
RECURSIVE Seed(_)
Seed(k) == IF k <= 0 THEN <<>> ELSE R64(k) \o Seed(k - 64)

Dedup(q) == SelectSeq([i \in DOMAIN q |-> IF \E j \in 1..(i - 1) : q[j] = q[i] THEN <<>> ELSE <<q[i]>>],
                      LAMBDA x : x # <<>>)
Unwrap(q) == [i \in DOMAIN q |-> q[i][1]]

(* extended sets: now and then the pool holds the same regular expression under both
   sub-types (rt:X and soo:X), so that Remove meets entries that differ in the sub-type only *)
OtherSt(st) == IF st = "rt" THEN "soo" ELSE "rt"
Twin(p) == IF Gen = "shape" THEN [p EXCEPT !.st = OtherSt(p.st)]
           ELSE [p EXCEPT !.st = OtherSt(p.st), !.stcfg = OtherSt(p.st)]

MakePats(sd) ==
  LET raw == [i \in 1..NPats |->
                LET r == SubSeq(sd, 16 * (i - 1) + 1, 16 * i)
                IN IF Gen = "shape" THEN ShapePattern(Kind, r) ELSE NearPattern(Kind, r)]
  IN Unwrap(Dedup([i \in 1..NPats |->
       IF Kind = "ext" /\ i > 1 /\ sd[16 * i] % 5 = 0 THEN Twin(raw[i - 1]) ELSE raw[i]]))

MakeVals(ps, sd) ==
  Unwrap(Dedup([i \in 1..NVals |->
     MakeValue(Kind, Gen, ps, SubSeq(sd, 16 * NPats + 8 * (i - 1) + 1, 16 * NPats + 8 * i))]))

MakeRoutes(nv, sd) ==
  [i \in 1..NRoutes |-> MakeRoute(nv, SubSeq(sd, 16 * NPats + 8 * NVals + 4 * (i - 1) + 1,
                                             16 * NPats + 8 * NVals + 4 * i))]

Idx(p) == CHOOSE i \in DOMAIN pats : pats[i] = p

GenInit == Init /\ phase = "setup" /\ pats = <<>> /\ vals = <<>> /\ routes = <<>> /\ hist = <<>>

GenSetup ==
  /\ phase = "setup"
  /\ \E sd \in {Seed(SeedLen)} :
       /\ pats' = MakePats(sd)
       /\ vals' = MakeVals(pats', sd)
       /\ routes' = MakeRoutes(Len(vals'), sd)
       /\ LET r  == SubSeq(sd, SeedLen - 7, SeedLen)
              k  == (r[1] % 3) + 1
              ix == [i \in 1..k |-> (r[i + 1] % Len(pats')) + 1]
          IN /\ DoDefine([i \in 1..k |-> pats'[ix[i]]])
             /\ hist' = <<[op |-> "Define", args |-> ix]>>
  /\ phase' = "edit"

GenEdit ==
  /\ phase = "edit"
  /\ Len(hist) <= MaxSteps
  /\ \E r \in {R8(0)} :
       LET op == PickSeq(<<"Append", "Append", "Append", "Remove", "Remove", "Replace">>, r[1])
           k  == (r[2] % 2) + 1
           (* Remove: 3 times out of 4 aim at an entry that is in the list *)
           pick(x, y) == IF op = "Remove" /\ plist # <<>> /\ y % 4 # 0
                         THEN Idx(plist[(x % Len(plist)) + 1])
                         ELSE (x % Len(pats)) + 1
           ix == [i \in 1..k |-> IF i = 1 THEN pick(r[3], r[4]) ELSE pick(r[5], r[6])]
           args == [i \in 1..k |-> pats[ix[i]]]
       IN /\ CASE op = "Append"  -> DoAppend(args)
               [] op = "Remove"  -> DoRemove(args)
               [] op = "Replace" -> DoReplace(args)
          /\ hist' = Append(hist, [op |-> op, args |-> ix])
  /\ UNCHANGED <<phase, pats, vals, routes>>

GenNext == GenSetup \/ GenEdit
GenSpec == GenInit /\ [][GenNext]_gvars

Emit == Len(hist) = MaxSteps + 1 =>
          PrintT("VPOUT " \o ToJson([kind |-> Kind, gen |-> Gen, pats |-> pats, vals |-> vals,
                                     routes |-> routes, steps |-> hist,
                                     lenient |-> \E i \in DOMAIN pats : IsLenient(pats[i])]))
=============================================================================
