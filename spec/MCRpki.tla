---------------------------- MODULE MCRpki ----------------------------
(* Exhaustive small-scope model of the RTR client + ROA table (design level):
   mechanism => property layer, with and without the proposed repairs.
   The cache is protocol-abiding: it answers queries in order, sends prefix PDUs only inside a
   response, ends an incremental response with the session id it used before. *)
EXTENDS Rpki, RpkiDom

CONSTANTS Recs, Sids, Serials, MaxQ

RecSet == IF Recs = "two" THEN {Rec("10.1.0.0/16", 24, 65001), Rec("10.1.1.0/24", 24, 0)}
          ELSE {Rec("10.1.0.0/16", 24, 65001), Rec("10.1.1.0/24", 24, 0), Rec("2001:db8::/32", 48, 65000)}

Room(c) == Len(ps[c].cq) < MaxQ

Next == \E c \in Caches :
   \/ AddRpki(c, QAddRpki(c))
   \/ DeleteRpki(c)
   \/ Room(c) /\ Bounce(c, QBounce(c))
   \/ Room(c) /\ ResetRpki(c, QBounce(c))
   \/ Room(c) /\ SoftResetRpki(c, QSoftReset(ms[c]))
   \/ Room(c) /\ EnableRpki(c, QEnable(ms[c]))
   \/ Resp(c)
   \/ \E r \in RecSet, b \in BOOLEAN : Pfx(c, b, r)
   \/ \E sid \in Sids, sn \in Serials : (ps[c].full \/ sid = ps[c].psid) /\ Eod(c, sid, sn)
   \/ \E sn \in Serials : Room(c) /\ Notify(c, sn, QNotify(ms[c], sn))
   \/ Room(c) /\ CacheReset(c, QSoftReset(ms[c]))

Spec == Init /\ [][Next]_vars

(* hide nothing: all variables matter *)
=============================================================================
