---------------------------- MODULE VrfRtcGen ----------------------------
(* Behaviour generator of C17: schedules over the input alphabet of VrfRtc.tla
     Up/Down(N1|N2)  CeUp/CeDown  VAnn/VWd (VPN route of N2 with an arbitrary RT set)
     MAnn/MWd/MEor (RT memberships of N1, RTC End-of-RIB)  AddVrf/DelVrf  CeAnn/CeWd
     ApiAdd/ApiDel (AddPath / DeletePath with a VRF id)  Tick(d)
   A schedule starts with the forced steps Warm (named by WarmName) and continues with free steps.
   Exh = FALSE: TLC -simulate, one random parameter choice per event kind and step (RandomElement).
   Exh = TRUE : TLC breadth-first over ALL parameter choices of the (small) alphabet Alpha: every
                sequence of MaxSteps - Len(Warm) free events is printed exactly once. *)
EXTENDS VrfRtc, VrfRtcDom, Json

CONSTANTS MaxSteps, Exh, WarmName, Alpha, Defer, AddPath, Only

VARIABLES hist
gvars == <<cfg, up, ceOn, nin, cein, loc, vrfs, mem, wait, eor, deadline, now, hist>>

Ev(e)        == [ev |-> e]
UpE(p)       == [ev |-> "Up", p |-> p]
DownE(p)     == [ev |-> "Down", p |-> p]
VAnnE(r)     == [ev |-> "VAnn", r |-> r]
VWdE(k)      == [ev |-> "VWd", r |-> VRoute(k, {}, 0)]
PWdE         == [ev |-> "VWd", r |-> PRoute({}, 0, 0)]
MAnnE(m)     == [ev |-> "MAnn", m |-> m]
MWdE(m)      == [ev |-> "MWd", m |-> m]
AddVrfE(w)   == [ev |-> "AddVrf", vrf |-> w]
DelVrfE(n)   == [ev |-> "DelVrf", name |-> n]
CeAnnE(v)    == [ev |-> "CeAnn", x |-> CeX, v |-> v]
CeWdE        == [ev |-> "CeWd", x |-> CeX]
ApiAddE(n, v) == [ev |-> "ApiAdd", name |-> n, x |-> LocX(n), v |-> v]
ApiDelE(n)   == [ev |-> "ApiDel", name |-> n, x |-> LocX(n)]
TickE(d)     == [ev |-> "Tick", d |-> d]

(* forced prefixes *)
Warm == CASE WarmName = "none" -> <<>>
          [] WarmName = "sess" -> <<UpE("N2"), UpE("N1")>>
          [] WarmName = "vrf"  -> <<UpE("N2"), UpE("N1"), AddVrfE(V1a), Ev("CeUp")>>
          [] WarmName = "rtc"  -> <<UpE("N2"), VAnnE(VRoute("k1", {"rt1", "rt2"}, 1)), VAnnE(VRoute("k2", {"rt2", "rt3"}, 1)),
                                    UpE("N1"), MAnnE(Mem(65000, "rt1", 0)), MAnnE(Mem(65000, "rt2", 0)), Ev("MEor")>>
          [] WarmName = "mem"  -> <<UpE("N2"), VAnnE(VRoute("k1", {"rt1", "rt2"}, 1)), UpE("N1"), Ev("MEor")>>
          [] WarmName = "idx"  -> <<UpE("N2"), UpE("N1"), Ev("MEor")>>
          [] WarmName = "life" -> <<UpE("N2"), UpE("N3"), UpE("N1"), MAnnE(Mem(0, "def", 0)), Ev("MEor"),
                                    AddVrfE(V1a), Ev("CeUp"), AddVrfE(V2a), ApiAddE("v2", 1)>>
          [] WarmName = "life2" -> <<UpE("N2"), UpE("N3"), UpE("N1"), MAnnE(Mem(0, "def", 0)), Ev("MEor"),
                                    AddVrfE(V1a), Ev("CeUp"), AddVrfE(V2a), ApiAddE("v2", 1),
                                    VAnnE(PRoute({"rt1"}, 1, 200))>>
          [] WarmName = "twin" -> <<UpE("N2"), UpE("N1"), MAnnE(Mem(0, "def", 0)), Ev("MEor"), AddVrfE(V1a), AddVrfE(V2d)>>
          [] WarmName = "all"  -> <<UpE("N2"), UpE("N1"), AddVrfE(V1a), Ev("CeUp"), AddVrfE(V2a),
                                    VAnnE(VRoute("k1", {"rt1", "rt2"}, 1)), MAnnE(Mem(65000, "rt2", 0)), Ev("MEor")>>

(* alphabets *)
RtSets  == CASE Alpha = "small" -> {{}, {"rt1"}, {"rt1", "rt2"}, {"rt3"}}
             [] Alpha \in {"coll", "life", "twin"} -> {{"rt1"}, {"rt3"}}
             [] Alpha \in {"mem", "idx"} -> {{"rt1"}}
             [] OTHER -> RtSetsAll
Small   == Alpha \in {"small", "coll", "life", "mem", "idx", "twin"}
PEon    == Alpha \in {"full", "life"}            \* the iBGP PE N3 takes part
LpSet   == {200, 50}
Tags    == IF Small THEN {1} ELSE {1, 2}
MemAs   == IF Alpha = "mem" THEN {65000, 65009} ELSE IF Small THEN {65000} ELSE {65000, 65009}
MemRts  == IF Alpha = "mem" THEN {"rt1", "def"} ELSE IF Alpha = "idx" THEN {"rt1"} ELSE IF Small THEN {"rt1", "rt2", "def"} ELSE RTs \cup {"def"}
MemIds  == IF AddPath THEN {1, 2} ELSE {0}
VrfPool == IF Alpha = "life" THEN {V2a, V2c} ELSE IF Alpha = "twin" THEN {V1a, V2d} ELSE IF Small THEN {V1a, V2a} ELSE VrfPoolAll
TickDs  == IF Small THEN {5} ELSE {1, 2, 5}
KSlots  == CASE Alpha \in {"small", "mem", "idx", "twin"} -> {"k1"} [] Alpha = "coll" -> {"k1", "k3"} [] Alpha = "life" -> {"k4"} [] OTHER -> Slots
(* Only: restriction of the free steps to some event kinds ({} = all kinds) *)
On(k)   == Only = {} \/ k \in Only

Pick(S)   == IF Exh THEN S ELSE {RandomElement(S)}
Rarely(n) == Exh \/ RandomElement(1..n) = 1

Do(e) ==
  CASE e.ev = "Up"     -> PUp(e.p)
    [] e.ev = "Down"   -> PDown(e.p)
    [] e.ev = "CeUp"   -> PCeUp
    [] e.ev = "CeDown" -> PCeDown
    [] e.ev = "VAnn"   -> PVAnn(e.r)
    [] e.ev = "VWd"    -> PVWd(e.r)
    [] e.ev = "MAnn"   -> PMAnn(e.m)
    [] e.ev = "MWd"    -> PMWd(e.m)
    [] e.ev = "MEor"   -> PMEor
    [] e.ev = "AddVrf" -> PAddVrf(e.vrf)
    [] e.ev = "DelVrf" -> PDelVrf(e.name)
    [] e.ev = "CeAnn"  -> PCeAnn(e.x, e.v)
    [] e.ev = "CeWd"   -> PCeWd(e.x)
    [] e.ev = "ApiAdd" -> HasVrf(e.name) /\ PApiAdd(e.name, e.x, e.v)
    [] e.ev = "ApiDel" -> HasVrf(e.name) /\ PApiDel(e.name, e.x)
    [] e.ev = "Tick"   -> PTick(e.d)

Step(e) == Do(e) /\ hist' = Append(hist, e)
FStep(e) == On(e.ev) /\ Step(e)

Free ==
  \/ \E p \in {"N1", "N2"} : FStep(UpE(p))
  \/ PEon /\ FStep(UpE("N3"))
  \/ \E p \in {"N1", "N2", "N3"} : ~Exh /\ Rarely(6) /\ FStep(DownE(p))
  \/ PEon /\ \E s \in Pick(RtSets) : \E v \in Pick(Tags) : \E lp \in Pick(LpSet) : FStep(VAnnE(PRoute(s, v, lp)))
  \/ PEon /\ FStep(PWdE)
  \/ FStep(Ev("CeUp"))
  \/ Rarely(4) /\ FStep(Ev("CeDown"))
  \/ \E k \in Pick(KSlots) : \E s \in Pick(RtSets) : \E v \in Pick(Tags) : FStep(VAnnE(VRoute(k, s, v)))
  \/ \E k \in Pick(KSlots) : \E s \in Pick(RtSets) : \E v \in Pick(Tags) : ~Exh /\ FStep(VAnnE(VRoute(k, s, v)))
  \/ \E k \in Pick(KSlots) : FStep(VWdE(k))
  \/ \E a \in Pick(MemAs) : \E t \in Pick(MemRts) : \E i \in Pick(MemIds) : FStep(MAnnE(Mem(a, t, i)))
  \/ \E a \in Pick(MemAs) : \E t \in Pick(MemRts) : \E i \in Pick(MemIds) : ~Exh /\ FStep(MAnnE(Mem(a, t, i)))
  \/ \E a \in Pick(MemAs) : \E t \in Pick(MemRts) : \E i \in Pick(MemIds) : FStep(MWdE(Mem(a, t, i)))
  \/ up["N1"] /\ (Exh \/ ~eor) /\ FStep(Ev("MEor"))
  \/ \E w \in Pick(VrfPool) : (Exh \/ ~HasVrf(w.name) \/ Rarely(4)) /\ FStep(AddVrfE(w))
  \/ \E n \in Pick({"v1", "v2"}) : Rarely(3) /\ FStep(DelVrfE(n))
  \/ \E v \in Pick(Tags) : FStep(CeAnnE(v))
  \/ FStep(CeWdE)
  \/ \E n \in Pick({"v1", "v2"}) : \E v \in Pick(Tags) : FStep(ApiAddE(n, v))
  \/ \E n \in Pick({"v1", "v2"}) : FStep(ApiDelE(n))
  \/ \E d \in Pick(TickDs) : (Exh \/ Waiting \/ Rarely(4)) /\ FStep(TickE(d))

GInit == PInit([defer |-> Defer, addpath |-> AddPath]) /\ hist = <<>>
GNext == /\ Len(hist) < MaxSteps
         /\ IF Len(hist) < Len(Warm) THEN Step(Warm[Len(hist) + 1]) ELSE Free
GSpec == GInit /\ [][GNext]_gvars

Emit == Len(hist) = MaxSteps => PrintT("VPOUT " \o ToJson([cfg |-> cfg, steps |-> hist]))
=============================================================================
