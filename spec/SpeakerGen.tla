---------------------------- MODULE SpeakerGen ----------------------------
(* Behaviour generator for the server-level checks (C01, C02): random schedules over the input
   alphabet of Speaker plus the harness controls
     Stall/Resume(p)  - neighbour p stops / resumes reading (forces the speaker's sender to
                        block and later batches to coalesce)
     UpHold/Release(p)- p's session is established but the speaker is held between the initial
                        table transfer and publishing the Established state.
   One JSON schedule per behaviour is printed after MaxSteps steps. *)
EXTENDS Speaker, SpeakerDom, Json

CONSTANTS MaxSteps, WithPolicy, Warm, Chaos

VARIABLES stalled, held, gone, hist
gvars == <<up, inr, loc, impPol, expPol, inrPol, expEff, stalled, held, gone, hist>>

(* Warm: every neighbour is brought up first (the schedule starts with Up A, Up B, Up C), so that
   the random part is spent on route, policy and reset events *)
SetToSeq(S) == LET RECURSIVE F(_)
                   F(T) == IF T = {} THEN <<>> ELSE LET m == CHOOSE a \in T : TRUE IN <<m>> \o F(T \ {m})
               IN F(S)
UpSteps == LET q == SetToSeq(Peers) IN [i \in 1..Len(q) |-> [ev |-> "Up", p |-> q[i]]]
GInit == /\ IF Warm THEN /\ up = [p \in Peers |-> TRUE]
                         /\ inr = [p \in Peers |-> [x \in Prefixes |-> NoRoute]]
                         /\ loc = [x \in Prefixes |-> NoRoute]
                         /\ impPol = "acc" /\ expPol = "acc"
                         /\ inrPol = [p \in Peers |-> [x \in Prefixes |-> "acc"]]
                         /\ expEff = [p \in Peers |-> "acc"]
                         /\ hist = UpSteps
                    ELSE PInit /\ hist = <<>>
         /\ stalled = {} /\ held = {} /\ gone = {}

Log(e) == hist' = Append(hist, e)

GUp(p)      == PUp(p) /\ p \notin held /\ p \notin gone /\ Log([ev |-> "Up", p |-> p]) /\ UNCHANGED <<stalled, held, gone>>
GUpHold(p)  == ~WithPolicy /\ p \notin gone /\ PUp(p) /\ held = {} /\ held' = {p} /\ Log([ev |-> "UpHold", p |-> p]) /\ UNCHANGED <<stalled, gone>>
GRelease(p) == p \in held /\ held' = held \ {p} /\ Log([ev |-> "Release", p |-> p])
               /\ UNCHANGED <<up, inr, loc, polvars, stalled, gone>>
GDown(p)    == (~Warm \/ RandomElement(1..4) = 1) /\ PDown(p) /\ p \notin held /\ stalled' = stalled \ {p}
               /\ Log([ev |-> "Down", p |-> p]) /\ UNCHANGED <<held, gone>>
GAnn(p)     == /\ up[p] /\ p \notin held
               /\ LET x == RandomElement(Prefixes)
                      r == MkRoute(PInfo, p, RandomElement(IF PInfo[p].kind = "rs" THEN RsVarCodes ELSE VarCodes))
                  IN PAnn(p, x, r) /\ Log([ev |-> "Ann", p |-> p, x |-> x, r |-> r])
               /\ UNCHANGED <<stalled, held, gone>>
GWd(p)      == /\ up[p] /\ p \notin held
               /\ LET x == RandomElement(Prefixes)
                  IN PWd(p, x) /\ Log([ev |-> "Wd", p |-> p, x |-> x])
               /\ UNCHANGED <<stalled, held, gone>>
GApiAdd     == (\A p \in Peers : PInfo[p].kind # "rs") /\ LET x == IF WithPolicy THEN "x2" ELSE RandomElement(Prefixes)
                   r == MkLocal(RandomElement({0, 1}))
               IN PApiAdd(x, r) /\ Log([ev |-> "ApiAdd", x |-> x, r |-> r]) /\ UNCHANGED <<stalled, held, gone>>
GApiDel     == LET x == RandomElement(Prefixes)
               IN PApiDel(x) /\ Log([ev |-> "ApiDel", x |-> x]) /\ UNCHANGED <<stalled, held, gone>>
GStall(p)   == up[p] /\ p \notin stalled /\ p \notin held /\ stalled = {} /\ stalled' = {p}
               /\ Log([ev |-> "Stall", p |-> p]) /\ UNCHANGED <<up, inr, loc, polvars, held, gone>>
GResume(p)  == p \in stalled /\ stalled' = stalled \ {p}
               /\ Log([ev |-> "Resume", p |-> p]) /\ UNCHANGED <<up, inr, loc, polvars, held, gone>>

(* peer removal (also in the middle of a session) and re-addition *)
GDelPeer(p) == /\ p \notin gone /\ p \notin held /\ ~WithPolicy /\ RandomElement(1..3) = 1
               /\ (IF up[p] THEN PDown(p) ELSE UNCHANGED pvars)
               /\ gone' = gone \cup {p} /\ stalled' = stalled \ {p}
               /\ Log([ev |-> "DelPeer", p |-> p]) /\ UNCHANGED held
GAddPeer(p) == /\ p \in gone /\ gone' = gone \ {p}
               /\ Log([ev |-> "AddPeer", p |-> p]) /\ UNCHANGED <<up, inr, loc, polvars, stalled, held>>

(* C15: policy changes and soft resets; a reset targets one neighbour or all of them *)
Targets == {{p} : p \in Peers} \cup {Peers}
TName(T) == IF T = Peers THEN "all" ELSE CHOOSE p \in T : TRUE
(* the per-path policy rejA is drawn more often: it is the one that separates the paths of a prefix *)
PolSeq == <<"acc", "rejx1", "medx1", "ppx1", "rejA", "rejA", "rejA", "cm1x1", "cm2x1", "cm1x1", "cm2x1">>
RandomPol == PolSeq[RandomElement(1..Len(PolSeq))]
GSetImp    == LET pol == RandomPol IN
                PSetImp(pol) /\ Log([ev |-> "SetImp", pol |-> pol]) /\ UNCHANGED <<stalled, held, gone>>
GSetExp    == LET pol == RandomPol IN
                PSetExp(pol) /\ Log([ev |-> "SetExp", pol |-> pol]) /\ UNCHANGED <<stalled, held, gone>>
GResetIn   == LET T == RandomElement(Targets) IN
                PResetIn(T) /\ Log([ev |-> "ResetIn", p |-> TName(T)]) /\ UNCHANGED <<stalled, held, gone>>
GResetOut  == LET T == RandomElement(Targets) IN
                PResetOut(T) /\ Log([ev |-> "ResetOut", p |-> TName(T)]) /\ UNCHANGED <<stalled, held, gone>>
GResetBoth == LET T == RandomElement(Targets) IN
                PResetBoth(T) /\ Log([ev |-> "ResetBoth", p |-> TName(T)]) /\ UNCHANGED <<stalled, held, gone>>
GRefresh(p) == up[p] /\ p \notin held /\ PResetOut({p}) /\ Log([ev |-> "Refresh", p |-> p])
               /\ UNCHANGED <<stalled, held, gone>>
GPolicy == WithPolicy /\ held = {} /\
           (GSetImp \/ GSetExp \/ GResetIn \/ GResetOut \/ GResetBoth \/ \E p \in Peers : GRefresh(p))

(* C20: management operations thrown in concurrently (free-running mode only; they do not change
   the property-layer state that the C20 invariants look at) *)
(* ResetBurst = five hard ResetPeer calls on one neighbour back to back (the later ones meet the
   session while it is going down), drawn three times as often as the other kinds *)
OpSeq == <<"ListPath", "ListPeer", "WatchStart", "WatchStop", "Disable", "Enable", "DelPeer", "AddPeer",
           "ResetBurst", "ResetBurst", "ResetBurst">>
GOp == Chaos /\ LET k == OpSeq[RandomElement(1..Len(OpSeq))]
                    q == RandomElement(Peers)
                IN Log([ev |-> "Op", k |-> k, p |-> q]) /\ UNCHANGED <<up, inr, loc, polvars, stalled, held, gone>>

GNext == /\ Len(hist) < MaxSteps
         /\ \/ \E p \in Peers : GUp(p) \/ GUpHold(p) \/ GRelease(p) \/ GDown(p)
                                \/ GAnn(p) \/ GAnn(p) \/ GWd(p) \/ GStall(p) \/ GResume(p)
                                \/ GDelPeer(p) \/ GAddPeer(p)
            \/ GApiAdd \/ GApiDel
            \/ GPolicy \/ GPolicy
            \/ GOp \/ GOp

GSpec == GInit /\ [][GNext]_gvars

Emit == Len(hist) = MaxSteps =>
          PrintT("VPOUT " \o ToJson([peers |-> PInfo, localas |-> LocalAS, steps |-> hist]))
=============================================================================
