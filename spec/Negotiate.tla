---------------------------- MODULE Negotiate ----------------------------
(* C08 - session parameters are negotiated as the intersection of both OPEN messages.

   A pure function  (local neighbour configuration, received OPEN)  ->  session parameters,
   plus the OPEN the speaker has to send for a configuration.

   PROPERTY layer (declarative, transcribed from the property text and the RFCs; no reference
   to how gobgp computes anything):
     Accepts / RefuseReasons       RFC 4271 6.2
     Hold, KeepaliveAllowed        RFC 4271 4.2, 4.4, 10
     Families                      RFC 4760 8, RFC 5492 (absent MP capability => IPv4 unicast)
     ApSendLower/Upper, ApRecv...  RFC 7911 4 (sandwich: duplicate tuples that disagree)
     FourOctet                     RFC 6793 3, 4.1
     ExtMsg                        RFC 8654 3, 4
     PeerType / RealAS             RFC 4271 1.1 (internal peer = same AS), RFC 6793 4.1
     OpenSentOK                    RFC 4271 4.2, RFC 6793 4.1, RFC 4760 8, RFC 7911 4, RFC 4724 3
   MECHANISM layer (M_*, shaped like pkg/server/fsm.go: open2Cap, stateChange(ESTABLISHED),
   keepaliveTicker, ValidateOpenMsg, buildopen): checked against the property layer by TLC in
   MCNegotiate (design level); the REAL code is checked against the property layer by
   trace/NegotiateTrace.tla.

   Vocabulary
     cfg  = [las, peeras, fams, hold, ka, gr, grn, bulk]
              las     AS of the speaker                    peeras  configured peer-as, 0 = none
              fams    sequence of [f, ap, smax]            f \in {"v4","v6","vpn4"}, ap \in
                      {"none","recv","send","both"}; empty = no afi-safi configured
              hold    0 = not configured, -1 = configured as 0 seconds, else seconds
              ka      0 = not configured, else seconds
              gr      "off" | "on" | "llgr"                grn  notification bit (RFC 8538)
              bulk    the speaker originates 1100 extra IPv4 routes (export probe only)
     open = [as, hold, id, params]    params: sequence of optional parameters, each a sequence of
     cap  = [c, fam, as, t, code, time, n]   c \in {"mp","as4","ap","ext","rr","gr","llgr","unk"}
                                              t = sequence of [fam, m]  (m: 1 receive, 2 send)
*)
EXTENDS Integers, Sequences, FiniteSets, TLC

AS_TRANS    == 23456
DefaultHold == 90          \* docs/sources/configuration.md, oc.DEFAULT_HOLDTIME
MaxLegacy   == 4096        \* RFC 4271 4.1
SpeakerId   == "10.0.0.100"

Min(a, b) == IF a < b THEN a ELSE b
Max(a, b) == IF a > b THEN a ELSE b
Range(s)  == {s[i] : i \in DOMAIN s}
Bit(m, b) == (m \div b) % 2 = 1        \* b = 1 receive, b = 2 send

RECURSIVE Flatten(_)
Flatten(ss) == IF ss = <<>> THEN <<>> ELSE Head(ss) \o Flatten(Tail(ss))

(* every capability of the OPEN in wire order, whatever optional parameter carries it
   (RFC 5492 4: "... may appear more than once / in several Capabilities Optional Parameters") *)
Caps(open)      == Flatten(open.params)
CapsOf(open, c) == SelectSeq(Caps(open), LAMBDA x : x.c = c)
HasCap(open, c) == CapsOf(open, c) # <<>>

---------------------------------------------------------------------------
(* the local side *)

(* configured hold time; 90 s when not configured *)
LHold(cfg) == IF cfg.hold = -1 THEN 0 ELSE IF cfg.hold = 0 THEN DefaultHold ELSE cfg.hold
(* configured keepalive interval; a third of the configured hold time when not configured *)
LKa(cfg)   == IF cfg.ka # 0 THEN cfg.ka ELSE LHold(cfg) \div 3
(* configured families; the neighbour address is IPv4, so ipv4-unicast when none is configured *)
CfgFams(cfg) == {cfg.fams[i].f : i \in DOMAIN cfg.fams}
LFams(cfg)   == IF cfg.fams = <<>> THEN {"v4"} ELSE CfgFams(cfg)
LEntry(cfg, f) == cfg.fams[CHOOSE i \in DOMAIN cfg.fams : cfg.fams[i].f = f]
LMode(cfg, f) ==
  IF f \notin CfgFams(cfg) THEN 0
  ELSE LET e == LEntry(cfg, f)
       IN (IF e.ap \in {"recv", "both"} THEN 1 ELSE 0) +
          (IF e.ap \in {"send", "both"} /\ e.smax > 0 THEN 2 ELSE 0)

---------------------------------------------------------------------------
(* PROPERTY layer *)

(* RFC 6793 4.1: the 4-octet capability carries the real AS number; the 2-octet field then holds
   it as well or AS_TRANS. Without the capability the 2-octet field is the AS number. *)
As4Values(open) == {x.as : x \in Range(CapsOf(open, "as4"))}
RealAS(open) == IF HasCap(open, "as4") THEN CHOOSE a \in As4Values(open) : TRUE ELSE open.as
WellFormedAS(open) == Cardinality(As4Values(open)) <= 1

(* RFC 4271 6.2: hold time 1 or 2 MUST be rejected (Unacceptable Hold Time, 2/6); an unacceptable
   AS is Bad Peer AS (2/2). The RFC does not order the checks: any applicable reason conforms. *)
RefuseReasons(cfg, open) ==
  (IF open.hold \in {1, 2} THEN {<<2, 6>>} ELSE {}) \cup
  (IF cfg.peeras # 0 /\ RealAS(open) # cfg.peeras THEN {<<2, 2>>} ELSE {})
Accepts(cfg, open) == RefuseReasons(cfg, open) = {}

(* RFC 4271 4.2: "the smaller of its configured Hold Time and the Hold Time received" *)
Hold(cfg, open) == Min(LHold(cfg), open.hold)

(* Interval between KEEPALIVEs the session runs with (none at all when Hold = 0, RFC 4271 4.4).
   Property text: "a third of it unless the configured one applies".
   RFC 4271 10: KeepaliveTime is a configurable value, "a third of the HoldTime" the suggestion;
   4.4: never more often than once per second.  Configuration model (oc.TimersConfig):
   keepalive-interval = "Time interval in seconds between transmission of keepalive messages to
   the neighbor. Typically set to 1/3 the hold-time"; not configured = hold-time / 3.
     - The configured hold time is the negotiated one (the peer offered the same or more): the
       operator's pair (hold-time, keepalive-interval) is in force as configured, so the
       configured interval APPLIES - whether it is shorter or longer than a third.  Only a
       configured interval that is not below the hold time (the session could not live with it)
       is left open: a third or the configured value.
     - The peer forced a smaller hold time: a third of the negotiated value; the configured
       interval may still be used when it is not larger than that (one-sided: the documents do
       not say).  *)
KeepaliveAllowed(cfg, open) ==
  LET h == Hold(cfg, open)
      third == Max(1, h \div 3)
  IN IF h = 0 THEN {}
     ELSE IF h = LHold(cfg)
          THEN IF cfg.ka = 0 THEN {third}
               ELSE IF cfg.ka < h THEN {cfg.ka}
               ELSE {third, cfg.ka}
     ELSE {third} \cup (IF LKa(cfg) >= 1 /\ LKa(cfg) <= h \div 3 THEN {LKa(cfg)} ELSE {})

(* RFC 4760 8 / RFC 5492: a speaker that sends no Multiprotocol capability exchanges IPv4 unicast
   only; otherwise exactly the <AFI,SAFI> it lists. *)
RemoteFams(open) == IF HasCap(open, "mp") THEN {x.fam : x \in Range(CapsOf(open, "mp"))} ELSE {"v4"}
Families(cfg, open) == LFams(cfg) \cap RemoteFams(open)

(* RFC 7911 4: send for <AFI,SAFI> iff we announced send and the peer announced receive; receive
   iff we announced receive and the peer announced send.  All tuples of all ADD-PATH capabilities
   count ("squash").  When tuples for one family disagree the RFC does not say which one counts:
   Lower = every tuple grants it, Upper = some tuple grants it. *)
ApTuples(open) == Flatten([i \in DOMAIN CapsOf(open, "ap") |-> CapsOf(open, "ap")[i].t])
TupleModes(open, f) == {x.m : x \in {y \in Range(ApTuples(open)) : y.fam = f}}
ApLower(cfg, open, f, lbit, rbit) ==
  /\ f \in Families(cfg, open) /\ Bit(LMode(cfg, f), lbit)
  /\ TupleModes(open, f) # {} /\ \A m \in TupleModes(open, f) : Bit(m, rbit)
ApUpper(cfg, open, f, lbit, rbit) ==
  /\ f \in Families(cfg, open) /\ Bit(LMode(cfg, f), lbit)
  /\ \E m \in TupleModes(open, f) : Bit(m, rbit)
ApSendLower(cfg, open, f) == ApLower(cfg, open, f, 2, 1)
ApSendUpper(cfg, open, f) == ApUpper(cfg, open, f, 2, 1)
ApRecvLower(cfg, open, f) == ApLower(cfg, open, f, 1, 2)
ApRecvUpper(cfg, open, f) == ApUpper(cfg, open, f, 1, 2)

(* RFC 6793 3: 4-octet AS numbers in AS_PATH iff both are NEW speakers; the speaker under test
   always is one (OpenSentOK demands its capability). *)
FourOctet(cfg, open) == HasCap(open, "as4")
(* RFC 8654 4: extended messages may be sent only to a peer that advertised the capability; the
   speaker advertises it itself, so it is in force iff the peer announced it. *)
ExtMsg(cfg, open) == HasCap(open, "ext")
(* internal iff the REAL remote AS equals the local AS *)
PeerType(cfg, open) == IF RealAS(open) = cfg.las THEN "internal" ELSE "external"

(* The OPEN the speaker sends, o = [version, as, hold, id, len, caps] with caps a sequence of
   decoded capabilities.  Capabilities this property does not speak about are unconstrained. *)
OCaps(o, c) == SelectSeq(o.caps, LAMBDA x : x.c = c)
OTuples(o, c) == Flatten([i \in DOMAIN OCaps(o, c) |-> OCaps(o, c)[i].t])
OpenSentOKx(cfg, o, grflags) ==
  /\ o.seen /\ o.bad = "" /\ o.version = 4
  /\ o.len <= MaxLegacy                                              \* RFC 8654 4: never for OPEN
  /\ o.as = (IF cfg.las > 65535 THEN AS_TRANS ELSE cfg.las)           \* RFC 6793 4.1
  /\ Len(OCaps(o, "as4")) = 1 /\ OCaps(o, "as4")[1].as = cfg.las
  /\ o.hold = LHold(cfg)
  /\ o.id = SpeakerId
  \* one Multiprotocol capability per configured family, nothing else
  /\ {x.fam : x \in Range(OCaps(o, "mp"))} = LFams(cfg)
  /\ Len(OCaps(o, "mp")) = Cardinality(LFams(cfg))
  \* ADD-PATH: one tuple per family with a mode configured
  /\ {<<x.fam, x.m>> : x \in Range(OTuples(o, "ap"))} =
       {<<f, LMode(cfg, f)>> : f \in {g \in CfgFams(cfg) : LMode(cfg, g) # 0}}
  /\ Len(OTuples(o, "ap")) = Cardinality({g \in CfgFams(cfg) : LMode(cfg, g) # 0})
  \* graceful restart / long-lived graceful restart as configured
  /\ Len(OCaps(o, "gr")) = (IF cfg.gr = "off" THEN 0 ELSE 1)
  \* RFC 8538 N bit as configured; RFC 4724 R bit only from a restarting speaker (never here)
  /\ cfg.gr # "off" => /\ grflags => (OCaps(o, "gr")[1].n = cfg.grn /\ ~OCaps(o, "gr")[1].r)
                       /\ {x.fam : x \in Range(OCaps(o, "gr")[1].t)} = CfgFams(cfg)
  /\ Len(OCaps(o, "llgr")) = (IF cfg.gr = "llgr" THEN 1 ELSE 0)
  /\ cfg.gr = "llgr" => {x.fam : x \in Range(OCaps(o, "llgr")[1].t)} = CfgFams(cfg)
OpenSentOK(cfg, o) == OpenSentOKx(cfg, o, TRUE)

---------------------------------------------------------------------------
(* MECHANISM layer - shaped like the code *)

(* bgp.ValidateOpenMsg: peer AS, then hold time; first failure wins *)
M_RealAS(open) == IF HasCap(open, "as4") THEN CapsOf(open, "as4")[Len(CapsOf(open, "as4"))].as ELSE open.as
M_Outcome(cfg, open) ==
  IF cfg.peeras # 0 /\ M_RealAS(open) # cfg.peeras THEN <<2, 2>>
  ELSE IF open.hold < 3 /\ open.hold # 0 THEN <<2, 6>>
  ELSE <<0, 0>>

(* stateChange(ESTABLISHED) *)
M_Hold(cfg, open) == IF open.hold > LHold(cfg) THEN LHold(cfg) ELSE open.hold
M_Ka(cfg, open)   == IF M_Hold(cfg, open) < LHold(cfg) THEN M_Hold(cfg, open) \div 3 ELSE LKa(cfg)
(* keepaliveTicker: none for hold 0; an interval of 0 becomes 1 s *)
M_Ticker(cfg, open) == IF M_Hold(cfg, open) = 0 THEN 0 ELSE Max(1, M_Ka(cfg, open))

(* open2Cap: capability map in wire order; ADD-PATH capabilities squashed into one tuple list; a
   missing Multiprotocol capability is replaced by ipv4-unicast; per remote family the LAST tuple
   of that family gives the mode; intersection with the local families *)
M_RemoteFams(open) == IF HasCap(open, "mp") THEN {x.fam : x \in Range(CapsOf(open, "mp"))} ELSE {"v4"}
M_RemoteMode(open, f) ==
  LET ts == SelectSeq(ApTuples(open), LAMBDA x : x.fam = f)
  IN IF ts = <<>> THEN 0 ELSE ts[Len(ts)].m
M_Neg(cfg, open) ==
  [f \in LFams(cfg) \cap M_RemoteFams(open) |->
     (IF Bit(LMode(cfg, f), 1) /\ Bit(M_RemoteMode(open, f), 2) THEN 1 ELSE 0) +
     (IF Bit(LMode(cfg, f), 2) /\ Bit(M_RemoteMode(open, f), 1) THEN 2 ELSE 0)]
M_TwoByte(cfg, open) == ~HasCap(open, "as4")
M_Ext(cfg, open)     == HasCap(open, "ext")
(* peer type: from the OPEN only when no peer-as is configured, else from the configuration *)
M_PeerType(cfg, open) ==
  IF cfg.peeras = 0 THEN (IF cfg.las = M_RealAS(open) THEN "internal" ELSE "external")
  ELSE (IF cfg.peeras = cfg.las THEN "internal" ELSE "external")

(* buildopen / capabilitiesFromConfig, as the decoded record OpenSentOK speaks about *)
M_Cap(c) == [c |-> c, fam |-> "", as |-> 0, t |-> <<>>, code |-> 0, time |-> 0, n |-> FALSE, r |-> FALSE]
M_Open(cfg) ==
  LET fs == IF cfg.fams = <<>> THEN <<"v4">> ELSE [i \in DOMAIN cfg.fams |-> cfg.fams[i].f]
      mps == [i \in DOMAIN fs |-> [M_Cap("mp") EXCEPT !.fam = fs[i]]]
      cf  == [i \in DOMAIN cfg.fams |-> cfg.fams[i].f]
      apf == SelectSeq(cf, LAMBDA f : LMode(cfg, f) # 0)
      ap  == IF apf = <<>> THEN <<>>
             ELSE <<[M_Cap("ap") EXCEPT !.t = [i \in DOMAIN apf |-> [fam |-> apf[i], m |-> LMode(cfg, apf[i])]]]>>
      grt == [i \in DOMAIN cf |-> [fam |-> cf[i], m |-> 0]]
      gr  == IF cfg.gr = "off" THEN <<>> ELSE <<[M_Cap("gr") EXCEPT !.t = grt, !.n = cfg.grn]>>
      ll  == IF cfg.gr = "llgr" THEN <<[M_Cap("llgr") EXCEPT !.t = grt]>> ELSE <<>>
  IN [seen |-> TRUE, bad |-> "", version |-> 4, len |-> 29,
      as |-> IF cfg.las > 65535 THEN AS_TRANS ELSE cfg.las,
      hold |-> LHold(cfg), id |-> SpeakerId,
      caps |-> <<M_Cap("rr"), M_Cap("ext")>> \o mps \o <<[M_Cap("as4") EXCEPT !.as = cfg.las]>> \o gr \o ll \o ap]
=============================================================================
