---------------------------- MODULE MCGrLlgr ----------------------------
(* small-scope constants for the exhaustive design-level check of GrLlgrMech (times in seconds: restart
   time 2, long-lived stale times 2 (v4) / 3 (v6)) *)
EXTENDS GrLlgrMech

Cp(g, n, l) == [gr |-> g # "none", fams |-> [f \in Fams |-> (g = "both") \/ (g = f)], rt |-> IF g = "none" THEN 0 ELSE 2,
                n |-> (g # "none") /\ n, r |-> FALSE,
                llgr |-> [f \in Fams |-> IF g # "none" /\ (l = "both" \/ l = f) THEN (IF f = "v4" THEN 2 ELSE 3) ELSE 0], hold |-> 0]
MC_CapsGr   == {Cp("none", FALSE, "none"), Cp("v4", FALSE, "none"), Cp("both", TRUE, "none")}
MC_CapsLlgr == {Cp("none", FALSE, "none"), Cp("both", TRUE, "both"), Cp("both", FALSE, "v4")}
MC_CfgGr    == [gr |-> TRUE, notif |-> TRUE, llgr |-> FALSE, rtlocal |-> 9, deferral |-> 0, restart |-> FALSE]
MC_CfgLlgr  == [gr |-> TRUE, notif |-> TRUE, llgr |-> TRUE, rtlocal |-> 9, deferral |-> 0, restart |-> FALSE]
MC_Kinds    == {"close", "notif", "hardreset", "pfxlimit"}
MC_Kinds2   == {"close", "hardreset"}
=============================================================================
