---------------------------- MODULE MCAdjInAp ----------------------------
(* Design level for the ADD-PATH receive part of C02: exhaustive exploration of AdjInAp over a small
   pool.  There is no mechanism layer to refine; what is checked is the property layer's own
   sanity: the definitions that the trace spec compares the real code with are well formed, agree
   with each other and - where no neighbour holds two paths - with Speaker.tla's BestOf. *)
EXTENDS AdjInAp, SpeakerDom

CONSTANTS Codes, LocalCodes, MaxKeys

Bursts(p) == {K \in SUBSET Keys(p) : Cardinality(K) \in 1..MaxKeys}

Next ==
  \/ \E p \in Peers : Up(p) \/ Down(p) \/ DelPeer(p) \/ AddPeer(p) \/ ResetIn(p)
  \/ \E p \in Peers : \E K \in Bursts(p) : \E W \in SUBSET K : \E c \in Codes :
        Msg(p, W, K \ W, MkRoute(PInfo, p, c))
  \/ \E x \in Prefixes : ApiDel(x) \/ \E c \in LocalCodes : ApiAdd(x, MkLocal(c))

Spec == Init /\ [][Next]_avars

---------------------------------------------------------------------------
RouteDom(p) == {MkRoute(PInfo, p, c) : c \in Codes} \cup {NoRoute}

D_TypeOK ==
  /\ up \in [Peers -> BOOLEAN] /\ gone \subseteq Peers
  /\ \A p \in Peers : \A x \in Prefixes : \A i \in AllIds :
        /\ inr[p][x][i] \in RouteDom(p)
        /\ (i \notin Ids(p) => inr[p][x][i] = NoRoute)
  /\ \A x \in Prefixes : loc[x] \in {MkLocal(c) : c \in LocalCodes} \cup {NoRoute}

(* the loop check on the concrete AS_PATH is the generator's "loop" flag *)
ASSUME D_RejIsLoop == \A p \in Peers : \A c \in Codes : Rej(MkRoute(PInfo, p, c)) = MkRoute(PInfo, p, c).loop

(* nothing from an ended session or a removed neighbour *)
D_NoGhost == \A p \in Peers : /\ (~up[p] => AdjInExpected(p) = {} /\ NumReceived(p) = 0)
                              /\ (p \in gone => ~up[p])
                              /\ \A x \in Prefixes : \A e \in LocExpected(x) : e.src = p => up[p]

(* the Loc-RIB is exactly the un-rejected part of the Adj-RIBs-In plus the local routes, one entry
   per (source, path identifier) *)
D_LocFromAdj ==
  \A x \in Prefixes :
    /\ \A e \in LocExpected(x) :
         IF e.src = LOCSRC THEN e.r = loc[x]
         ELSE [x |-> x, id |-> e.id, src |-> e.src, v |-> e.r.v, rej |-> FALSE] \in AdjInExpected(e.src)
    /\ \A p \in Peers : \A a \in AdjInExpected(p) :
         (a.x = x /\ ~a.rej) => \E e \in LocExpected(x) : e.src = p /\ e.id = a.id /\ e.r.v = a.v
    /\ \A p \in Peers : \A a \in AdjInExpected(p) :
         (a.x = x /\ a.rej) => ~\E e \in LocExpected(x) : e.src = p /\ e.id = a.id
    /\ Cardinality(LocExpected(x)) = Cardinality({<<e.src, e.id>> : e \in LocExpected(x)})

D_Counters ==
  \A p \in Peers :
    /\ NumAccepted(p) <= NumReceived(p) /\ NumReceived(p) <= Cardinality(Keys(p))
    /\ NumAccepted(p) = Cardinality(UNION {{<<x, e.id>> : e \in {f \in LocExpected(x) : f.src = p}} : x \in Prefixes})

(* the documented order is a strict partial order on the candidates: a best candidate exists *)
D_Maximal ==
  \A x \in Prefixes :
    LET T == LocExpected(x) IN
      /\ (T # {} => Maximal(T) # {})
      /\ \A a, b \in T : ~(DocBetter(a.r, b.r) /\ DocBetter(b.r, a.r))
      /\ \A a, b, c \in T : (DocBetter(a.r, b.r) /\ DocBetter(b.r, c.r)) => DocBetter(a.r, c.r)
      /\ \A a, b \in Maximal(T) : a # b => a.src = b.src      \* ties only between paths of ONE source

(* where every source has at most one path (no ADD-PATH content) the best candidate is unique and is
   Speaker.tla's BestOf *)
D_AgreesWithSpeaker ==
  \A x \in Prefixes :
    LET T == LocExpected(x) IN
      (T # {} /\ \A a, b \in T : a # b => a.src # b.src) =>
         Maximal(T) = {e \in T : e.r = S!BestOf({f.r : f \in T})}

(* one export per neighbour and prefix unless the tied candidates differ *)
D_Export ==
  \A p \in Peers : \A x \in Prefixes :
    /\ ExportSet(p, x) # {}
    /\ (LocExpected(x) = {} => ExportSet(p, x) = {NoRoute})
    /\ \A o \in ExportSet(p, x) : o # NoRoute => o.src # p
=============================================================================
