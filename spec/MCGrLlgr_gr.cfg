SPECIFICATION MSpec
CONSTANTS
  Prefixes = {"x1", "y1"}
  Bugs = {}
  MaxEvents = 7
  MaxClock = 5
  CapsPool <- MC_CapsGr
  KindPool <- MC_Kinds
  Cfg <- MC_CfgGr
INVARIANTS
  D_Refines
  D_TypeOK
CHECK_DEADLOCK FALSE
