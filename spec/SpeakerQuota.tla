---------------------------- MODULE SpeakerQuota ----------------------------
(* Systematic schedules for the ADD-PATH send-max quota (C01): a neighbour with send-max 2 and THREE
   eligible paths for one prefix (two neighbours and the local route).  TLC enumerates, one behaviour
   each, every order in which the three sources announce, every source whose path is then withdrawn
   (a held-back path must be promoted into the freed slot), its re-announcement (the quota is full
   again: nothing may be added beyond it), and the withdrawal of a second source.  Attribute variants
   are drawn with RandomElement.  Only the schedule is built here; SpeakerTrace judges every step
   (C01_AddPathExact: every entry eligible, no source twice, exactly min(send-max, eligible) entries;
   C01_StableIds). *)
EXTENDS Speaker, SpeakerDom, Json

VARIABLES hist, pick
qvars == <<hist, pick, up, inr, loc, impPol, expPol, inrPol, expEff>>

Srcs == {"A", "B", "L"}
Perms == {<<a, b, c>> : a \in Srcs, b \in Srcs, c \in Srcs}
Orders == {p \in Perms : p[1] # p[2] /\ p[2] # p[3] /\ p[1] # p[3]}
Picks == {[o |-> o, w1 |-> w1, w2 |-> w2] : o \in Orders, w1 \in Srcs, w2 \in Srcs}

Ann(s) == IF s = "L" THEN [ev |-> "ApiAdd", x |-> "x1", r |-> MkLocal(RandomElement({0, 1}))]
          ELSE [ev |-> "Ann", p |-> s, x |-> "x1", r |-> MkRoute(PInfo, s, RandomElement({0, 1, 3, 5}))]
Wd(s)  == IF s = "L" THEN [ev |-> "ApiDel", x |-> "x1"] ELSE [ev |-> "Wd", p |-> s, x |-> "x1"]

Skeleton(q) ==
  << [ev |-> "Up", p |-> "A"], [ev |-> "Up", p |-> "B"], [ev |-> "Up", p |-> "C"],
     Ann(q.o[1]), Ann(q.o[2]), Ann(q.o[3]),
     Wd(q.w1), Ann(q.w1) >>
  \o (IF q.w2 # q.w1 THEN << Wd(q.w2), Wd(q.w1), Ann(q.w2) >> ELSE << Ann(q.w1), Wd(q.w1) >>)

QInit == pick \in Picks /\ hist = <<>> /\ PInit
QNext == hist = <<>> /\ hist' = Skeleton(pick) /\ UNCHANGED <<pick, pvars>>
QSpec == QInit /\ [][QNext]_qvars

Emit == hist # <<>> =>
          PrintT("VPOUT " \o ToJson([peers |-> PInfo, localas |-> LocalAS, steps |-> hist]))
=============================================================================
