---------------------------- MODULE PolicyDom ----------------------------
(* C10 - concrete vocabulary shared by the exhaustive pools, the behaviour generator, the trace
   spec and the Go harnesses (harness/c10, harness/c10srv).  Every value that has a concrete
   counterpart carries the concrete string (the harness uses ONLY the string and re-derives the
   structured form itself with net/netip; a disagreement is a machinery error, DESIGN 2.7 rule 4). *)
EXTENDS Integers, Sequences, FiniteSets

LocalAS == 65000

(* ---- peers ("neighbours") ---------------------------------------------------------------- *)
PeerNames == {"A", "B", "C", "D"}
PeerTable ==
  [p \in PeerNames |->
     CASE p = "A" -> [addr |-> "10.0.0.1",       as |-> 65001, kind |-> "external", laddr |-> "10.0.0.254",      fam |-> "v4"]
       [] p = "B" -> [addr |-> "10.0.0.2",       as |-> 65000, kind |-> "internal", laddr |-> "10.0.0.254",      fam |-> "v4"]
       [] p = "C" -> [addr |-> "10.0.1.1",       as |-> 65002, kind |-> "external", laddr |-> "10.0.1.254",      fam |-> "v4"]
       [] p = "D" -> [addr |-> "2001:db8:ff::1", as |-> 65003, kind |-> "external", laddr |-> "2001:db8:ff::fe", fam |-> "v6"]]
Sources == PeerNames \cup {"local"}

(* neighbor-set members (address or prefix notation, policy.md "neighbor-sets" example 1) and the
   peers each one covers *)
NbrMembers == {"10.0.0.1/32", "10.0.0.2/32", "10.0.1.1/32", "10.0.0.0/24", "2001:db8:ff::1/128", "10.9.9.9/32"}
NbrCovers ==
  [m \in NbrMembers |->
     CASE m = "10.0.0.1/32"        -> {"A"}
       [] m = "10.0.0.2/32"        -> {"B"}
       [] m = "10.0.1.1/32"        -> {"C"}
       [] m = "10.0.0.0/24"        -> {"A", "B"}
       [] m = "2001:db8:ff::1/128" -> {"D"}
       [] m = "10.9.9.9/32"        -> {}]

(* ---- prefixes ---------------------------------------------------------------------------- *)
(* g = address as a tuple of groups (v4: 4 octets, v6: 8 hextets), len = prefix length *)
Pfx(s, fam, g, len) == [s |-> s, fam |-> fam, g |-> g, len |-> len]
P4(s, a, b, c, d, len) == Pfx(s, "v4", <<a, b, c, d>>, len)
P6(s, a, b, c, d, len) == Pfx(s, "v6", <<a, b, c, d, 0, 0, 0, 0>>, len)

RoutePrefixes == {
  P4("10.1.0.0/16", 10, 1, 0, 0, 16),   P4("10.1.1.0/24", 10, 1, 1, 0, 24),
  P4("10.1.1.128/25", 10, 1, 1, 128, 25), P4("10.2.0.0/16", 10, 2, 0, 0, 16),
  P4("10.1.128.0/17", 10, 1, 128, 0, 17), P4("192.168.0.0/24", 192, 168, 0, 0, 24),
  P6("2001:db8::/32", 8193, 3512, 0, 0, 32), P6("2001:db8:1::/48", 8193, 3512, 1, 0, 48),
  P6("2001:db8:1:1::/64", 8193, 3512, 1, 1, 64) }

SetPrefixes == {
  P4("10.0.0.0/8", 10, 0, 0, 0, 8), P4("10.1.0.0/16", 10, 1, 0, 0, 16), P4("10.1.1.0/24", 10, 1, 1, 0, 24),
  P4("10.1.128.0/17", 10, 1, 128, 0, 17),
  P6("2001:db8::/32", 8193, 3512, 0, 0, 32), P6("2001:db8:1::/48", 8193, 3512, 1, 0, 48) }

Width(fam) == IF fam = "v4" THEN 32 ELSE 128

(* prefix-list entry = prefix + mask-length range.  Only ranges with min >= prefix length are
   generated: policy.md describes the entry as "containment + length range" ("high order 2 octets
   of NLRI is 10.33 and its prefix length is between 21 and 24") and says nothing about ranges
   that start above the entry's own length (excluded, see level_note). *)
Entry(p, mn, mx) == [s |-> p.s, fam |-> p.fam, g |-> p.g, len |-> p.len, min |-> mn, max |-> mx]
RangesOf(p) == {r \in { <<p.len, p.len>>, <<p.len, p.len + 8>>, <<p.len + 1, Width(p.fam)>>,
                        <<p.len + 8, p.len + 9>>, <<p.len, Width(p.fam)>> } : r[2] <= Width(p.fam)}
PrefixEntries == UNION {{Entry(p, r[1], r[2]) : r \in RangesOf(p)} : p \in SetPrefixes}

(* ---- attribute values -------------------------------------------------------------------- *)
ASNs       == {65001, 65002, 65100}
AsShapes   == {"left", "origin", "include", "only"}         \* ^AS_   _AS$   _AS_   ^AS$
AsMembers  == {[shape |-> sh, asn |-> a] : sh \in AsShapes, a \in ASNs}
AsPaths    == { <<>>, <<65001>>, <<65002>>, <<65001, 65100>>, <<65002, 65001>>, <<65001, 65001, 65100>>,
                <<65100, 65002, 65001>>, <<65003>>, <<65003, 65100>> }
Comms      == {"65001:100", "65001:200", "65002:100", "65100:10"}
ExtComms   == {"rt:65001:100", "soo:65001:100", "rt:65002:200"}
ExtLB      == "lb:65001:125000"      \* non-transitive; only ever carried by routes, never in sets
LargeComms == {"65001:1:1", "65001:1:2", "65002:2:2"}
NextHops4  == {"192.0.2.1", "192.0.2.2"}
NextHops6  == {"2001:db8:ee::1", "2001:db8:ee::2"}
AddrFam(a) == IF a \in NextHops6 \/ a = "2001:db8:ff::fe" \/ a = "2001:db8:ff::1" THEN "v6" ELSE "v4"
Families   == {"ipv4-unicast", "ipv6-unicast", "l3vpn-ipv4-unicast"}
FamName(f) == IF f = "v4" THEN "ipv4-unicast" ELSE "ipv6-unicast"
RpkiStates == {"valid", "not-found", "invalid"}
RouteTypes == {"internal", "external", "local"}

(* abstract route.  med / lp = -1: attribute absent.  comm/ext/large: sequences without
   duplicates (projected in wire order by the harness; compared as sets) *)
Route(pfx, src, nh, ap, o, med, lp, cm, ex, lg, rpki, chain) ==
  [pfx |-> pfx, src |-> src, nh |-> nh, aspath |-> ap, origin |-> o, med |-> med, lp |-> lp,
   comm |-> cm, ext |-> ex, large |-> lg, rpki |-> rpki, chain |-> chain]

(* ---- names ------------------------------------------------------------------------------- *)
SetKinds == {"prefix", "neighbor", "aspath", "comm", "ext", "large"}
SetNames(k) == CASE k = "prefix" -> {"ps1", "ps2", "ps3"} [] k = "neighbor" -> {"ns1", "ns2"}
                 [] k = "aspath" -> {"as1", "as2"} [] k = "comm" -> {"cs1", "cs2"}
                 [] k = "ext" -> {"es1"} [] k = "large" -> {"ls1"}
MembersOf(k) == CASE k = "prefix" -> PrefixEntries [] k = "neighbor" -> NbrMembers
                  [] k = "aspath" -> AsMembers [] k = "comm" -> Comms
                  [] k = "ext" -> ExtComms [] k = "large" -> LargeComms
StmtNames == {"st1", "st2", "st3", "st4", "st5"}
PolNames  == {"p1", "p2", "p3"}
Dirs      == {"import", "export"}
=============================================================================
