---------------------------- MODULE Policy ----------------------------
(* C10 - routing policy: configuration objects as state, the documented evaluation model as a
   plain interpreter.

   State  P = [dsets, stmts, pols, asg]
     dsets : name -> [kind, members]            defined sets (policy.md "defined-sets")
     stmts : name -> statement                  [name, conds, acts, disp]
     pols  : name -> sequence of statement names (policy.md "policy-definitions")
     asg   : dir  -> [pols: sequence of policy names, def: set of admissible default verdicts]
                                                (policy.md 4.1 "global.apply-policy.config")
   Config actions = the operations of the public API (pkg/server/server.go AddDefinedSet,
   DeleteDefinedSet, AddStatement, DeleteStatement, AddPolicy, DeletePolicy,
   Set/Add/DeletePolicyAssignment): Valid(P, op) / Apply(P, op).

   PROPERTY layer  : Eval(P, route, dir, peer, amb)  - transcription of docs/sources/policy.md
                     (sentences quoted at each rule); `amb` selects one reading at every point
                     where the document admits two; result "und" where it determines nothing.
   MECHANISM layer : MEval(P, route, dir, peer) - shaped like internal/pkg/table/policy.go
                     (loops with break, result flags, OldNextHop, error paths of SetMed).
   Design level (PolicyMC): the mechanism stays inside the documented envelope.
*)
EXTENDS Integers, Sequences, FiniteSets, TLC, SequencesExt, PolicyDom

---------------------------------------------------------------------------
(* generic helpers *)
Put(f, k, v)  == [x \in DOMAIN f \cup {k} |-> IF x = k THEN v ELSE f[x]]
Drop(f, K)    == [x \in DOMAIN f \ K |-> f[x]]
SeqSet(s)     == {s[i] : i \in 1..Len(s)}
NoDup(s)      == \A i, j \in 1..Len(s) : i # j => s[i] # s[j]
Filter(s, K)  == SelectSeq(s, LAMBDA x : x \notin K)

(* uniform record shapes (every field always present: the records travel through JSON) *)
Cond(k, set, opt, op, n, list) == [k |-> k, set |-> set, opt |-> opt, op |-> op, n |-> n, list |-> list]
Act(k, mode, n, rep, vals, s)  == [k |-> k, mode |-> mode, n |-> n, rep |-> rep, vals |-> vals, s |-> s]
Stmt(name, conds, acts, disp)  == [name |-> name, conds |-> conds, acts |-> acts, disp |-> disp]
BareStmt(name) == Stmt(name, {}, {}, "none")

SetCondKinds == {"prefix", "neighbor", "aspath", "comm", "ext", "large"}
CondKinds    == SetCondKinds \cup {"aslen", "commcount", "origin", "rtype", "rpki", "afisafi", "nh"}
ActKinds     == {"med", "lp", "prepend", "comm", "ext", "large", "nh", "origin"}

EmptyProgram ==
  [dsets |-> <<>>, stmts |-> <<>>, pols |-> <<>>,
   \* policy.md 4.1: "default-import-policy ... default is accept-route" (same for export)
   asg |-> [d \in Dirs |-> [pols |-> <<>>, def |-> {"accept"}]]]

---------------------------------------------------------------------------
(* Configuration operations.  Only operations that the API documentation lets one expect to
   succeed are generated (Valid); the trace spec treats a refused valid operation as a
   conformance gap, not as a verdict. *)

SetsUsedBy(s)    == {c.set : c \in {c \in s.conds : c.k \in SetCondKinds}}
SetReferenced(P, n) == \E s \in Range(P.stmts) : n \in SetsUsedBy(s)
StmtInPolicy(P, n)  == \E p \in DOMAIN P.pols : n \in SeqSet(P.pols[p])
PolAssigned(P, n)   == \E d \in Dirs : n \in SeqSet(P.asg[d].pols)
OneFamily(ms)       == \A a, b \in ms : a.fam = b.fam

StmtWellFormed(P, s) ==
  /\ \A c \in s.conds : c.k \in SetCondKinds =>
        (c.set \in DOMAIN P.dsets /\ P.dsets[c.set].kind = c.k)
  /\ \A c, d \in s.conds : c.k = d.k => c = d          \* one condition per kind
  /\ \A a, b \in s.acts  : a.k = b.k => a = b          \* one action per kind

Valid(P, o) ==
  CASE o.op = "AddSet" ->
         /\ o.members # {}
         /\ (o.name \in DOMAIN P.dsets => P.dsets[o.name].kind = o.kind)
         /\ o.kind = "prefix" =>
              OneFamily(IF o.name \in DOMAIN P.dsets /\ ~o.replace
                        THEN P.dsets[o.name].members \cup o.members ELSE o.members)
    [] o.op = "DelSet" ->
         /\ o.name \in DOMAIN P.dsets
         /\ IF o.all THEN ~SetReferenced(P, o.name)
            ELSE o.members # {} /\ (o.kind = "prefix" => OneFamily(o.members))
    [] o.op = "AddStmt" ->
         /\ StmtWellFormed(P, o.stmt)
         /\ o.stmt.name \in DOMAIN P.stmts =>
              LET old == P.stmts[o.stmt.name] IN
                /\ {c.k : c \in old.conds} \cap {c.k : c \in o.stmt.conds} = {}
                /\ {a.k : a \in old.acts} \cap {a.k : a \in o.stmt.acts} = {}
                /\ (o.stmt.disp # "none" => old.disp = "none")
    [] o.op = "DelStmt" ->
         /\ o.stmt.name \in DOMAIN P.stmts
         /\ IF o.all THEN ~StmtInPolicy(P, o.stmt.name)
            ELSE LET old == P.stmts[o.stmt.name] IN
                   /\ o.stmt.conds \subseteq old.conds /\ o.stmt.acts \subseteq old.acts
                   /\ (o.stmt.disp # "none" => o.stmt.disp = old.disp)
                   /\ (o.stmt.conds # {} \/ o.stmt.acts # {} \/ o.stmt.disp # "none")
    [] o.op = "AddPol" ->
         LET names == [i \in 1..Len(o.stmts) |-> o.stmts[i].name] IN
           /\ NoDup(names)
           /\ IF o.refer
              THEN /\ SeqSet(names) \subseteq DOMAIN P.stmts
                   /\ (o.name \in DOMAIN P.pols => SeqSet(names) \cap SeqSet(P.pols[o.name]) = {})
              ELSE /\ SeqSet(names) \cap DOMAIN P.stmts = {}
                   /\ \A i \in 1..Len(o.stmts) : StmtWellFormed(P, o.stmts[i])
    [] o.op = "DelPol" ->
         /\ o.name \in DOMAIN P.pols
         /\ IF o.all THEN TRUE       \* on an assigned policy: a valid call that MUST be refused (MustRefuse)
            ELSE /\ o.preserve
                 /\ {o.stmts[i].name : i \in 1..Len(o.stmts)} \subseteq SeqSet(P.pols[o.name])
                 /\ o.stmts # <<>>
    [] o.op = "SetAsg" -> NoDup(o.pols) /\ SeqSet(o.pols) \subseteq DOMAIN P.pols
    [] o.op = "AddAsg" -> /\ NoDup(o.pols) /\ SeqSet(o.pols) \subseteq DOMAIN P.pols
                          /\ SeqSet(o.pols) \cap SeqSet(P.asg[o.dir].pols) = {}
    [] o.op = "DelAsg" -> o.all \/ (o.pols # <<>> /\ SeqSet(o.pols) \subseteq SeqSet(P.asg[o.dir].pols))
    [] OTHER -> FALSE

(* deleting a policy that an assignment still lists must be refused ("can't delete. policy p is in use"
   is what the API answers for the export direction); the program does not change *)
MustRefuse(P, o) == o.op = "DelPol" /\ o.all /\ o.name \in DOMAIN P.pols /\ PolAssigned(P, o.name)

MergeStmt(old, new) ==
  Stmt(old.name, old.conds \cup new.conds, old.acts \cup new.acts,
       IF new.disp # "none" THEN new.disp ELSE old.disp)
CutStmt(old, cut) ==
  Stmt(old.name, old.conds \ cut.conds, old.acts \ cut.acts,
       IF cut.disp # "none" THEN "none" ELSE old.disp)

RECURSIVE PutStmts(_, _, _)
PutStmts(f, ss, i) == IF i > Len(ss) THEN f ELSE PutStmts(Put(f, ss[i].name, ss[i]), ss, i + 1)

Apply(P, o) ==
  CASE o.op = "AddSet" ->
         [P EXCEPT !.dsets = Put(@, o.name,
             [kind |-> o.kind,
              members |-> IF o.name \in DOMAIN @ /\ ~o.replace THEN @[o.name].members \cup o.members
                          ELSE o.members])]
    [] o.op = "DelSet" ->
         IF o.all THEN [P EXCEPT !.dsets = Drop(@, {o.name})]
         ELSE [P EXCEPT !.dsets[o.name].members = @ \ o.members]
    [] o.op = "AddStmt" ->
         [P EXCEPT !.stmts = Put(@, o.stmt.name,
             IF o.stmt.name \in DOMAIN @ THEN MergeStmt(@[o.stmt.name], o.stmt) ELSE o.stmt)]
    [] o.op = "DelStmt" ->
         IF o.all THEN [P EXCEPT !.stmts = Drop(@, {o.stmt.name})]
         ELSE [P EXCEPT !.stmts[o.stmt.name] = CutStmt(@, o.stmt)]
    [] o.op = "AddPol" ->
         LET names == [i \in 1..Len(o.stmts) |-> o.stmts[i].name]
             old   == IF o.name \in DOMAIN P.pols THEN P.pols[o.name] ELSE <<>>
         IN [P EXCEPT !.stmts = IF o.refer THEN @ ELSE PutStmts(@, o.stmts, 1),
                      !.pols  = Put(@, o.name, old \o names)]
    [] o.op = "DelPol" ->
         IF MustRefuse(P, o) THEN P
         ELSE IF o.all
         THEN LET rest   == Drop(P.pols, {o.name})
                  inUse  == UNION {SeqSet(rest[p]) : p \in DOMAIN rest}
                  orphan == SeqSet(P.pols[o.name]) \ inUse
              IN [P EXCEPT !.pols = rest,
                           !.stmts = IF o.preserve THEN @ ELSE Drop(@, orphan)]
         ELSE [P EXCEPT !.pols[o.name] = Filter(@, {o.stmts[i].name : i \in 1..Len(o.stmts)})]
    [] o.op = "SetAsg" ->
         [P EXCEPT !.asg[o.dir] = [pols |-> o.pols, def |-> IF o.def = "none" THEN @.def ELSE {o.def}]]
    [] o.op = "AddAsg" ->
         [P EXCEPT !.asg[o.dir] = [pols |-> @.pols \o o.pols, def |-> IF o.def = "none" THEN @.def ELSE {o.def}]]
    [] o.op = "DelAsg" ->
         IF o.all
         \* deleting the whole assignment: nothing is configured any more, so the documented default
         \* ("default is accept-route") applies - or, at most, the previously configured default stays
         THEN [P EXCEPT !.asg[o.dir] = [pols |-> <<>>, def |-> @.def \cup {"accept"}]]
         ELSE [P EXCEPT !.asg[o.dir].pols = Filter(@, SeqSet(o.pols))]

---------------------------------------------------------------------------
(* PROPERTY layer: the documented model *)

(* the statements that are evaluated, in order: "A policy consists of statements"; example 3
   "If you want to add other policies, just add policy-definitions block following the first one";
   example 5 "continue to the next policy if exists. If not, default-policy is applied." *)
RECURSIVE FlatFrom(_, _, _)
FlatFrom(P, pn, i) ==
  IF i > Len(pn) THEN <<>>
  ELSE [j \in 1..Len(P.pols[pn[i]]) |-> P.stmts[P.pols[pn[i]][j]]] \o FlatFrom(P, pn, i + 1)
Flat(P, dir) == FlatFrom(P, P.asg[dir].pols, 1)

(* prefix containment on the group representation *)
GroupBits(fam) == IF fam = "v4" THEN 8 ELSE 16
LeadEq(a, b, n, w) ==
  \A i \in 1..Len(a) :
    LET lo == (i - 1) * w IN
      IF n >= lo + w THEN a[i] = b[i]
      ELSE IF n <= lo THEN TRUE
      ELSE (a[i] \div (2 ^ (lo + w - n))) = (b[i] \div (2 ^ (lo + w - n)))
Covers(e, q) == e.fam = q.fam /\ e.len <= q.len /\ LeadEq(e.g, q.g, e.len, GroupBits(e.fam))
(* policy.md prefix-sets example 1: "Match routes whose high order 2 octets of NLRI is 10.33 and its
   prefix length is between from 21 to 24"; "If you define a prefix-list that doesn't have
   MasklengthRange, it matches routes that have just 10.33.0.0/16 as NLRI." *)
EntryMatches(e, q) == Covers(e, q) /\ e.min <= q.len /\ q.len <= e.max

(* policy.md as-path-sets: "^65100_ means the route is passed from AS 65100 directly",
   "_65100_ means the route comes through AS 65100", "_65100$ means the route is originated by AS
   65100", "^65100$ means the route is originated by AS 65100 and comes from it directly" *)
PathMatch(m, ap) ==
  CASE m.shape = "left"    -> ap # <<>> /\ ap[1] = m.asn
    [] m.shape = "origin"  -> ap # <<>> /\ ap[Len(ap)] = m.asn
    [] m.shape = "include" -> \E i \in 1..Len(ap) : ap[i] = m.asn
    [] m.shape = "only"    -> ap = <<m.asn>>

Cmp(op, x, n) == CASE op = "eq" -> x = n [] op = "ge" -> x >= n [] op = "le" -> x <= n

(* working view of a route: community attributes as sets; dup = the community list may hold a
   value twice (the document does not say whether "add" of a value already present duplicates it);
   und = the document does not determine the result *)
W(r) == [pfx |-> r.pfx, src |-> r.src, nh |-> r.nh, aspath |-> r.aspath, origin |-> r.origin,
         med |-> r.med, lp |-> r.lp, comm |-> SeqSet(r.comm), ext |-> SeqSet(r.ext),
         large |-> SeqSet(r.large), rpki |-> r.rpki, dup |-> FALSE, und |-> FALSE]

(* Readings of the document that are accepted both ways:
   condMods    later statements test the route as modified so far (TRUE) / as received (FALSE);
                 policy.md only says modifications are applied and evaluation continues
   nhCondMods  the same question for the next-hop condition (the code answers it differently)
   nhRestore   "set-next-hop = unchanged" ("don't modify"): keep the current value (FALSE) or
                 restore the next hop the route had before the policy ran (TRUE)
   medAbsZero  set-med "+n"/"-n" on a route without MED: MED counts as 0 (TRUE) / stays absent
   medClamp    set-med "-n" below zero: clamp to 0 (TRUE) / leave the MED as it was (FALSE)
   invOther    match-set-options invert on a prefix-set that is empty or of the other address
                 family: literally "does not match any member" = TRUE, or not applicable = FALSE *)
AmbSpace == [condMods : BOOLEAN, nhCondMods : BOOLEAN, nhRestore : BOOLEAN,
             medAbsZero : BOOLEAN, medClamp : BOOLEAN, invOther : BOOLEAN]

(* policy.md Overview: "neighbor (source/destination of the route)" *)
NeighborOf(w, ctx) == IF ctx.dir = "import" THEN w.src ELSE ctx.peer

(* three-valued: "T", "F", "U" (undetermined by the document) *)
B(x) == IF x THEN "T" ELSE "F"
(* policy.md "Execution condition of Action":
     any    "match is true if given value matches any member of the defined set"
     all    "match is true if given value matches all members of the defined set"
     invert "match is true if given value does not match any member of the defined set"
   `all` over an empty set is left undetermined (the document does not speak of empty sets, except
   for neighbor-sets). *)
Quant(opt, S, M(_)) ==
  CASE opt = "any"    -> B(\E m \in S : M(m))
    [] opt = "invert" -> B(~\E m \in S : M(m))
    [] opt = "all"    -> IF S = {} THEN "U" ELSE B(\A m \in S : M(m))

HoldsV(P, c, w, nhv, ctx) ==
  LET S == IF c.k \in SetCondKinds THEN P.dsets[c.set].members ELSE {} IN
  CASE c.k = "prefix" ->
         IF S # {} /\ \A e \in S : e.fam = w.pfx.fam
         THEN Quant(c.opt, S, LAMBDA e : EntryMatches(e, w.pfx))
         ELSE IF c.opt = "any" THEN "F" ELSE B(ctx.amb.invOther)
    [] c.k = "neighbor" ->
         \* policy.md neighbor-sets: "an empty neighbor-set will match against ANYTHING and not
         \* invert based on the match option"
         IF S = {} THEN "T"
         ELSE IF NeighborOf(w, ctx) = "local" THEN "U"
         ELSE Quant(c.opt, S, LAMBDA m : NeighborOf(w, ctx) \in NbrCovers[m])
    [] c.k = "aspath" -> Quant(c.opt, S, LAMBDA m : PathMatch(m, w.aspath))
    [] c.k = "comm"   -> Quant(c.opt, S, LAMBDA m : m \in w.comm)
    [] c.k = "ext"    -> Quant(c.opt, S, LAMBDA m : m \in w.ext)
    [] c.k = "large"  -> Quant(c.opt, S, LAMBDA m : m \in w.large)
    \* policy.md match-as-path-length: "eq means that length of AS number is equal to Value
    \* element", ge "equal or greater", le "equal or smaller"
    [] c.k = "aslen"     -> B(Cmp(c.op, Len(w.aspath), c.n))
    [] c.k = "commcount" -> IF w.dup THEN "U" ELSE B(Cmp(c.op, Cardinality(w.comm), c.n))
    [] c.k = "origin"    -> B(w.origin = c.n)
    \* policy.md Policy Structure: "route type (internal/external/local)"
    [] c.k = "rtype"     -> B(IF w.src = "local" THEN c.opt = "local" ELSE PeerTable[w.src].kind = c.opt)
    [] c.k = "rpki"      -> B(w.rpki = c.opt)
    [] c.k = "afisafi"   -> B(FamName(w.pfx.fam) \in c.list)
    [] c.k = "nh"        -> B(nhv \in c.list)

HasAct(s, k) == \E a \in s.acts : a.k = k
ActOf(s, k)  == CHOOSE a \in s.acts : a.k = k

(* policy.md bgp-actions set-med: "If only numbers have been specified, replace the med value of
   route. if number and operater(+ or -) have been specified, adding or subtracting the med value" *)
NewMed(a, w, amb) ==
  CASE a.mode = "set" -> a.n
    [] a.mode = "add" -> IF w.med = -1 THEN (IF amb.medAbsZero THEN a.n ELSE -1) ELSE w.med + a.n
    [] a.mode = "sub" ->
         LET base == IF w.med = -1 THEN (IF amb.medAbsZero THEN 0 ELSE -1) ELSE w.med IN
           IF base = -1 THEN -1
           ELSE IF base - a.n < 0 THEN (IF amb.medClamp THEN 0 ELSE w.med)
           ELSE base - a.n

Rep(x, n) == [i \in 1..n |-> x]
(* policy.md set-as-path-prepend: "AS number to prepend. You can use "last-as" to prepend the
   leftmost AS number in the aspath attribute."; "repeat count to prepend AS" *)
NewPath(a, w) ==
  IF a.mode = "last-as" THEN (IF w.aspath = <<>> THEN <<>> ELSE Rep(w.aspath[1], a.rep) \o w.aspath)
  ELSE Rep(a.n, a.rep) \o w.aspath

(* policy.md Policy Structure: "add/replace/remove community or remove all communities" *)
NewComm(a, cur) == CASE a.mode = "add" -> cur \cup a.vals [] a.mode = "remove" -> cur \ a.vals
                     [] a.mode = "replace" -> a.vals

SelfAddr(ctx) == PeerTable[ctx.peer].laddr
(* policy.md Policy Structure: "set next-hop (specific address/own local address/don't modify)" *)
NewNh(a, w, orig, ctx) ==
  CASE a.mode = "addr" -> a.s
    [] a.mode = "self" -> SelfAddr(ctx)
    [] a.mode = "unchanged" -> IF ctx.amb.nhRestore THEN orig.nh ELSE w.nh
(* a next hop of the other address family than the route: outside the document *)
NhUnd(a, w, ctx) ==
  CASE a.mode = "addr" -> AddrFam(a.s) # w.pfx.fam
    [] a.mode = "self" -> AddrFam(SelfAddr(ctx)) # w.pfx.fam
    [] OTHER -> FALSE

(* "When ALL conditions in the statement are true, the action(s) in the statement are executed."
   The actions of one statement touch different attributes, so their order is immaterial. *)
Modify(s, w, orig, ctx) ==
  LET w1 == IF HasAct(s, "med") THEN [w EXCEPT !.med = NewMed(ActOf(s, "med"), w, ctx.amb)] ELSE w
      w2 == IF HasAct(s, "lp") THEN [w1 EXCEPT !.lp = ActOf(s, "lp").n] ELSE w1
      w3 == IF HasAct(s, "prepend") THEN [w2 EXCEPT !.aspath = NewPath(ActOf(s, "prepend"), w2)] ELSE w2
      w4 == IF HasAct(s, "comm")
            THEN LET a == ActOf(s, "comm") IN
                   [w3 EXCEPT !.comm = NewComm(a, @),
                              !.dup = IF a.mode = "replace" THEN FALSE
                                      ELSE @ \/ (a.mode = "add" /\ a.vals \cap w3.comm # {})]
            ELSE w3
      w5 == IF HasAct(s, "ext") THEN [w4 EXCEPT !.ext = NewComm(ActOf(s, "ext"), @)] ELSE w4
      w6 == IF HasAct(s, "large") THEN [w5 EXCEPT !.large = NewComm(ActOf(s, "large"), @)] ELSE w5
      w7 == IF HasAct(s, "nh")
            THEN LET a == ActOf(s, "nh") IN
                   [w6 EXCEPT !.nh = NewNh(a, w6, orig, ctx), !.und = @ \/ NhUnd(a, w6, ctx)]
            ELSE w6
      w8 == IF HasAct(s, "origin") THEN [w7 EXCEPT !.origin = ActOf(s, "origin").n] ELSE w7
  IN w8

Res(v, w, h) == [v |-> v, r |-> w, hits |-> h]

(* "policies and statements in order ... modifications accumulate; the first accept/reject decides"
   policy.md route-disposition: "stop following policy/statement evaluation and accept/reject the
   route"; example 5: "statement without route-disposition continues to the next statement" *)
RECURSIVE Run(_, _, _, _, _, _)
Run(P, ss, i, orig, cur, ctx) ==
  IF i > Len(ss) THEN Res("default", cur, 0)
  ELSE LET s    == ss[i]
           view == IF ctx.amb.condMods THEN cur ELSE orig
           nhv  == IF ctx.amb.nhCondMods THEN cur.nh ELSE orig.nh
           vals == {HoldsV(P, c, view, nhv, ctx) : c \in s.conds}
       IN IF "F" \in vals THEN Run(P, ss, i + 1, orig, cur, ctx)
          ELSE IF "U" \in vals THEN Res("und", cur, 0)
          ELSE IF s.disp = "reject" THEN Res("reject", cur, 1)
          ELSE LET nx == Modify(s, cur, orig, ctx) IN
                 IF nx.und THEN Res("und", nx, 0)
                 ELSE IF s.disp = "accept" THEN Res("accept", nx, 1)
                 ELSE LET t == Run(P, ss, i + 1, orig, nx, ctx) IN [t EXCEPT !.hits = @ + 1]

(* v \in {"accept", "reject", "default", "und"}; "default": the assignment's default applies
   (policy.md 4.1: "action when the route doesn't match any policy or none of the matched policy
   specifies route-disposition") *)
Eval(P, r, dir, peer, amb) ==
  IF dir = "import" /\ r.src = "local" THEN Res("und", W(r), 0)
  ELSE Run(P, Flat(P, dir), 1, W(r), W(r), [dir |-> dir, peer |-> peer, amb |-> amb])

(* the reading the implementation was observed to follow (tried first; the others only on mismatch) *)
CodeAmb(dir) == [condMods |-> TRUE, nhCondMods |-> (dir = "import"), nhRestore |-> (dir = "export"),
                 medAbsZero |-> TRUE, medClamp |-> FALSE, invOther |-> FALSE]

---------------------------------------------------------------------------
(* MECHANISM layer, shaped like internal/pkg/table/policy.go.  Communities are a LIST here. *)

MW(r) == [pfx |-> r.pfx, src |-> r.src, nh |-> r.nh, aspath |-> r.aspath, origin |-> r.origin,
          med |-> r.med, lp |-> r.lp, comm |-> r.comm, ext |-> r.ext, large |-> r.large, rpki |-> r.rpki]

(* regExp-set conditions: result := false; for each member { result = any value matches;
   ALL && !result -> break; (ANY|INVERT) && result -> break }; INVERT -> !result *)
RECURSIVE LoopMatch(_, _, _, _)
LoopMatch(opt, bs, i, result) ==         \* bs[i] = "some value of the route matches member i"
  IF i > Len(bs) THEN result
  ELSE IF opt = "all" /\ ~bs[i] THEN FALSE
  ELSE IF opt # "all" /\ bs[i] THEN TRUE
  ELSE LoopMatch(opt, bs, i + 1, bs[i])
MSetCond(opt, S, M(_)) ==
  LET ms  == SetToSeq(S)
      res == LoopMatch(opt, [i \in 1..Len(ms) |-> M(ms[i])], 1, FALSE)
  IN IF opt = "invert" THEN ~res ELSE res

MHolds(P, c, w, oldnh, ctx) ==
  LET S == IF c.k \in SetCondKinds THEN P.dsets[c.set].members ELSE {} IN
  CASE c.k = "prefix" ->       \* PrefixCondition.Evaluate: family test first, invert afterwards
         IF S = {} \/ \E e \in S : e.fam # w.pfx.fam THEN FALSE
         ELSE LET hit == \E e \in S : Covers(e, w.pfx) /\ e.min <= w.pfx.len /\ w.pfx.len <= e.max
              IN IF c.opt = "invert" THEN ~hit ELSE hit
    [] c.k = "neighbor" ->     \* NeighborCondition.Evaluate
         IF S = {} THEN TRUE
         ELSE LET hit == \E m \in S : ctx.peer \in NbrCovers[m] IN IF c.opt = "invert" THEN ~hit ELSE hit
    [] c.k = "aspath" ->       \* AsPathCondition.Evaluate: early returns, then ANY -> false else true
         LET hitAny == \E m \in S : PathMatch(m, w.aspath) IN
           (CASE c.opt = "any" -> hitAny [] c.opt = "invert" -> ~hitAny
              [] c.opt = "all" -> \A m \in S : PathMatch(m, w.aspath))
    [] c.k = "comm"  -> MSetCond(c.opt, S, LAMBDA m : m \in SeqSet(w.comm))
    [] c.k = "ext"   -> MSetCond(c.opt, S, LAMBDA m : m \in SeqSet(w.ext))
    [] c.k = "large" -> MSetCond(c.opt, S, LAMBDA m : m \in SeqSet(w.large))
    [] c.k = "aslen"     -> Cmp(c.op, Len(w.aspath), c.n)
    [] c.k = "commcount" -> Cmp(c.op, Len(w.comm), c.n)
    [] c.k = "origin"    -> w.origin = c.n
    [] c.k = "rtype"     -> IF w.src = "local" THEN c.opt = "local" ELSE PeerTable[w.src].kind = c.opt
    [] c.k = "rpki"      -> w.rpki = c.opt
    [] c.k = "afisafi"   -> FamName(w.pfx.fam) \in c.list
    [] c.k = "nh"        ->   \* NextHopCondition.Evaluate: OldNextHop wins when it differs
         (IF oldnh # "" /\ oldnh # w.nh THEN oldnh ELSE w.nh) \in c.list

MComm(a, cur) ==
  CASE a.mode = "add"     -> cur \o SetToSeq(a.vals)
    [] a.mode = "remove"  -> SelectSeq(cur, LAMBDA x : x \notin a.vals)
    [] a.mode = "replace" -> SetToSeq(a.vals)

MModify(s, w, oldnh, ctx) ==
  LET w1 == IF HasAct(s, "med")
            THEN LET a == ActOf(s, "med")
                     m == IF w.med = -1 THEN 0 ELSE w.med
                 IN CASE a.mode = "set" -> [w EXCEPT !.med = a.n]
                      [] a.mode = "add" -> [w EXCEPT !.med = m + a.n]
                      [] a.mode = "sub" -> IF m - a.n < 0 THEN w ELSE [w EXCEPT !.med = m - a.n]   \* SetMed error: skipped
            ELSE w
      w2 == IF HasAct(s, "lp") THEN [w1 EXCEPT !.lp = ActOf(s, "lp").n] ELSE w1
      w3 == IF HasAct(s, "prepend") THEN [w2 EXCEPT !.aspath = NewPath(ActOf(s, "prepend"), w2)] ELSE w2
      w4 == IF HasAct(s, "comm") THEN [w3 EXCEPT !.comm = MComm(ActOf(s, "comm"), @)] ELSE w3
      w5 == IF HasAct(s, "ext") THEN [w4 EXCEPT !.ext = MComm(ActOf(s, "ext"), @)] ELSE w4
      w6 == IF HasAct(s, "large") THEN [w5 EXCEPT !.large = MComm(ActOf(s, "large"), @)] ELSE w5
      w7 == IF HasAct(s, "nh")
            THEN LET a == ActOf(s, "nh") IN
                   CASE a.mode = "addr" -> [w6 EXCEPT !.nh = a.s]
                     [] a.mode = "self" -> [w6 EXCEPT !.nh = SelfAddr(ctx)]
                     [] a.mode = "unchanged" -> IF oldnh # "" THEN [w6 EXCEPT !.nh = oldnh] ELSE w6
            ELSE w6
      w8 == IF HasAct(s, "origin") THEN [w7 EXCEPT !.origin = ActOf(s, "origin").n] ELSE w7
  IN w8

RECURSIVE MRun(_, _, _, _, _, _)
MRun(P, ss, i, cur, oldnh, ctx) ==
  IF i > Len(ss) THEN [v |-> "default", r |-> cur]
  ELSE LET s == ss[i] IN
         IF \A c \in s.conds : MHolds(P, c, cur, oldnh, ctx)
         THEN LET nx == MModify(s, cur, oldnh, ctx) IN
                IF s.disp = "none" THEN MRun(P, ss, i + 1, nx, oldnh, ctx)
                ELSE [v |-> s.disp, r |-> nx]
         ELSE MRun(P, ss, i + 1, cur, oldnh, ctx)

(* import: options.Info = source peer, OldNextHop unset; export: Info = target peer,
   OldNextHop = next hop before the policy (pkg/server/server.go prePolicyFilterpath) *)
MEval(P, r, dir, peer) ==
  MRun(P, Flat(P, dir), 1, MW(r), IF dir = "export" THEN r.nh ELSE "", [dir |-> dir, peer |-> peer])

---------------------------------------------------------------------------
(* comparison of a result (mechanism record or projected observation) with the documented model *)

AttrEq(w, a) ==
  /\ a.nh = w.nh /\ a.aspath = w.aspath /\ a.origin = w.origin /\ a.med = w.med /\ a.lp = w.lp
  /\ SeqSet(a.comm) = w.comm /\ SeqSet(a.ext) = w.ext /\ SeqSet(a.large) = w.large

VerdictOK(P, dir, e, v) ==
  \/ e.v = "und"
  \/ e.v = "default" /\ v \in P.asg[dir].def
  \/ e.v \in {"accept", "reject"} /\ v = e.v
ResultOK(P, dir, e, v, attrs) ==
  /\ VerdictOK(P, dir, e, v)
  /\ (e.v # "und" /\ v = "accept") => AttrEq(e.r, attrs)

(* verdict of the mechanism with the assignment default resolved the way the code does *)
MVerdict(P, dir, m) == IF m.v = "default" THEN (IF "accept" \in P.asg[dir].def THEN "accept" ELSE "reject") ELSE m.v

(* design level: for this program and route the code-shaped evaluation is one of the documented
   readings *)
MechWithinDoc(P, r, dir, peer) ==
  LET m == MEval(P, r, dir, peer)
      v == MVerdict(P, dir, m)
  IN \/ ResultOK(P, dir, Eval(P, r, dir, peer, CodeAmb(dir)), v, m.r)
     \/ \E amb \in AmbSpace : ResultOK(P, dir, Eval(P, r, dir, peer, amb), v, m.r)
=============================================================================
