----------------------------- MODULE FramingDom -----------------------------
(* Abstract message shapes shared by the generator, the design-level pools, the Go harness
   (harness/c04/fr_common_test.go) and the trace spec, with
     * the PROPERTY LAYER of C04: what the wire image of a shape must look like, defined from the
       shape and the session options only (attribute type code, value length, NLRI element
       extents, size cap) - transcribed from the RFCs, not from the code;
     * a WRITER MODEL (mechanism layer, shaped like the library's serialisers: flags and
       extended-length bit chosen at serialisation time from the value length, lengths
       back-patched) used for the design-level check reader o writer = identity. *)
EXTENDS Framing

NL(p, l)           == [p |-> p, l |-> l]
(* x = 1: the Extended Length bit is set although the value has at most 255 octets.  RFC 4271 4.3 lets a
   sender choose the two-octet length form for any value (the RFC 1771 restriction to values above 255
   octets was dropped); the library keeps the bit of a parsed attribute and lets a caller set it. *)
A(t, n, sg, fm, nl) == [t |-> t, n |-> n, segs |-> sg, fam |-> fm, nl |-> nl, x |-> 0]
ExtForm(a)         == [a EXCEPT !.x = 1]
Simple(t)          == A(t, 0, <<>>, "", <<>>)
Counted(t, n)      == A(t, n, <<>>, "", <<>>)
PathA(t, sg)       == A(t, 0, sg, "", <<>>)
MpA(t, fm, nl)     == A(t, 0, <<>>, fm, nl)
(* MP_REACH with an explicit next-hop kind in field n:
     0 = one address of the family's own AFI, 1 = one IPv6 address (RFC 8950 for the IPv4 families),
     2 = IPv6 global + link-local *)
MpN(fm, nl, nh)    == A("mpreach", nh, <<>>, fm, nl)
NhKinds == {0, 1, 2}
NhKindsOf(f) == IF f \in {"ipv4-unicast", "ipv4-multicast", "ipv4-labelled-unicast", "l3vpn-ipv4-unicast",
                           "l3vpn-ipv4-multicast"} THEN {0, 1, 2} ELSE {0, 2}      \* kind 1 = kind 0 for IPv6 families
Cap(c, n)          == [c |-> c, n |-> n]

Shape(k, wd, attrs, nlri, params, n, name) ==
  [k |-> k, wd |-> wd, attrs |-> attrs, nlri |-> nlri, params |-> params, n |-> n, name |-> name]
Update(wd, attrs, nlri) == Shape("update", wd, attrs, nlri, <<>>, 0, "")
Open(params)            == Shape("open", <<>>, <<>>, <<>>, params, 0, "")
Notification(n)         == Shape("notification", <<>>, <<>>, <<>>, <<>>, n, "")
Refresh                 == Shape("refresh", <<>>, <<>>, <<>>, <<>>, 0, "")
Keepalive               == Shape("keepalive", <<>>, <<>>, <<>>, <<>>, 0, "")
Example(name)           == Shape("ex", <<>>, <<>>, <<>>, <<>>, 0, name)

Opt(ext, as2, ap4, apmp) == [ext |-> ext, as2 |-> as2, ap4 |-> ap4, apmp |-> apmp]
AllOpts == {Opt(e, a, p, q) : e \in BOOLEAN, a \in BOOLEAN, p \in BOOLEAN, q \in BOOLEAN}

Rep(n, v) == [i \in 1..n |-> v]

----------------------------------------------------------------------------
(* families of the abstract vocabulary (the "core" families of the property text) *)
CoreFamilies == {"ipv4-unicast", "ipv6-unicast", "ipv4-multicast", "ipv6-multicast",
                 "ipv4-labelled-unicast", "ipv6-labelled-unicast",
                 "l3vpn-ipv4-unicast", "l3vpn-ipv6-unicast",
                 "l3vpn-ipv4-multicast", "l3vpn-ipv6-multicast"}
FamAfi(f)  == IF f \in {"ipv4-unicast", "ipv4-multicast", "ipv4-labelled-unicast",
                        "l3vpn-ipv4-unicast", "l3vpn-ipv4-multicast"} THEN 1 ELSE 2
FamSafi(f) == CASE f \in {"ipv4-unicast", "ipv6-unicast"}                   -> 1
                [] f \in {"ipv4-multicast", "ipv6-multicast"}               -> 2
                [] f \in {"ipv4-labelled-unicast", "ipv6-labelled-unicast"} -> 4
                [] f \in {"l3vpn-ipv4-unicast", "l3vpn-ipv6-unicast"}       -> 128
                [] OTHER                                                    -> 129
FamClass(f) == CASE FamSafi(f) \in {1, 2} -> "ip" [] FamSafi(f) = 4 -> "mpls" [] OTHER -> "vpn"
FamMaxBits(f) == IF FamAfi(f) = 1 THEN 32 ELSE 128

(* RFC 4271 4.3: <length (1 octet, bits), prefix (ceil(length/8) octets)>; RFC 8277 2: the length
   counts 24 bits per label too; RFC 4364 4.3.4: and 64 bits of route distinguisher;
   RFC 7911 3: a 4-octet path identifier goes in front when ADD-PATH is on for the family *)
NlriBits(f, e)       == e.p + 24 * e.l + (IF FamClass(f) = "vpn" THEN 64 ELSE 0)
ExpNlriLen(f, e, ap) == (IF ap THEN 4 ELSE 0) + 1 + Ceil8(NlriBits(f, e))
ApOf(f, opts)        == IF f = "ipv4-unicast" THEN opts.ap4 ELSE opts.apmp

(* attribute type codes (IANA BGP path attributes) *)
AttrCode(t) ==
  CASE t = "origin" -> 1 [] t = "aspath" -> 2 [] t = "nexthop" -> 3 [] t = "med" -> 4
    [] t = "localpref" -> 5 [] t = "atomic" -> 6 [] t = "aggregator" -> 7 [] t = "communities" -> 8
    [] t = "originator" -> 9 [] t = "clusterlist" -> 10 [] t = "mpreach" -> 14 [] t = "mpunreach" -> 15
    [] t = "extcomm" -> 16 [] t = "as4path" -> 17 [] t = "as4aggr" -> 18 [] t = "ip6extcomm" -> 25
    [] t = "aigp" -> 26 [] t = "large" -> 32 [] t = "unknown" -> 200
MpKinds   == {"mpreach", "mpunreach"}
PathKinds == {"aspath", "as4path"}
AttrKinds == {"origin", "aspath", "nexthop", "med", "localpref", "atomic", "aggregator", "communities",
              "originator", "clusterlist", "mpreach", "mpunreach", "extcomm", "as4path", "as4aggr",
              "ip6extcomm", "aigp", "large", "unknown"}

(* attribute flags the sender sets (RFC 4271 5, 4456 8, 4760 3, 4360 2, 6793 3, 5701 2, 7311 3, 8092 3):
   optional = 128, transitive = 64 *)
AttrFlags(t) ==
  CASE t \in {"origin", "aspath", "nexthop", "localpref", "atomic"}            -> 64
    [] t \in {"med", "originator", "clusterlist", "mpreach", "mpunreach", "aigp"} -> 128
    [] OTHER                                                                    -> 192

SumSeq(s) == LET RECURSIVE F(_)
                 F(i) == IF i > Len(s) THEN 0 ELSE s[i] + F(i + 1)
             IN F(1)

(* length of the attribute VALUE on the wire.  MP_REACH carries a next hop whose length is a
   choice of the sender (4, 16, 32, with RD 12, 24, 48): the bounds below leave it open. *)
SegsLen(sg, asz) == SumSeq([i \in 1..Len(sg) |-> 2 + asz * sg[i]])
NlriTotal(a, opts) == SumSeq([i \in 1..Len(a.nl) |-> ExpNlriLen(a.fam, a.nl[i], ApOf(a.fam, opts))])
ExpVLen(a, opts) ==
  CASE a.t = "origin"      -> 1                                          \* RFC 4271 5.1.1
    [] a.t = "aspath"      -> SegsLen(a.segs, IF opts.as2 THEN 2 ELSE 4) \* RFC 4271 4.3 b / RFC 6793 3
    [] a.t = "nexthop"     -> 4
    [] a.t = "med"         -> 4
    [] a.t = "localpref"   -> 4
    [] a.t = "atomic"      -> 0
    [] a.t = "aggregator"  -> IF opts.as2 THEN 6 ELSE 8                  \* RFC 6793 3
    [] a.t = "communities" -> 4 * a.n                                    \* RFC 1997
    [] a.t = "originator"  -> 4
    [] a.t = "clusterlist" -> 4 * a.n                                    \* RFC 4456 8
    [] a.t = "extcomm"     -> 8 * a.n                                    \* RFC 4360 2
    [] a.t = "as4path"     -> SegsLen(a.segs, 4)
    [] a.t = "as4aggr"     -> 8
    [] a.t = "ip6extcomm"  -> 20 * a.n                                   \* RFC 5701 2
    [] a.t = "aigp"        -> 11                                         \* RFC 7311 3: one AIGP TLV
    [] a.t = "large"       -> 12 * a.n                                   \* RFC 8092 3
    [] a.t = "unknown"     -> a.n
    [] a.t = "mpunreach"   -> 3 + NlriTotal(a, opts)                     \* RFC 4760 4
    [] a.t = "mpreach"     -> 5 + NlriTotal(a, opts)                     \* RFC 4760 3, WITHOUT next hop
(* expected length of the MP_REACH next-hop field: (RD +) address, once per address - see NhLens in Framing *)
NhAddrLen(f, nh) == IF FamAfi(f) = 1 /\ nh = 0 THEN 4 ELSE 16
NhCount(nh)      == IF nh = 2 THEN 2 ELSE 1
ExpNhLens(f, nh) ==
  LET plain == NhCount(nh) * NhAddrLen(f, nh)
      vpn   == NhCount(nh) * (8 + NhAddrLen(f, nh))
  IN CASE FamSafi(f) = 128 -> {vpn} [] FamSafi(f) = 129 -> {plain, vpn} [] OTHER -> {plain}
MinNh == 4
MaxNh == 48
AttrLenLo(a, opts) == LET v == ExpVLen(a, opts) + (IF a.t = "mpreach" THEN MinNh ELSE 0)
                      IN v + (IF v > 255 \/ a.x = 1 THEN 4 ELSE 3)
AttrLenHi(a, opts) == LET v == ExpVLen(a, opts) + (IF a.t = "mpreach" THEN MaxNh ELSE 0)
                      IN v + (IF v > 255 \/ a.x = 1 THEN 4 ELSE 3)

(* capability codes and value lengths (RFC 5492 4 and the capability RFCs) *)
CapCode(c) ==
  CASE c = "mp" -> 1 [] c = "rr" -> 2 [] c = "label" -> 4 [] c = "extnh" -> 5 [] c = "extmsg" -> 6
    [] c = "gr" -> 64 [] c = "as4" -> 65 [] c = "addpath" -> 69 [] c = "err" -> 70 [] c = "llgr" -> 71
    [] c = "fqdn" -> 73 [] c = "softver" -> 75 [] c = "rrcisco" -> 128 [] c = "unknown" -> 200
CapVLen(x) ==
  CASE x.c = "mp" -> 4 [] x.c \in {"rr", "label", "extmsg", "err", "rrcisco"} -> 0
    [] x.c = "as4" -> 4 [] x.c = "extnh" -> 6 * x.n [] x.c = "gr" -> 2 + 4 * x.n
    [] x.c = "llgr" -> 7 * x.n [] x.c = "addpath" -> 4 * x.n
    [] x.c \in {"fqdn", "softver", "unknown"} -> x.n
ParamVLen(p) == SumSeq([i \in 1..Len(p) |-> 2 + CapVLen(p[i])])

MsgType(s) == CASE s.k = "open" -> 1 [] s.k = "update" -> 2 [] s.k = "notification" -> 3
                [] s.k = "keepalive" -> 4 [] s.k = "refresh" -> 5 [] OTHER -> 0

BodyLo(s, opts) ==
  CASE s.k = "update" ->
         2 + SumSeq([i \in 1..Len(s.wd) |-> ExpNlriLen("ipv4-unicast", s.wd[i], opts.ap4)])
         + 2 + SumSeq([i \in 1..Len(s.attrs) |-> AttrLenLo(s.attrs[i], opts)])
         + SumSeq([i \in 1..Len(s.nlri) |-> ExpNlriLen("ipv4-unicast", s.nlri[i], opts.ap4)])
    [] s.k = "open" -> 10 + SumSeq([i \in 1..Len(s.params) |-> 2 + ParamVLen(s.params[i])])
    [] s.k = "notification" -> 2 + s.n
    [] s.k = "refresh" -> 4
    [] OTHER -> 0
BodyHi(s, opts) ==
  IF s.k = "update"
  THEN BodyLo(s, opts) + SumSeq([i \in 1..Len(s.attrs) |->
                                   AttrLenHi(s.attrs[i], opts) - AttrLenLo(s.attrs[i], opts)])
  ELSE BodyLo(s, opts)

(* Is there an encoding at all?  RFC 4271 4.1 / RFC 8654: total <= cap; RFC 4271 4.3: attribute
   length <= 65535, segment count <= 255; RFC 4271 4.2 / RFC 5492: parameter, capability and
   total optional-parameter lengths are single octets. *)
EncodableLo(s, opts) ==    \* surely encodable
  /\ HDR + BodyHi(s, opts) <= MaxMsgLen(MsgType(s), opts.ext)
  /\ s.k = "update" => \A i \in 1..Len(s.attrs) :
        /\ AttrLenHi(s.attrs[i], opts) <= 65535 + 4
        /\ \A j \in 1..Len(s.attrs[i].segs) : s.attrs[i].segs[j] <= 255
  /\ s.k = "open" =>
        /\ SumSeq([i \in 1..Len(s.params) |-> 2 + ParamVLen(s.params[i])]) <= 255
        /\ \A i \in 1..Len(s.params) :
             /\ ParamVLen(s.params[i]) <= 255
             /\ \A j \in 1..Len(s.params[i]) : CapVLen(s.params[i][j]) <= 255
EncodableHi(s, opts) ==    \* possibly encodable
  /\ HDR + BodyLo(s, opts) <= MaxMsgLen(MsgType(s), opts.ext)
  /\ s.k = "update" => \A i \in 1..Len(s.attrs) :
        /\ AttrLenLo(s.attrs[i], opts) <= 65535 + 4
        /\ \A j \in 1..Len(s.attrs[i].segs) : s.attrs[i].segs[j] <= 255
  /\ s.k = "open" =>
        /\ SumSeq([i \in 1..Len(s.params) |-> 2 + ParamVLen(s.params[i])]) <= 255
        /\ \A i \in 1..Len(s.params) :
             /\ ParamVLen(s.params[i]) <= 255
             /\ \A j \in 1..Len(s.params[i]) : CapVLen(s.params[i][j]) <= 255

----------------------------------------------------------------------------
(* The shape as it must be READABLE from the wire (property layer), and the shape the reader
   actually finds in a byte string. *)
ExpAttr(a, opts) ==
  [t    |-> AttrCode(a.t),
   vl   |-> IF a.t = "mpreach" THEN -1 ELSE ExpVLen(a, opts),
   segs |-> IF a.t \in PathKinds THEN a.segs ELSE <<>>,
   afi  |-> IF a.t \in MpKinds THEN FamAfi(a.fam) ELSE 0,
   safi |-> IF a.t \in MpKinds THEN FamSafi(a.fam) ELSE 0,
   nl   |-> IF a.t \in MpKinds
            THEN [i \in 1..Len(a.nl) |-> ExpNlriLen(a.fam, a.nl[i], ApOf(a.fam, opts))] ELSE <<>>]

ExpWire(s, opts) ==
  CASE s.k = "update" ->
         [type  |-> 2,
          wd    |-> [i \in 1..Len(s.wd) |-> ExpNlriLen("ipv4-unicast", s.wd[i], opts.ap4)],
          attrs |-> [i \in 1..Len(s.attrs) |-> ExpAttr(s.attrs[i], opts)],
          nlri  |-> [i \in 1..Len(s.nlri) |-> ExpNlriLen("ipv4-unicast", s.nlri[i], opts.ap4)]]
    [] s.k = "open" ->
         [type   |-> 1,
          params |-> [i \in 1..Len(s.params) |->
                        [j \in 1..Len(s.params[i]) |->
                           [c |-> CapCode(s.params[i][j].c), vl |-> CapVLen(s.params[i][j])]]]]
    [] s.k = "notification" -> [type |-> 3, n |-> s.n]
    [] s.k = "refresh"      -> [type |-> 5, n |-> 4]
    [] s.k = "keepalive"    -> [type |-> 4, n |-> 0]

Lens(w) == [i \in 1..Len(w.els) |-> w.els[i].n]

ReadAttr(b, e, x) ==
  [t    |-> AttrType(b, e),
   vl   |-> IF AttrType(b, e) = 14 THEN -1 ELSE AttrVLen(b, e),
   segs |-> IF x.k = "segs" THEN [j \in 1..Len(x.w.els) |-> B(b, x.w.els[j].o + 1)] ELSE <<>>,
   afi  |-> x.afi, safi |-> x.safi,
   nl   |-> IF x.k \in {"mp", "mpun"} THEN Lens(x.w) ELSE <<>>]

(* defined when r.hdr.ok and r.body.ok *)
ReadWire(b, r) ==
  CASE r.hdr.type = 2 ->
         [type  |-> 2, wd |-> Lens(r.body.wd),
          attrs |-> [i \in 1..Len(r.body.attrs.els) |-> ReadAttr(b, r.body.attrs.els[i], r.body.inner[i])],
          nlri  |-> Lens(r.body.nlri)]
    [] r.hdr.type = 1 ->
         [type   |-> 1,
          params |-> [i \in 1..Len(r.body.params.els) |->
                        [j \in 1..Len(r.body.caps[i].els) |->
                           [c |-> B(b, r.body.caps[i].els[j].o), vl |-> r.body.caps[i].els[j].n - 2]]]]
    [] r.hdr.type = 3 -> [type |-> 3, n |-> r.hdr.len - HDR - 2]
    [] r.hdr.type = 5 -> [type |-> 5, n |-> r.hdr.len - HDR]
    [] OTHER          -> [type |-> r.hdr.type, n |-> r.hdr.len - HDR]

----------------------------------------------------------------------------
(* WRITER MODEL (mechanism layer).  Values are filler octets; only the framing matters. *)
U16B(v) == <<v \div 256, v % 256>>

EncNlri(f, e, ap, idx) ==
  (IF ap THEN <<0, 0, 0, idx % 256>> ELSE <<>>) \o <<NlriBits(f, e)>> \o Rep(Ceil8(NlriBits(f, e)), 170)
EncNlris(f, nl, ap) == SeqOfSeqs([i \in 1..Len(nl) |-> EncNlri(f, nl[i], ap, i)])
EncSegs(sg, asz)    == SeqOfSeqs([i \in 1..Len(sg) |-> <<2, sg[i]>> \o Rep(asz * sg[i], 1)])

ModelNh(f, nh) == NhCount(nh) * (NhAddrLen(f, nh) + (IF FamSafi(f) = 128 THEN 8 ELSE 0))

EncValue(a, opts) ==
  CASE a.t = "aspath"    -> EncSegs(a.segs, IF opts.as2 THEN 2 ELSE 4)
    [] a.t = "as4path"   -> EncSegs(a.segs, 4)
    [] a.t = "aigp"      -> <<1, 0, 11>> \o Rep(8, 0)
    [] a.t = "mpreach"   -> U16B(FamAfi(a.fam)) \o <<FamSafi(a.fam), ModelNh(a.fam, a.n)>>
                            \o Rep(ModelNh(a.fam, a.n), 10) \o <<0>> \o EncNlris(a.fam, a.nl, ApOf(a.fam, opts))
    [] a.t = "mpunreach" -> U16B(FamAfi(a.fam)) \o <<FamSafi(a.fam)>> \o EncNlris(a.fam, a.nl, ApOf(a.fam, opts))
    [] OTHER             -> Rep(ExpVLen(a, opts), 7)

(* the library picks the extended-length bit at serialisation time from the value length *)
EncAttr(a, opts) ==
  LET v   == EncValue(a, opts)
      ext == Len(v) > 255 \/ a.x = 1       \* ... and keeps an Extended Length bit that is already set
  IN <<AttrFlags(a.t) + (IF ext THEN 16 ELSE 0), AttrCode(a.t)>>
     \o (IF ext THEN U16B(Len(v)) ELSE <<Len(v)>>) \o v

(* FQDN and software version are written with consistent inner lengths (as the harness builds them:
   host = (n-2) div 2 octets, domain the rest; version = n-1 octets) *)
EncCapValue(x) ==
  CASE x.c = "fqdn" /\ x.n >= 2 ->
         LET h == (x.n - 2) \div 2 IN <<h>> \o Rep(h, 104) \o <<x.n - 2 - h>> \o Rep(x.n - 2 - h, 100)
    [] x.c = "softver" /\ x.n >= 1 -> <<x.n - 1>> \o Rep(x.n - 1, 118)
    [] OTHER -> Rep(CapVLen(x), 3)
EncCap(x)   == <<CapCode(x.c), CapVLen(x)>> \o EncCapValue(x)
EncParam(p) == LET v == SeqOfSeqs([j \in 1..Len(p) |-> EncCap(p[j])]) IN <<2, Len(v)>> \o v

EncBody(s, opts) ==
  CASE s.k = "update" ->
         LET wd == EncNlris("ipv4-unicast", s.wd, opts.ap4)
             at == SeqOfSeqs([i \in 1..Len(s.attrs) |-> EncAttr(s.attrs[i], opts)])
         IN U16B(Len(wd)) \o wd \o U16B(Len(at)) \o at \o EncNlris("ipv4-unicast", s.nlri, opts.ap4)
    [] s.k = "open" ->
         LET ps == SeqOfSeqs([i \in 1..Len(s.params) |-> EncParam(s.params[i])])
         IN <<4, 91, 160, 0, 90, 192, 0, 2, 1, Len(ps)>> \o ps
    [] s.k = "notification" -> <<6, 2>> \o Rep(s.n, 0)
    [] s.k = "refresh"      -> <<0, 2, 0, 1>>
    [] OTHER                -> <<>>

Encode(s, opts) ==
  LET body == EncBody(s, opts) IN Rep(16, 255) \o U16B(HDR + Len(body)) \o <<MsgType(s)>> \o body
=============================================================================
