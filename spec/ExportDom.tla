---------------------------- MODULE ExportDom ----------------------------
(* Concrete vocabulary of C09 shared by the enumerator (MCExport), the trace spec and the Go
   harness (harness/c09): local speakers, peers, AS_PATH shapes, attribute variants.
   Addresses and router-ids are carried as strings, AS numbers as integers (4-octet private
   numbers offset-encoded, see Export.tla). *)
EXTENDS Integers, Sequences

L4  == "10.0.0.100"            \* local address of IPv4 sessions
L6  == "2001:db8:ffff::100"    \* local address of IPv6 sessions
RID == "10.255.0.100"

LPlain  == [name |-> "plain",  as |-> 100,   confed |-> FALSE, cid |-> 0,   members |-> <<>>,
            rid |-> RID, cluster |-> RID]                         \* cluster-id defaults to the router-id
LPlainX == [name |-> "plainx", as |-> 100,   confed |-> FALSE, cid |-> 0,   members |-> <<>>,
            rid |-> RID, cluster |-> "10.9.9.9"]                  \* explicitly configured cluster-id
LConfed == [name |-> "confed", as |-> 65000, confed |-> TRUE,  cid |-> 100, members |-> <<65010, 65011>>,
            rid |-> RID, cluster |-> RID]                         \* member-AS 65000 of confederation 100

P(id, kind, as, rid, addr, laddr, l6) ==
  [id |-> id, kind |-> kind, as |-> as, rid |-> rid, addr |-> addr, laddr |-> laddr, l6 |-> l6,
   rpa |-> "none", rpeer |-> FALSE, allow |-> 0, localas |-> 0]

LocalSrc == P("L", "local", 0, "0.0.0.0", "0.0.0.0", L4, FALSE)

Peer(id, loc) ==
  CASE id = "L"  -> LocalSrc
    [] id = "E1" -> P("E1", "ebgp", 200,   "10.255.0.1",  "10.0.0.1",  L4, FALSE)
    [] id = "E2" -> P("E2", "ebgp", 300,   "10.255.0.2",  "10.0.0.2",  L4, FALSE)
    [] id = "E3" -> P("E3", "ebgp", 200,   "10.255.0.3",  "10.0.0.3",  L4, FALSE)     \* another router of AS 200
    [] id = "E6" -> P("E6", "ebgp", 200,   "10.255.0.6",  "2001:db8:ffff::6", L6, TRUE)
    [] id = "EP" -> P("EP", "ebgp", 64600, "10.255.0.7",  "10.0.0.7",  L4, FALSE)     \* peer in a private AS
    [] id = "I1" -> P("I1", "ibgp", loc.as, "10.255.0.11", "10.0.0.11", L4, FALSE)
    [] id = "I2" -> P("I2", "ibgp", loc.as, "10.255.0.12", "10.0.0.12", L4, FALSE)
    [] id = "I6" -> P("I6", "ibgp", loc.as, "10.255.0.16", "2001:db8:ffff::16", L6, TRUE)
    [] id = "R1" -> P("R1", "rrclient", loc.as, "10.255.0.21", "10.0.0.21", L4, FALSE)
    [] id = "R2" -> P("R2", "rrclient", loc.as, "10.255.0.22", "10.0.0.22", L4, FALSE)
    [] id = "C1" -> P("C1", "confed", 65010, "10.255.0.31", "10.0.0.31", L4, FALSE)
    [] id = "C2" -> P("C2", "confed", 65011, "10.255.0.32", "10.0.0.32", L4, FALSE)
    [] id = "S1" -> P("S1", "rsclient", 400, "10.255.0.41", "10.0.0.41", L4, FALSE)
    [] id = "S2" -> P("S2", "rsclient", 500, "10.255.0.42", "10.0.0.42", L4, FALSE)

Opt(p, rpa, rpeer, localas) == [p EXCEPT !.rpa = rpa, !.rpeer = rpeer, !.localas = localas]
Allow(p, n) == [p EXCEPT !.allow = n]

Sg(t, as) == [t |-> t, as |-> as]

(* next-hop forms: 1 classic IPv4; 2 IPv6 in MP_REACH; 3 IPv4 prefix with IPv6 next hop in MP_REACH
   (RFC 8950); 4, 5 unspecified next hop of a route originated here; 6 IPv6 with a 32-octet next hop
   (global + link-local address of the sending neighbour, RFC 2545 3), received routes only *)
NhForm(k) ==
  CASE k = 1 -> [fam |-> "v4", nha |-> "192.0.2.1", nhm |-> "none", nhl |-> "none"]
    [] k = 2 -> [fam |-> "v6", nha |-> "none",      nhm |-> "2001:db8::1", nhl |-> "none"]
    [] k = 3 -> [fam |-> "v4", nha |-> "none",      nhm |-> "2001:db8::1", nhl |-> "none"]
    [] k = 4 -> [fam |-> "v4", nha |-> "0.0.0.0",   nhm |-> "none", nhl |-> "none"]
    [] k = 5 -> [fam |-> "v6", nha |-> "none",      nhm |-> "::", nhl |-> "none"]
    [] k = 6 -> [fam |-> "v6", nha |-> "none",      nhm |-> "2001:db8::1", nhl |-> "fe80::1"]

Route(src, nh, asattr, aspath, origin, lp, med, origid, clist, unk, comm) ==
  [src |-> src, fam |-> nh.fam, nha |-> nh.nha, nhm |-> nh.nhm, nhl |-> nh.nhl, asattr |-> asattr, aspath |-> aspath,
   origin |-> origin, lp |-> lp, med |-> med, origid |-> origid, clist |-> clist, unk |-> unk,
   comm |-> comm]

(* AS_PATH shapes for the rewriting pool; f = first AS, x = the target peer's AS, y = a configured
   local-as.  4-octet private range: 1900000000..1994967294 (offset-encoded). *)
PlainShapes(f, x, y) == {
  <<>>,
  <<Sg("SEQ", <<f>>)>>,
  <<Sg("SEQ", <<f, 400>>)>>,
  <<Sg("SEQ", <<f>>), Sg("SET", <<7, 8>>)>>,
  <<Sg("SET", <<f, 8>>)>>,                                   \* leading AS_SET
  <<Sg("SET", <<8, f>>), Sg("SEQ", <<400>>)>>,
  <<Sg("SEQ", <<64512, f, 400>>)>>,                          \* private AS in front
  <<Sg("SEQ", <<f, 65534, 400>>)>>,                          \* in the middle
  <<Sg("SEQ", <<f, 400, 1900000000>>)>>,                     \* at the end (4-octet range)
  <<Sg("SEQ", <<64512, 1994967294>>)>>,                      \* only private
  <<Sg("SEQ", <<f, 64511, 65535, 1899999999, 1994967295>>)>>,\* just outside both ranges
  <<Sg("SEQ", <<f>>), Sg("SET", <<64512, 9>>)>>,
  <<Sg("SEQ", <<f>>), Sg("SET", <<64512>>)>>,                \* set that becomes empty
  <<Sg("SET", <<64512>>), Sg("SEQ", <<f>>)>>,
  <<Sg("SEQ", <<f, x>>)>>,                                   \* the peer's AS already in the path
  <<Sg("SEQ", <<x, f, x>>)>>,
  <<Sg("SEQ", <<f>>), Sg("SET", <<x, 9>>)>>,
  <<Sg("SEQ", <<f, y>>)>> }

ConfedShapes(f) == {
  <<Sg("CSEQ", <<65011>>)>>,
  <<Sg("CSEQ", <<65011>>), Sg("SEQ", <<f, 400>>)>>,
  <<Sg("CSEQ", <<65011>>), Sg("CSET", <<65012, 65013>>), Sg("SEQ", <<f>>)>>,
  <<Sg("CSEQ", <<65011, 64512>>), Sg("SEQ", <<64513, f>>)>>,
  <<Sg("CSEQ", <<65011>>), Sg("SET", <<f, 8>>)>>,
  <<Sg("CSEQ", <<65011, 65010>>)>> }                         \* the member-AS of C1 inside a confed segment

(* a first segment that is full: prepending must open a new segment (RFC 4271 5.1.2) *)
LongSeq(f) == <<Sg("SEQ", [i \in 1..255 |-> IF i = 1 THEN f ELSE 400 + i])>>
=============================================================================
