---------------------------- MODULE PolicySeeds ----------------------------
(* Directed schedules, one per recorded finding of C10 (findings_proposed/C10-*.md): the shortest
   input that shows it.  They are executed in every run so that each recorded finding is
   re-observed (KNOWN-FINDING line) - or found repaired - independently of what the random
   generator happens to reach.  One initial state per seed; EmitSeed prints its schedule. *)
EXTENDS Policy, Json

VARIABLES seed
svars == <<seed>>

SC(k, s, o) == Cond(k, s, o, "", 0, {})
Rt(pfx, src, nh, ap, cm, ex, lg, rpki) == Route(pfx, src, nh, ap, 0, -1, -1, cm, ex, lg, rpki, TRUE)
AddSet(kind, name, ms) == [op |-> "AddSet", kind |-> kind, name |-> name, members |-> ms, replace |-> FALSE]
Pol1(ss) == [op |-> "AddPol", name |-> "p1", refer |-> FALSE, stmts |-> ss]
Asg(dir, def) == [op |-> "SetAsg", dir |-> dir, pols |-> <<"p1">>, def |-> def]
Ev(r, d1, p1, d2, p2) == [op |-> "Eval", route |-> r, d1 |-> d1, p1 |-> p1, d2 |-> d2, p2 |-> p2]
Px == P4("10.1.1.0/24", 10, 1, 1, 0, 24)

Seeds == <<
  \* FX-C10- (repaired; regression seed) ext-remove-nontransitive
  [name |-> "ext-remove-nontransitive", steps |-> <<
     Pol1(<<Stmt("st1", {}, {Act("ext", "remove", 0, 0, {"rt:65001:100"}, "")}, "accept")>>),
     Asg("import", "accept"), Asg("export", "accept"),
     Ev(Rt(Px, "C", "192.0.2.1", <<65002>>, <<>>, <<ExtLB, "rt:65002:200">>, <<>>, "valid"), "import", "C", "export", "A")>>],
  \* FX-C10-extset-remove-subtype (repaired in /repo by 8b8068e: kept as a regression seed, strict)
  [name |-> "extset-remove-subtype", steps |-> <<
     AddSet("ext", "es1", {"rt:65001:100", "soo:65001:100"}),
     [op |-> "DelSet", kind |-> "ext", name |-> "es1", members |-> {"soo:65001:100"}, all |-> FALSE],
     Pol1(<<Stmt("st1", {SC("ext", "es1", "any")}, {}, "reject")>>),
     Asg("import", "accept"), Asg("export", "accept"),
     Ev(Rt(Px, "A", "192.0.2.1", <<65001>>, <<>>, <<"rt:65001:100">>, <<>>, "valid"), "import", "A", "export", "B")>>],
  \* FX-C10- (repaired; regression seed) delstmt-multi
  [name |-> "delstmt-multi", steps |-> <<
     [op |-> "AddStmt", stmt |-> Stmt("st1", {Cond("aslen", "", "", "ge", 1, {}), Cond("origin", "", "", "", 0, {}),
                                              Cond("rpki", "", "valid", "", 0, {})}, {}, "accept")],
     [op |-> "DelStmt", all |-> FALSE,
      stmt |-> Stmt("st1", {Cond("aslen", "", "", "ge", 1, {}), Cond("origin", "", "", "", 0, {})}, {}, "none")]>>],
  \* FX-C10- (repaired; regression seed) delasg-default
  [name |-> "delasg-default", steps |-> <<
     Pol1(<<Stmt("st1", {Cond("rpki", "", "invalid", "", 0, {})}, {}, "reject")>>),
     Asg("import", "accept"), Asg("export", "accept"),
     [op |-> "DelAsg", dir |-> "import", all |-> TRUE, pols |-> <<>>],
     Ev(Rt(Px, "A", "192.0.2.1", <<65001>>, <<>>, <<>>, <<>>, "valid"), "import", "A", "export", "B")>>],
  \* FX-C10- (repaired; regression seed) set-replace-stale
  [name |-> "set-replace-stale", steps |-> <<
     AddSet("comm", "cs1", {"65001:100"}),
     Pol1(<<Stmt("st1", {SC("comm", "cs1", "any")}, {}, "reject")>>),
     Asg("import", "accept"), Asg("export", "accept"),
     [op |-> "AddSet", kind |-> "comm", name |-> "cs1", members |-> {"65002:100"}, replace |-> TRUE],
     Ev(Rt(Px, "A", "192.0.2.1", <<65001>>, <<"65001:100">>, <<>>, <<>>, "valid"), "import", "A", "export", "B")>>],
  \* FX-C10- (repaired; regression seed) large-add-aliasing
  [name |-> "large-add-aliasing", steps |-> <<
     AddSet("neighbor", "ns1", {"10.0.0.1/32"}), AddSet("neighbor", "ns2", {"10.0.1.1/32"}),
     Pol1(<<Stmt("st1", {SC("neighbor", "ns1", "any")}, {Act("large", "add", 0, 0, {"65001:1:2"}, "")}, "accept"),
            Stmt("st2", {SC("neighbor", "ns2", "any")}, {Act("large", "add", 0, 0, {"65002:2:2"}, "")}, "accept")>>),
     Asg("export", "accept"),
     Ev(Rt(Px, "local", "192.0.2.1", <<>>, <<>>, <<>>, <<"65001:1:1">>, "valid"), "export", "A", "export", "C")>>],
  \* FX-C10- (repaired; regression seed) delpol-assigned
  [name |-> "delpol-assigned", steps |-> <<
     Pol1(<<Stmt("st1", {Cond("rpki", "", "valid", "", 0, {})}, {}, "reject")>>),
     Asg("import", "accept"),
     [op |-> "DelPol", name |-> "p1", all |-> TRUE, preserve |-> FALSE, stmts |-> <<>>],
     Ev(Rt(Px, "A", "192.0.2.1", <<65001>>, <<>>, <<>>, <<>>, "valid"), "import", "A", "export", "B")>>],
  \* FX-C10- (repaired; regression seed) api-origin-cond (read-back through the API)
  [name |-> "api-readback-origin", steps |-> <<
     [op |-> "AddStmt", stmt |-> Stmt("st1", {Cond("origin", "", "", "", 1, {})}, {Act("origin", "", 2, 0, {}, "")}, "accept")],
     [op |-> "AddStmt", stmt |-> Stmt("st2", {Cond("origin", "", "", "", 0, {})}, {}, "none")],
     [op |-> "AddPol", name |-> "p1", refer |-> TRUE, stmts |-> <<BareStmt("st1"), BareStmt("st2")>>],
     [op |-> "SetAsg", dir |-> "import", pols |-> <<"p1">>, def |-> "accept"]>>],
  \* FX-C10- (repaired; regression seed) api-commaction-type (read-back through the API)
  [name |-> "api-readback-commact", steps |-> <<
     [op |-> "AddStmt", stmt |-> Stmt("st2", {}, {Act("ext", "remove", 0, 0, {"rt:65001:100"}, ""),
                                                   Act("large", "add", 0, 0, {"65001:1:1"}, "")}, "none")],
     [op |-> "AddPol", name |-> "p1", refer |-> TRUE, stmts |-> <<BareStmt("st2")>>],
     [op |-> "SetAsg", dir |-> "import", pols |-> <<"p1">>, def |-> "accept"]>>] >>

SeedInit == seed \in 1..Len(Seeds)
SeedNext == UNCHANGED seed
SeedSpec == SeedInit /\ [][SeedNext]_svars

EmitSeed ==
  PrintT("VPOUT " \o ToJson([peers |-> PeerTable, nbr |-> NbrCovers, rbevery |-> TRUE,
                             kind |-> "seed:" \o Seeds[seed].name, steps |-> Seeds[seed].steps]))
=============================================================================
