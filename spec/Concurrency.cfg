SPECIFICATION Spec
CONSTANTS
  Nbrs = {"A", "B"}
  Buckets = {"b1"}
INVARIANTS
  C20_NoLockDeadlock
  C20_MutualExclusion
  C20_MgmtExcludesCallbacks
  C20_LockOrder
CHECK_DEADLOCK FALSE
