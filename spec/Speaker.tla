---------------------------- MODULE Speaker ----------------------------
(* The speaker as a whole: what every neighbour must have been told (C01), what the RIBs must
   hold (C02), after any history of announcements, withdrawals, session flaps, API routes.

   PROPERTY LAYER (this module): a function of the input history only.
     inr[p][x]  last un-withdrawn route p announced for prefix x on its current session
     loc[x]     locally injected (API) route for x
     up[p]      p has an established session
   From these: AdjInExpected, LocRibExpected, BestOf, ExportView(p).  The rules transcribe the
   property texts C01/C02/C09 (RFC 4271 9.1/9.2, RFC 4456, RFC 7947), not the code.

   The MECHANISM layer (per-peer queues, coalescing sender, deliveries, stalls, the
   dump/publish split of session establishment) lives in SpeakerMech.tla, which refines this. *)
EXTENDS Integers, Sequences, FiniteSets, TLC

CONSTANTS
  Peers,        \* set of neighbour names
  PInfo,        \* [Peers -> [kind: {"ebgp","ibgp","rrc","rs"}, as: Nat, idx: Nat]]
  Prefixes,     \* set of prefix names
  LocalAS

NoRoute == [src |-> "none"]
LOCSRC   == "local"

(* A route is [src, v, len, lp, med, loop, via]:
     src   announcing neighbour or LOCSRC         v    variant number (tag carried as a community)
     len   number of ASNs in the AS_PATH          lp   LOCAL_PREF as received (-1 absent)
     med   MED as received (-1 absent)            loop the AS_PATH contains the speaker's own AS
     via   AS of another neighbour contained in the AS_PATH (0 none)
     pp    number of ASNs prepended by policy           cm   community tags added by policy (bit mask)  *)

Kind(p)  == PInfo[p].kind
IsIBGPKind(k) == k \in {"ibgp", "rrc"}

VARIABLES up, inr, loc,
          impPol,   \* import policy currently configured (global table)
          expPol,   \* export policy currently configured
          inrPol,   \* inrPol[p][x]: import policy under which inr[p][x] was last evaluated
          expEff    \* expEff[p]: export policy in force at p's last full (re-)advertisement
polvars == <<impPol, expPol, inrPol, expEff>>
pvars == <<up, inr, loc, impPol, expPol, inrPol, expEff>>

(* the closed policy family of C15 (all conditions are on prefix "x1"):
   acc = accept everything, rejx1 = reject x1, medx1 = set MED 77 on x1, ppx1 = prepend 65099 twice,
   rejA = reject the routes for x1 whose AS_PATH contains AS 65001 (discriminates between the paths
   of one prefix, which matters for ADD-PATH neighbours),
   cm1x1 / cm2x1 = ADD community tag 1 / tag 2 to the routes for x1 (an attribute that GROWS: every
   evaluation starts from the route as received, so after a change from cm1x1 to cm2x1 and a soft
   reset the route carries tag 2 only).  cm is the set of tags as a bit mask 0..3. *)
Pols == {"acc", "rejx1", "medx1", "ppx1", "rejA", "cm1x1", "cm2x1"}
CmAdd(c, t) == IF t = 1 THEN (IF c \in {1, 3} THEN c ELSE c + 1) ELSE (IF c \in {2, 3} THEN c ELSE c + 2)

PInit == /\ up  = [p \in Peers |-> FALSE]
         /\ inr = [p \in Peers |-> [x \in Prefixes |-> NoRoute]]
         /\ loc = [x \in Prefixes |-> NoRoute]
         /\ impPol = "acc" /\ expPol = "acc"
         /\ inrPol = [p \in Peers |-> [x \in Prefixes |-> "acc"]]
         /\ expEff = [p \in Peers |-> "acc"]

---------------------------------------------------------------------------
(* inputs *)
PUp(p)        == ~up[p] /\ up' = [up EXCEPT ![p] = TRUE] /\ expEff' = [expEff EXCEPT ![p] = expPol]
                 /\ UNCHANGED <<inr, loc, impPol, expPol, inrPol>>
PDown(p)      == up[p] /\ up' = [up EXCEPT ![p] = FALSE]
                 /\ inr' = [inr EXCEPT ![p] = [x \in Prefixes |-> NoRoute]] /\ UNCHANGED <<loc, polvars>>
PAnn(p, x, r) == up[p] /\ inr' = [inr EXCEPT ![p][x] = r] /\ inrPol' = [inrPol EXCEPT ![p][x] = impPol]
                 /\ UNCHANGED <<up, loc, impPol, expPol, expEff>>
PWd(p, x)     == up[p] /\ inr' = [inr EXCEPT ![p][x] = NoRoute] /\ UNCHANGED <<up, loc, polvars>>
PApiAdd(x, r) == loc' = [loc EXCEPT ![x] = r] /\ UNCHANGED <<up, inr, polvars>>
PApiDel(x)    == loc' = [loc EXCEPT ![x] = NoRoute] /\ UNCHANGED <<up, inr, polvars>>

(* policy changes and the matching soft resets (C15).  T = set of targeted neighbours. *)
PSetImp(pol)   == impPol' = pol /\ UNCHANGED <<up, inr, loc, expPol, inrPol, expEff>>
(* once the export policy has changed, what a neighbour holds is a mixture (later updates are
   evaluated under the new policy) until its next full re-advertisement - also when the policy
   is changed back: expEff becomes "stale", which equals no policy name *)
PSetExp(pol)   == /\ expPol' = pol
                  /\ expEff' = [p \in Peers |-> IF pol = expPol THEN expEff[p] ELSE "stale"]
                  /\ UNCHANGED <<up, inr, loc, impPol, inrPol>>
PResetIn(T)    == /\ inrPol' = [p \in Peers |-> IF p \in T /\ up[p] THEN [x \in Prefixes |-> impPol] ELSE inrPol[p]]
                  /\ UNCHANGED <<up, inr, loc, impPol, expPol, expEff>>
PResetOut(T)   == /\ expEff' = [p \in Peers |-> IF p \in T /\ up[p] THEN expPol ELSE expEff[p]]
                  /\ UNCHANGED <<up, inr, loc, impPol, expPol, inrPol>>
PResetBoth(T)  == /\ inrPol' = [p \in Peers |-> IF p \in T /\ up[p] THEN [x \in Prefixes |-> impPol] ELSE inrPol[p]]
                  /\ expEff' = [p \in Peers |-> IF p \in T /\ up[p] THEN expPol ELSE expEff[p]]
                  /\ UNCHANGED <<up, inr, loc, impPol, expPol>>

(* everything stored / advertised has been evaluated under the policy configured NOW *)
CleanIn     == \A p \in Peers : \A x \in Prefixes : inr[p][x] # NoRoute => inrPol[p][x] = impPol
CleanOut(p) == expEff[p] = expPol

---------------------------------------------------------------------------
(* what the RIBs must hold *)

AdjInExpected(p, x) == inr[p][x]                    \* incl. routes rejected by the loop check

(* usable: passed the inbound loop check (own AS in the AS_PATH => not used) *)
Usable(r) == r # NoRoute /\ ~r.loop

(* LOCAL_PREF is only meaningful from internal neighbours; default 100 *)
EffLp(r) == IF r.src # LOCSRC /\ IsIBGPKind(Kind(r.src)) /\ r.lp # -1 THEN r.lp ELSE 100

AsLen(r) == r.len + r.pp

(* concrete AS_PATH of a route as a sequence of ASNs (fillers are distinct private-use numbers
   that never collide with a neighbour's AS) *)
FirstAS(r) == IF r.src = LOCSRC THEN 0
              ELSE IF Kind(r.src) \in {"ebgp", "rs"} THEN PInfo[r.src].as ELSE 64700 + PInfo[r.src].idx
Filler(r)  == [i \in 1..(r.len - 1 - (IF r.via # 0 THEN 1 ELSE 0) - (IF r.loop THEN 1 ELSE 0))
                 |-> 64800 + 10 * PInfo[r.src].idx + i]
Prep(n)    == [i \in 1..n |-> 65099]
AsPath(r)  == Prep(r.pp) \o
              (IF r.src = LOCSRC THEN <<>>
               ELSE <<FirstAS(r)>> \o Filler(r) \o (IF r.via # 0 THEN <<r.via>> ELSE <<>>)
                    \o (IF r.loop THEN <<LocalAS>> ELSE <<>>))
InPath(as, r) == \E i \in 1..Len(AsPath(r)) : AsPath(r)[i] = as

(* import policy applied to a received route (evaluated when it arrived / at the last soft reset in) *)
ImpApply(pol, x, r) ==
  IF x # "x1" \/ pol = "acc" THEN r
  ELSE CASE pol = "rejx1" -> NoRoute
         [] pol = "medx1" -> [r EXCEPT !.med = 77]
         [] pol = "ppx1"  -> [r EXCEPT !.pp = 2]
         [] pol = "rejA"  -> IF r # NoRoute /\ InPath(65001, r) THEN NoRoute ELSE r
         [] pol = "cm1x1" -> IF r = NoRoute THEN r ELSE [r EXCEPT !.cm = CmAdd(@, 1)]
         [] pol = "cm2x1" -> IF r = NoRoute THEN r ELSE [r EXCEPT !.cm = CmAdd(@, 2)]

Imported(p, x) == ImpApply(inrPol[p][x], x, inr[p][x])

LocRibExpected(x) == {Imported(p, x) : p \in {q \in Peers : Usable(inr[q][x]) /\ Imported(q, x) # NoRoute}}
                     \cup (IF loc[x] # NoRoute THEN {loc[x]} ELSE {})

(* the decision process restricted to what this model varies: LOCAL_PREF, local origin,
   AS_PATH length (lengths are unique by construction of the route domain, so no further tie) *)
Better(a, b) == \/ EffLp(a) > EffLp(b)
                \/ EffLp(a) = EffLp(b) /\ a.src = LOCSRC /\ b.src # LOCSRC
                \/ EffLp(a) = EffLp(b) /\ (a.src = LOCSRC) = (b.src = LOCSRC) /\ AsLen(a) < AsLen(b)

HasBest(S) == S # {}
BestOf(S)  == CHOOSE a \in S : \A b \in S \ {a} : Better(a, b)
Ordered(S) == \* best-first sequence of sources
  LET RECURSIVE Ord(_)
      Ord(T) == IF T = {} THEN <<>> ELSE LET b == BestOf(T) IN <<b>> \o Ord(T \ {b})
  IN Ord(S)

---------------------------------------------------------------------------
(* what a neighbour must have been told *)


(* never back to the router it came from; not to an eBGP neighbour whose AS is in the path;
   not from a non-client internal neighbour to another non-client internal neighbour *)
MayAdvertise(b, p) ==
  /\ b.src # p
  /\ (Kind(p) = "ebgp" => ~InPath(PInfo[p].as, b))
  /\ (Kind(p) = "ibgp" => (b.src = LOCSRC \/ ~IsIBGPKind(Kind(b.src)) \/ Kind(b.src) = "rrc"))
  /\ (Kind(p) = "rrc"  => TRUE)

(* attributes as sent to p.  nh: "self" or the name of the neighbour whose address it is.
   origid / clist only towards route-reflector clients. *)
Exp(b, p) ==
  CASE Kind(p) = "ebgp" ->
         [v |-> b.v, src |-> b.src, aspath |-> <<LocalAS>> \o AsPath(b), nh |-> "self",
          med |-> IF b.src = LOCSRC THEN b.med ELSE -1, lp |-> -1, origid |-> "none", clist |-> 0, cm |-> b.cm]
    [] Kind(p) = "ibgp" ->
         [v |-> b.v, src |-> b.src, aspath |-> AsPath(b), nh |-> IF b.src = LOCSRC THEN "self" ELSE b.src,
          med |-> b.med, lp |-> EffLp(b), origid |-> "none", clist |-> 0, cm |-> b.cm]
    [] Kind(p) = "rrc" ->
         [v |-> b.v, src |-> b.src, aspath |-> AsPath(b), nh |-> IF b.src = LOCSRC THEN "self" ELSE b.src,
          med |-> b.med, lp |-> EffLp(b),
          origid |-> IF b.src = LOCSRC THEN "self" ELSE b.src, clist |-> 1, cm |-> b.cm]

(* export policy applied to the exported form *)
ExpApply(pol, x, e) ==
  IF x # "x1" \/ pol = "acc" THEN e
  ELSE CASE pol = "rejx1" -> NoRoute
         [] pol = "medx1" -> [e EXCEPT !.med = 77]
         [] pol = "ppx1"  -> [e EXCEPT !.aspath = Prep(2) \o @]
         [] pol = "rejA"  -> IF \E i \in 1..Len(e.aspath) : e.aspath[i] = 65001 THEN NoRoute ELSE e
         [] pol = "cm1x1" -> [e EXCEPT !.cm = CmAdd(@, 1)]
         [] pol = "cm2x1" -> [e EXCEPT !.cm = CmAdd(@, 2)]

(* route-server clients (RFC 7947): each client is sent the best of the routes of the OTHER
   clients whose AS_PATH does not contain its own AS, unchanged (no prepend, next hop, MED and
   LOCAL_PREF as received).  Locally injected routes are not distributed to route-server clients. *)
RsCandidates(p, x) == {r \in LocRibExpected(x) : r.src # LOCSRC /\ r.src # p /\ ~InPath(PInfo[p].as, r)}
RsExp(b) == [v |-> b.v, src |-> b.src, aspath |-> AsPath(b), nh |-> b.src, med |-> b.med, lp |-> b.lp,
             origid |-> "none", clist |-> 0, cm |-> b.cm]
RsBetter(a, b) == AsLen(a) < AsLen(b)       \* LOCAL_PREF is kept as received but every RS route here has none
RsExportOf(p, x) == LET S == RsCandidates(p, x) IN
                      IF S = {} THEN NoRoute
                      ELSE RsExp(CHOOSE a \in S : \A b \in S \ {a} : RsBetter(a, b))

ExportOf(p, x) ==
  IF Kind(p) = "rs" THEN RsExportOf(p, x) ELSE
  LET S == LocRibExpected(x) IN
    IF S = {} THEN NoRoute
    ELSE LET b == BestOf(S) IN IF MayAdvertise(b, p) THEN ExpApply(expPol, x, Exp(b, p)) ELSE NoRoute

ExportView(p) == [x \in Prefixes |-> ExportOf(p, x)]

(* ADD-PATH: every eligible path (survives loop prevention and export policy) may be sent, up to
   send-max of them, each under its own path identifier.  WHICH ones fill the quota when more are
   eligible is not determined by the property: the oracle is a predicate (see SpeakerTrace). *)
SendMax(p) == PInfo[p].sendmax
EligibleSet(p, x) ==
  {ExpApply(expPol, x, Exp(r, p)) : r \in {q \in LocRibExpected(x) : MayAdvertise(q, p)}} \ {NoRoute}
=============================================================================
