SPECIFICATION GSpec
CONSTANTS
  Peers <- P3
  PInfo <- PI_ebgp3
  Prefixes <- Pfx2
  LocalAS = 65000
  MaxSteps = 12
INVARIANTS
  Emit
